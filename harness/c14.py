"""C14 — subregions always stay inside, aligned with and measured in cells of their mesh."""
import os
import random
import tempfile
from fractions import Fraction

import numpy as np

from . import core, fieldio, tcommon as tc
from .c13 import cmp_json, same_state, _mesh
from .core import Q, Qs, F

import discretisedfield as df

PID = "C14"
RULE = ("exact-regime meshes 1-4 d with 0-3 existing (overlapping/touching) subregions; (setter) candidate sets mixing aligned boxes "
        "(incl. equal to the region, touching, overlapping) with boxes shifted by 1/2, 1/4, 1e-3 cell, oversized, fractional size, "
        "outside: accept/reject vs model, previous subregions kept on rejection, accepted => SubInv with mesh dims/units; (aligned) "
        "is_aligned on pairs with whole-cell / fractional offsets and equal / unequal cells; (sel) plane and range selections at "
        "interior coordinates, on subregion faces and region boundary: kept set and clipped extents computed independently in exact "
        "arithmetic; (name) mesh[name]; (history) transformation histories from C13's generator with SubInv after every step; "
        "(nm) the setter at nanometre scale (x 2^-30, exact) with boxes 1e-3..1e-4 of a cell off the lattice / too short / too long and candidates carrying their own tolerance factors: accept/reject vs model (the alignment test lets them through there, the other tests decide); "
        "(session) store sessions shared with C13; "
        "(persist) JSON side-car (file tree vs model saveSubs; load into the same / renamed / shifted mesh vs model loadSubs) and HDF5 reload; (scale) the same setter cases at length scales 1e6 and 1e-12 (known finding D18). "
        "non-trivial = at least one subregion or candidate that is not the whole region")
TRUSTED = ["harness/c14.py, harness/tcommon.py + driver JSON glue",
           "JSON side-car: the value tree is modelled (saveSubs / loadSubs, compared with the file written / the mesh loaded by the real code); the text layer (json.dump/json.load, repr of binary64) is trusted",
           "h5py persistence is observed, not modelled"]
ASSUMPTIONS = ["dyadic corners and cells: alignment remainders are exact in binary64 at moderate scales"]
UNPROVED = ["HDF5: the C14 side is proved on C10's model of io/hdf5.py (hdf5_loaded_same_values / hdf5_loaded_subInv: the mesh the reader returns has the same values and SubInv; hdf5_load_through_setter / hdf5_load_passed_subOk: whatever the file holds went through the setter); that meshLoad(meshSave m) IS that mesh is C10's theorem mesh_roundtrip (not re-proved here), and h5py/libhdf5 byte encoding is trusted",
            "SubInv is the exact-arithmetic (tolerance 0) reading. The three tolerant tests are now characterised as the code evaluates them, each as an IFF in exact rationals: inside_iff_tolerance (absolute+relative tolerance of the REGION), divisible_tol_iff (min(cell)/1000), aligned_tol_iff (absolute 1e-12), with the scale laws (is_aligned_scale_law: scaling by s = tolerance t/s; the whole-cell test is invariant; exact_fit_accepted_at_every_scale) and D18 as two iffs (d18_aligned_rejected_iff, d18_half_cell_accepted_iff). Not proved: ONE iff for the whole setter in terms of corner errors (the three tests interact through the counts n = round(edge/cell) of the candidate's own mesh), and nothing about binary64 rounding itself",
            "the setter's verdict is independent of the candidate's names, units AND own tolerance_factor (setter_ignores_candidate_metadata, setter_ignores_candidate_tol): since repo fix 5591fed0 (finding D132) the three tests are made on the candidate re-created with the mesh region's metadata (model: candOk), and what is stored passes the three tests as stored (set_accepts, hdf5_load_through_setter); candidate_tolerance_decides_witness keeps the pre-fix behaviour as a statement about the three tests on a region AS GIVEN (mesh [0, 0.002] n=2, candidate [0, 0.001-1e-13]: refused with tolerance_factor 1e-12, passed with 1e-3; candOk refuses both). Not proved: anything about candidates that are not Region objects or have another ndim beyond 'refused'",
            "in-place == copy without SubInv: copy_accepted_iff_inplace_passes (the copying form is accepted iff the in-place result passes the bc check and the three tests); which results FAIL in binary64 is D18 territory (observed: nm-far / farsel / history streams)",
            "store model (shared with C13): region and subregion objects of a mesh are always its own copies (subregions_are_own_copies, DFV.C13.exclusive_ownership_after_any_session - since repo fix 12c808de also the region object, so a second mesh built on the same Region object can no longer break the first one's SubInv); SubInv after in-place histories in the store (subInv_after_inplace_history_in_store) needs a good store with exclusive region objects, which every session reaches; SubInv over whole sessions with setter / constructor statements is not stated as one theorem (per statement: constructor_and_setter_in_store + set_accepts_exact), and a caller who moves mesh.region or mesh.subregions[name] directly can still break SubInv of that mesh",
            "selection theorems are stated for meshes satisfying SubInv; plane/range selections of meshes holding tolerance-accepted but inexact subregions are covered by the correspondence run only"]
BUDGET = {"quick": 90, "thorough": 900}


def frac_mesh(ms):
    pmin = [Fraction(x) for x in ms["p1"]]
    pmax = [Fraction(x) for x in ms["p2"]]
    cell = [(b - a) / k for a, b, k in zip(pmin, pmax, ms["n"])]
    return pmin, pmax, cell


def gen_candidate(rng, ms, tag):
    pmin, pmax, cell = frac_mesh(ms)
    n = ms["n"]
    lo = [rng.randint(0, k - 1) for k in n]
    hi = [rng.randint(l + 1, k) for l, k in zip(lo, n)]
    p1 = [a + l * c for a, l, c in zip(pmin, lo, cell)]
    p2 = [a + h * c for a, h, c in zip(pmin, hi, cell)]
    ax = rng.randrange(len(n))
    if tag == "region":
        p1, p2 = list(pmin), list(pmax)
    elif tag in ("half", "quarter", "milli", "micro", "near3", "near4"):
        d = {"half": Fraction(1, 2), "quarter": Fraction(1, 4), "milli": Fraction(1, 1024), "micro": Fraction(1, 2**20),
             "near3": Fraction(1, 2**11), "near4": Fraction(1, 2**13)}[tag] * cell[ax]
        if hi[ax] == n[ax]:  # keep it inside: shift down
            d = -d
            if lo[ax] == 0:
                p1[ax] += cell[ax] if n[ax] > 1 else 0
        p1[ax] += d
        p2[ax] += d
        if p1[ax] < pmin[ax] or p2[ax] > pmax[ax] or p1[ax] >= p2[ax]:
            return None
    elif tag in ("short3", "short4", "long3"):
        # a box 0.05 % / 0.012 % shorter (longer) than a whole number of cells: where a candidate's own loose tolerance factor
        # used to decide (finding D132, repo fix 5591fed0: the tests are now made with the mesh region's tolerance)
        d = {"short3": -Fraction(1, 2**11), "short4": -Fraction(1, 2**13), "long3": Fraction(1, 2**11)}[tag] * cell[ax]
        if tag == "long3" and hi[ax] == n[ax]:
            d = -d
        p2[ax] += d
    elif tag == "fractional":
        p2[ax] -= cell[ax] / 2
        if p2[ax] <= p1[ax]:
            return None
    elif tag == "oversized":
        p2[ax] = pmax[ax] + cell[ax]
    elif tag == "outside":
        w = p2[ax] - p1[ax]
        p1[ax] = pmax[ax] + 2 * cell[ax]
        p2[ax] = p1[ax] + w
    return dict(tag=tag, p1=[float(x) for x in p1], p2=[float(x) for x in p2],
                ctol=rng.choice([None, None, 1e-3, 1e-2, 0.3, 0.5, 5.0, 0.0]))


def scaled_spec(ms, s):
    return dict(ms, p1=[x * s for x in ms["p1"]], p2=[x * s for x in ms["p2"]])


def tagged(v):
    """JSON value -> tagged tree {"n": rational} | {"s": str} | {"a": [..]} | {"o": [[key, value], ..]} (order kept)"""
    if isinstance(v, _Pairs):
        return {"o": [[k, tagged(x)] for k, x in v]}
    if isinstance(v, list):
        return {"a": [tagged(x) for x in v]}
    if isinstance(v, str):
        return {"s": v}
    if isinstance(v, bool) or v is None:
        raise ValueError(f"unexpected JSON value {v!r} in subregion side-car")
    return {"n": Q(v)}


class _Pairs(list):
    pass


def read_sidecar(fn):
    import json
    with open(fn + ".subregions.json", "rt", encoding="utf-8") as f:
        return tagged(json.load(f, object_pairs_hook=_Pairs))


def tagged_eq(a, b):
    """tagged trees equal (numbers as exact rationals)"""
    if set(a) != set(b) or len(a) != 1:
        return False
    (k, x), = a.items()
    y = b[k]
    if k == "n":
        return F(x) == F(y)
    if k == "s":
        return x == y
    if k == "a":
        return len(x) == len(y) and all(tagged_eq(p, q) for p, q in zip(x, y))
    return len(x) == len(y) and all(p[0] == q[0] and tagged_eq(p[1], q[1]) for p, q in zip(x, y))


def cases(rng, tier):
    N = 4 if tier == "quick" else 24
    for _ in range(60 * N):
        ms = fieldio.gen_mesh_spec(rng, max_cells=80, nmax=6)
        subs = tc.gen_subs(rng, ms, rng.randint(0, 3))
        tags = [rng.choice(["aligned", "aligned", "aligned", "region", "half", "quarter", "milli", "micro", "fractional", "oversized", "outside",
                            "near3", "near4", "short3", "short4", "long3"])
                for _ in range(rng.randint(1, 3))]
        cand = [c for c in (gen_candidate(rng, ms, t) for t in tags) if c]
        if cand:
            yield dict(kind="setter", mesh=ms, subs=subs, cand=cand)
    for _ in range(40 * N):
        ms = fieldio.gen_mesh_spec(rng, max_cells=80, nmax=6)
        pmin, pmax, cell = frac_mesh(ms)
        nd = len(cell)
        off = [rng.choice([0, 1, -2, 3, Fraction(1, 2), Fraction(1, 4), Fraction(-3, 2), 0, 0, 500, -37,
                           1 + Fraction(1, 2**20), 500 - Fraction(1, 2**20), Fraction(1, 2**20)]) for _ in range(nd)]
        cf = rng.choice([1, 1, 1, 2, Fraction(3, 2)])
        n2 = [rng.randint(1, 4) for _ in range(nd)]
        o1 = [a + o * c for a, o, c in zip(pmin, off, cell)]
        o2 = [a + k * c * cf for a, k, c in zip(o1, n2, cell)]
        yield dict(kind="aligned", mesh=ms, other=dict(p1=[float(x) for x in o1], p2=[float(x) for x in o2], n=n2, dims=ms["dims"], bc=""),
                   whole=all(Fraction(o).denominator == 1 for o in off), samecell=(cf == 1))
    for _ in range(80 * N):
        ms = fieldio.gen_mesh_spec(rng, ndim=rng.choice([2, 2, 3, 3, 4]), max_cells=80, nmax=6)
        subs = tc.gen_subs(rng, ms, rng.randint(1, 3))
        pmin, pmax, cell = frac_mesh(ms)
        ax = rng.randrange(len(cell))
        faces = sorted({Fraction(p[ax]) for _, a, b in subs for p in (a, b)} | {pmin[ax], pmax[ax]})
        pick = lambda: float(rng.choice([rng.choice(faces), pmin[ax] + Fraction(rng.randint(0, 64 * ms["n"][ax]), 64) * cell[ax]]))
        if rng.random() < 0.25:
            # integer-typed corners of region AND subregions (Python ints), two or four cells per unit along the selected
            # axis: the faces a range selection clips the subregions to are non-integers
            nd = len(cell)
            ip = [rng.randint(-9, 9) for _ in range(nd)]
            ie = [rng.randint(2, 3 if nd > 2 else 4) for _ in range(nd)]
            fac = [rng.choice([1, 2]) for _ in range(nd)]
            fac[ax] = rng.choice([2, 4])
            ms = dict(p1=[float(a) for a in ip], p2=[float(a + e) for a, e in zip(ip, ie)], n=[e * k for e, k in zip(ie, fac)],
                      dims=ms["dims"], bc="", intcorners=True)
            subs = []
            for j in range(rng.randint(1, 3)):
                lo = [rng.randint(0, e - 1) for e in ie]
                hi = [rng.randint(l + 1, e) for l, e in zip(lo, ie)]
                subs.append((f"s{j}", [float(a + l) for a, l in zip(ip, lo)], [float(a + h) for a, h in zip(ip, hi)]))
            q = lambda: float(ip[ax] + Fraction(rng.randint(0, 16 * ie[ax]), 16))
            yield dict(kind="sel", mesh=ms, subs=subs, ax=ax, rng=sorted([q(), q()]))
            continue
        if rng.random() < 0.5:
            yield dict(kind="sel", mesh=ms, subs=subs, ax=ax, x=(None if rng.random() < 0.2 else pick()))
        else:
            yield dict(kind="sel", mesh=ms, subs=subs, ax=ax, rng=[pick(), pick()])
    for _ in range(20 * N):
        ms = fieldio.gen_mesh_spec(rng, max_cells=80, nmax=6)
        yield dict(kind="name", mesh=ms, subs=tc.gen_subs(rng, ms, rng.randint(1, 3)))
    # decimal nanometre cells, 1e5 .. 1e6 cells away from the origin, subregions ONE cell thick (oracle only: nothing
    # is representable): named extraction, single-layer range selections and re-attachment after an in-place move
    for _ in range(12 * N):
        nd = rng.choice([1, 2, 3, 3])
        n = [rng.randint(2, 5) for _ in range(nd)]
        cell = [rng.choice([1.0, 2.0, 2.5, 3.0, 5.0, 0.7]) * 1e-9 for _ in range(nd)]
        off = [rng.choice([-1, 1]) * rng.randint(10 ** 5, 10 ** 6) for _ in range(nd)]
        thin = []
        for j in range(rng.randint(1, 3)):
            ax = rng.randrange(nd)
            lo = [rng.randint(0, k - 1) for k in n]
            hi = [rng.randint(l + 1, k) for l, k in zip(lo, n)]
            hi[ax] = lo[ax] + 1
            thin.append([f"t{j}", lo, hi, ax])
        yield dict(kind="farsel", n=n, cell=cell, off=off, thin=thin, sub=rng.getrandbits(32))
    for _ in range(40 * N):
        spec = tc.gen_object_spec(rng, "mesh")
        if not spec.get("subs"):
            spec["subs"] = tc.gen_subs(rng, spec["mesh"], 2)
        yield dict(kind="history", obj=spec, ops=[tc.gen_op(rng, spec, far=False, rot_ref_small=True) for _ in range(rng.randint(1, 6))])
    # store sessions (round 3, shared with C13): the same Region objects as candidates of several meshes / under two names /
    # a mesh's own region and subregions as candidates, re-assignments after in-place moves: the mesh holds COPIES, SubInv
    # holds for every mesh after every statement, and the store model names the same objects as `is` does
    for k in range(20 * N):
        yield dict(kind="session", session=tc.gen_session(rng, undisciplined=(k % 10 == 9)))
    for _ in range(12 * N):
        ms = fieldio.gen_mesh_spec(rng, ndim=rng.choice([1, 2, 3, 3, 4]), max_cells=60, nmax=5)
        # names whose insertion order is not their sorted order (capitals, digits, non-ASCII): a file that stores the names
        # and the boxes separately must keep them paired
        subs = tc.gen_subs(rng, ms, rng.randint(1, 3))
        if rng.random() < 0.7:
            subs = [(nm, a, b) for nm, (_, a, b) in zip(rng.sample(["top", "bottom", "zone_2", "zone_10", "Z", "a", "\u00dc", "mid"], len(subs)), subs)]
        yield dict(kind="persist", mesh=ms, subs=subs, fmt=rng.choice(["json", "h5"]),
                   intcorners=rng.random() < 0.3)
    for _ in range(20 * N):
        ms = fieldio.gen_mesh_spec(rng, ndim=rng.choice([1, 2, 3]), max_cells=80, nmax=6, names=False)
        spec = dict(kind="mesh", mesh=ms)
        yield dict(kind="shared", mesh=ms, subs=tc.gen_subs(rng, ms, rng.randint(1, 3)),
                   ops=[dict(tc.gen_op(rng, spec, allow_bad=False, far=False, rot_ref_small=True), inplace=True) for _ in range(rng.randint(1, 3))])
    # nanometre cells (every length x 2^-30, exact in binary64): the ABSOLUTE 1e-12 of is_aligned is about a thousandth of a
    # cell here, so boxes 1e-3 .. 1e-4 of a cell off the lattice pass the alignment test and the OTHER tests decide - among
    # them 'the cell must not exceed the candidate', which before repo fix 5591fed0 ran with the candidate's own tolerance
    # factor (ctol).  Compared with the model (exact rationals of the same binary64 numbers); the oracle does not judge
    # tolerance decisions.
    for _ in range(12 * N):
        ms = fieldio.gen_mesh_spec(rng, ndim=rng.choice([1, 2, 3]), max_cells=80, nmax=6)
        ms["intcorners"] = False
        tags = [rng.choice(["aligned", "near3", "near4", "short3", "short4", "long3", "milli"]) for _ in range(rng.randint(1, 2))]
        cand = [c for c in (gen_candidate(rng, ms, t) for t in tags) if c]
        if cand:
            yield dict(kind="setter", mesh=ms, subs=[], cand=cand, scale=2.0 ** -30, exactscale=True)
    # known finding D18: the same setter at extreme length scales
    for s in (1e6, 2.0 ** 21, 1e-12, 2.0 ** -41):
        for _ in range(3):
            ms = fieldio.gen_mesh_spec(rng, ndim=2, max_cells=80, nmax=6)
            cand = [c for c in (gen_candidate(rng, ms, t) for t in ("aligned", "half")) if c]
            yield dict(kind="setter", mesh=ms, subs=[], cand=cand, scale=s)


def build(case):
    s = case.get("scale", 1.0)
    ms = scaled_spec(case["mesh"], s) if s != 1.0 else case["mesh"]
    def reg(a, b):
        a, b = [x * s for x in a], [x * s for x in b]
        if ms.get("intcorners") and s == 1.0 and all(float(x).is_integer() for x in a + b):
            a, b = [int(x) for x in a], [int(x) for x in b]  # integer-typed subregion corners
        return df.Region(p1=a, p2=b)
    subs = {k: reg(a, b) for k, a, b in case.get("subs", [])}
    return fieldio.build_mesh(ms, subregions=subs or None)


def run_farsel(case, obs, fail):
    import random
    rng = random.Random(case["sub"])
    n, cell, off = case["n"], case["cell"], case["off"]
    nd = len(n)
    p1 = [o * c for o, c in zip(off, cell)]
    p2 = [a + k * c for a, k, c in zip(p1, n, cell)]
    subs = {nm: df.Region(p1=[a + l * c for a, l, c in zip(p1, lo, cell)], p2=[a + h * c for a, h, c in zip(p1, hi, cell)])
            for nm, lo, hi, _ in case["thin"]}
    try:
        m = df.Mesh(p1=p1, p2=p2, n=n, subregions=subs)
    except Exception as e:
        obs["tags"].append("farsel:mesh-rejected")     # acceptance of inexact boxes is the setter's tolerant test, not judged here
        return obs
    obs["tags"].append("farsel:built")
    close = lambda a, b, ax: abs(float(a) - float(b)) <= 1e-6 * cell[ax]
    for nm, lo, hi, ax in case["thin"]:
        try:
            g = m[nm]
        except Exception as e:
            fail(f"mesh[{nm!r}] of a subregion one cell thick along axis {ax}, {off[ax]} cells from the origin, raised {type(e).__name__}: {str(e)[:120]}")
            continue
        if [int(k) for k in g.n] != [h - l for l, h in zip(lo, hi)]:
            fail(f"mesh[{nm!r}].n = {list(map(int, g.n))}, expected {[h - l for l, h in zip(lo, hi)]}")
        # the range selection that keeps exactly the subregion's own layer
        d = m.region.dims[ax]
        a = p1[ax] + (lo[ax] + 0.3) * cell[ax]
        b = p1[ax] + (lo[ax] + 0.6) * cell[ax]
        try:
            g = m.sel(**{d: (a, b)})
        except Exception as e:
            fail(f"range selection of one layer (axis {ax}, layer {lo[ax]}, {off[ax]} cells from the origin) raised {type(e).__name__}: {str(e)[:120]}")
            continue
        if int(g.n[ax]) != 1:
            fail(f"range selection inside layer {lo[ax]} of axis {ax} keeps {int(g.n[ax])} layers")
        if nm not in g.subregions:
            fail(f"range selection of layer {lo[ax]} along axis {ax} dropped subregion {nm!r}, which occupies that layer")
        else:
            r = g.subregions[nm]
            want = (p1[ax] + lo[ax] * cell[ax], p1[ax] + hi[ax] * cell[ax])
            if not (close(r.pmin[ax], want[0], ax) and close(r.pmax[ax], want[1], ax)):
                fail(f"range selection: subregion {nm!r} clipped to {float(r.pmin[ax])!r}..{float(r.pmax[ax])!r}, expected {want}")
    # in-place move by another far vector, then the held subregions attached again
    v = [rng.choice([-1, 1]) * rng.randint(10 ** 5, 10 ** 6) * c for c in cell]
    try:
        m.translate(v, inplace=True)
        m.subregions = dict(m.subregions)
        for nm in subs:
            m[nm]
    except Exception as e:
        fail(f"after an in-place translation by {v} the mesh's own subregions are refused / cannot be extracted: {type(e).__name__}: {str(e)[:120]}")
    obs["nontrivial"] = True
    return obs


def run_impl(case):
    del tc.ARG_CHANGED[:]
    obs = {"oracle": [], "tags": ["kind:" + case["kind"]]}
    fail = obs["oracle"].append
    kind = case["kind"]
    if kind == "history":
        from . import c13
        o = c13.run_impl(dict(obj=case["obj"], ops=case["ops"]))
        o["tags"] = obs["tags"] + o["tags"]
        return o
    if kind == "farsel":
        return run_farsel(case, obs, fail)
    if kind == "session":
        from . import c13
        o = c13.run_session_case(dict(session=case["session"]))
        o["tags"] = obs["tags"] + o["tags"]
        return o
    m = build(case)
    obs["mesh"] = fieldio.mesh_json(m)
    tc.check_subinv(m, fail, "initial mesh")
    s = case.get("scale", 1.0)
    if kind == "setter":
        before = tc.snap(m)
        # a candidate's OWN tolerance factor (loose ones included) has no say: the mesh region's decides, the setter
        # overwrites the candidate's
        cand = {f"c{i}": df.Region(p1=[x * s for x in c["p1"]], p2=[x * s for x in c["p2"]], dims=rng_dims(i), units=["q"] * len(c["p1"]),
                                   **({"tolerance_factor": c["ctol"]} if c.get("ctol") is not None else {}))
                for i, c in enumerate(case["cand"])}
        obs["cand"] = [dict(fieldio.region_json(r), name=k) for k, r in cand.items()]
        tags = [c["tag"] for c in case["cand"]]
        obs["tags"] += ["cand:" + t for t in tags]
        try:
            m.subregions = cand
            st = "ok"
        except Exception as e:
            st = "err"
        obs["st"] = st
        good = all(t in ("aligned", "region") for t in tags)
        clearly_bad = any(t in ("half", "quarter", "milli", "micro", "fractional", "oversized", "outside") for t in tags) or \
            (s == 1.0 and any(t in ("near3", "near4", "short3", "short4", "long3") for t in tags))
        if st == "err":
            if not same_state(tc.snap(m), before, rel=0):
                fail("rejected assignment changed the subregions")
            if good:
                fail(f"cell-aligned subregions rejected: {[(c['p1'], c['p2']) for c in case['cand']]} scale {s}")
        else:
            if clearly_bad:
                fail(f"subregion that is not inside / whole cells / on the lattice accepted: tags {tags} scale {s}")
            tc.check_subinv(m, fail, "after assignment")
        obs["after"] = fieldio.mesh_json(m)
    elif kind == "shared":
        # the same Region objects attached to two meshes; transforming one mesh in place must not move the other's subregions
        regs = {k: df.Region(p1=a, p2=b) for k, a, b in case["subs"]}
        m1 = fieldio.build_mesh(case["mesh"], subregions=regs)
        m2 = fieldio.build_mesh(case["mesh"], subregions=regs)
        m3 = fieldio.build_mesh(case["mesh"])
        m3.subregions = regs
        snaps = [tc.snap(m2), tc.snap(m3), {k: tc.snap(r) for k, r in regs.items()}]
        for op in case["ops"]:
            try:
                tc.apply_op(m1, op, inplace=True)
            except Exception:
                pass
        for nm, mm, sn in (("second mesh", m2, snaps[0]), ("third mesh", m3, snaps[1])):
            tc.check_subinv(mm, fail, f"{nm} holding the same subregion objects, after in-place steps on the first mesh")
            if not same_state(tc.snap(mm), sn, rel=0):
                fail(f"in-place transformation of one mesh changed the subregions of another mesh built from the same Region objects")
        if {k: tc.snap(r) for k, r in regs.items()} != snaps[2]:
            fail("in-place transformation of a mesh modified the caller's Region objects")
        tc.check_subinv(m1, fail, "transformed mesh")
    elif kind == "aligned":
        o = fieldio.build_mesh(case["other"])
        obs["other"] = fieldio.mesh_json(o)
        r = bool(m.is_aligned(o))
        obs["res"] = r
        exp = case["whole"] and case["samecell"]
        if r != exp:
            fail(f"is_aligned = {r} but cells {'agree' if case['samecell'] else 'differ'} and origins differ by {'whole' if case['whole'] else 'fractional'} cells")
    elif kind == "sel":
        ax = case["ax"]
        d = m.region.dims[ax]
        pmin, pmax, cell = frac_mesh(case["mesh"])
        n = case["mesh"]["n"]
        cellidx = lambda x: min(n[ax] - 1, int((Fraction(x) - pmin[ax]) // cell[ax]))
        try:
            if "rng" in case:
                g = m.sel(**{d: tuple(case["rng"])})
            elif case["x"] is None:
                g = m.sel(d)
            else:
                g = m.sel(**{d: case["x"]})
            st = "ok"
        except Exception as e:
            g, st = None, "err"
        obs["st"] = st
        if st == "err":
            fail(f"selection inside the region rejected: axis {ax}, {case.get('rng', case.get('x'))}")
        if st == "ok":
            obs["res"] = fieldio.mesh_json(g)
            tc.check_subinv(g, fail, "selection")
            exp = {}
            if "rng" in case:
                a, b = sorted(case["rng"])
                i0, i1 = cellidx(a), cellidx(b)
                lo, hi = pmin[ax] + i0 * cell[ax], pmin[ax] + (i1 + 1) * cell[ax]
                for name, p1, p2 in case["subs"]:
                    s0, s1 = Fraction(p1[ax]), Fraction(p2[ax])
                    if s0 < hi and lo < s1:
                        q1, q2 = [Fraction(x) for x in p1], [Fraction(x) for x in p2]
                        q1[ax], q2[ax] = max(lo, s0), min(hi, s1)
                        exp[name] = (q1, q2)
                if [int(k) for k in g.n] != [(i1 - i0 + 1) if j == ax else k for j, k in enumerate(n)]:
                    fail(f"range selection {case['rng']} along axis {ax} keeps n={list(map(int, g.n))}, expected cells {i0}..{i1}")
            else:
                x = case["x"] if case["x"] is not None else float((pmin[ax] + pmax[ax]) / 2)
                i0 = cellidx(x)
                c = pmin[ax] + (i0 + Fraction(1, 2)) * cell[ax]
                for name, p1, p2 in case["subs"]:
                    if Fraction(p1[ax]) <= c <= Fraction(p2[ax]):
                        exp[name] = ([Fraction(v) for j, v in enumerate(p1) if j != ax], [Fraction(v) for j, v in enumerate(p2) if j != ax])
            got = {k: ([Fraction(float(v)) for v in r.pmin], [Fraction(float(v)) for v in r.pmax]) for k, r in g.subregions.items()}
            if list(got) != [k for k, _, _ in case["subs"] if k in exp] or any(got[k] != exp[k] for k in got):
                fail(f"selection {case.get('rng', case.get('x'))} along axis {ax}: subregions {[(k, [list(map(float, a)), list(map(float, b))]) for k, (a, b) in got.items()]}, "
                     f"expected {[(k, [list(map(float, a)), list(map(float, b))]) for k, (a, b) in exp.items()]}")
    elif kind == "name":
        obs["res"] = {}
        for name, p1, p2 in case["subs"]:
            g = m[name]
            obs["res"][name] = fieldio.mesh_json(g)
            if not (np.array_equal(g.region.pmin, m.subregions[name].pmin) and np.array_equal(g.region.pmax, m.subregions[name].pmax)
                    and np.allclose(g.cell, m.cell, rtol=1e-12, atol=0)):
                fail(f"mesh[{name!r}] has region {g.region.pmin.tolist()}-{g.region.pmax.tolist()} cell {g.cell.tolist()}")
            if [int(k) for k in g.n] != [int(round(float((Fraction(b) - Fraction(a)) / c))) for a, b, c in zip(p1, p2, frac_mesh(case["mesh"])[2])]:
                fail(f"mesh[{name!r}].n = {list(map(int, g.n))}")
    elif kind == "persist":
        if case["intcorners"]:
            ms = case["mesh"]
            if all(float(x).is_integer() for x in ms["p1"] + ms["p2"]):
                m = df.Mesh(p1=[int(x) for x in ms["p1"]], p2=[int(x) for x in ms["p2"]], n=ms["n"],
                            subregions={k: df.Region(p1=a, p2=b) for k, a, b in case["subs"]})
        with tempfile.TemporaryDirectory() as d:
            if case["fmt"] == "json":
                fn = os.path.join(d, "f.omf")
                m.save_subregions(fn)
                obs["mesh"] = fieldio.mesh_json(m)
                obs["sidecar"] = read_sidecar(fn)
                m2 = df.Mesh(region=m.region, n=m.n)
                obs["m2_before"] = fieldio.mesh_json(m2)
                m2.load_subregions(fn)
                obs["m2_after"] = fieldio.mesh_json(m2)
                # (i) the same side-car attached to a mesh of the same geometry but other names/units
                nd = m.region.ndim
                other = df.Mesh(region=df.Region(p1=m.region.pmin, p2=m.region.pmax, dims=[f"q{i}" for i in range(nd)],
                                                 units=["furlong"] * nd), n=m.n)
                obs["other_before"] = fieldio.mesh_json(other)
                other.load_subregions(fn)
                obs["other_after"] = fieldio.mesh_json(other)
                tc.check_subinv(other, fail, "mesh with other dimension names/units after load_subregions")
                # (ii) a side-car that does not belong to the mesh is rejected and the previous subregions are kept
                shifted = df.Mesh(region=df.Region(p1=m.region.pmin + 0.37 * m.cell, p2=m.region.pmax + 0.37 * m.cell), n=m.n)
                prev = {"keep": df.Region(p1=shifted.region.pmin, p2=shifted.region.pmin + shifted.cell)}
                shifted.subregions = prev
                snap0 = tc.snap(shifted)
                obs["shifted_before"] = fieldio.mesh_json(shifted)
                try:
                    shifted.load_subregions(fn)
                    fail("side-car whose boxes are off the lattice of the mesh was attached by load_subregions")
                except Exception:
                    if not same_state(tc.snap(shifted), snap0, rel=0):
                        fail("rejected side-car changed the mesh's subregions")
            else:
                fn = os.path.join(d, "f.h5")
                df.Field(m, nvdim=1, value=1.0).to_file(fn)
                m2 = df.Field.from_file(fn).mesh
        a, b = tc.snap(m)["subs"], tc.snap(m2)["subs"]
        if a != b:
            fail(f"subregions after {case['fmt']} reload {b} differ from {a}")
        tc.check_subinv(m2, fail, "reloaded mesh")
    obs["nontrivial"] = True
    for text in tc.ARG_CHANGED:
        obs["oracle"].append(text)
    del tc.ARG_CHANGED[:]
    return obs


def rng_dims(i):
    return None


def model_requests(case, obs):
    k = case["kind"]
    if k == "history":
        from . import c13
        return c13.model_requests(dict(obj=case["obj"], ops=case["ops"]), obs)
    if k == "session":
        from . import c13
        return c13.model_requests(dict(session=case["session"]), obs)
    if "mesh" not in obs:
        return []
    if k == "setter":
        return [dict(op="set_subs", mesh=obs["mesh"], cand=dict(subs=obs["cand"]))]
    if k == "aligned":
        return [dict(op="is_aligned", mesh=obs["mesh"], other=obs["other"])]
    if k == "sel":
        if "rng" in case:
            return [dict(op="sel_range", mesh=obs["mesh"], ax=case["ax"], a=Q(case["rng"][0]), b=Q(case["rng"][1]))]
        return [dict(op="sel_plane", mesh=obs["mesh"], ax=case["ax"], x=(None if case["x"] is None else Q(case["x"])))]
    if k == "name":
        return [dict(op="get_name", mesh=obs["mesh"], name=n) for n, _, _ in case["subs"]]
    if k == "persist" and "sidecar" in obs:
        return [dict(op="save_subs", mesh=obs["mesh"]),
                dict(op="load_subs", mesh=obs["m2_before"], sidecar=obs["sidecar"]),
                dict(op="load_subs", mesh=obs["other_before"], sidecar=obs["sidecar"]),
                dict(op="load_subs", mesh=obs["shifted_before"], sidecar=obs["sidecar"])]
    return []


def compare(case, obs, rs):
    dis = []
    k = case["kind"]
    if k == "history":
        from . import c13
        return c13.compare(dict(obj=case["obj"], ops=case["ops"]), obs, rs)
    if k == "session":
        from . import c13
        return c13.compare(dict(session=case["session"]), obs, rs)
    if not rs:
        return dis
    if k == "setter":
        if case.get("scale", 1.0) != 1.0 and not case.get("exactscale"):
            return dis  # extreme scales: absolute-tolerance behaviour, oracle only (D18)
        if (obs["st"] == "ok") != ("ok" in rs[0]):
            dis.append(f"subregions setter {[c['tag'] for c in case['cand']]}: impl {obs['st']} vs model {'ok' if 'ok' in rs[0] else rs[0]}")
        elif obs["st"] == "ok":
            _mesh("mesh after assignment", obs["after"], rs[0]["ok"], dis)
    elif k == "aligned":
        if obs["res"] != rs[0]["ok"]:
            dis.append(f"is_aligned: impl {obs['res']} vs model {rs[0]['ok']}")
    elif k == "sel":
        if (obs["st"] == "ok") != ("ok" in rs[0]):
            dis.append(f"Mesh.sel: impl {obs['st']} vs model {'ok' if 'ok' in rs[0] else rs[0]}")
        elif obs["st"] == "ok":
            _mesh("Mesh.sel result", obs["res"], rs[0]["ok"], dis)
    elif k == "persist":
        if "ok" not in rs[0] or not tagged_eq(obs["sidecar"], rs[0]["ok"]):
            dis.append(f"save_subregions: file content {obs['sidecar']} vs model {rs[0]}")
        for key, r in (("m2", rs[1]), ("other", rs[2])):
            if "ok" not in r:
                dis.append(f"load_subregions into {key}: impl ok vs model {r}")
            elif key + "_after" in obs:
                _mesh(f"load_subregions into {key}", obs[key + "_after"], r["ok"], dis)
        if "ok" in rs[3]:
            dis.append("load_subregions of a misfitting side-car: impl err vs model ok")
    elif k == "name":
        for (n, _, _), r in zip(case["subs"], rs):
            if "ok" not in r:
                dis.append(f"mesh[{n!r}]: model {r}")
            else:
                _mesh(f"mesh[{n!r}]", obs["res"][n], r["ok"], dis)
    return dis


def nontrivial(case, obs):
    return bool(obs.get("nontrivial"))


def known(case, text):
    if case.get("kind") == "setter" and case.get("scale", 1.0) != 1.0:
        if case.get("exactscale") and (text.startswith("subregions setter") or text.startswith("mesh after assignment")):
            return None   # model and code disagree on exactly representable input: never excused
        return "D18"  # absolute 1e-12 tolerance at extreme length scales: aligned boxes rejected / misaligned accepted
    return None


def search(case, rng):
    return []
