"""C20 — matplotlib plots draw the field's own numbers at their physical coordinates.

What is observed is the ARGUMENT ASSEMBLY: after every plotting call (Agg backend) the artists
are read back (AxesImage array / extent / origin, Quiver X / Y / U / V / mask / colour array,
axis labels) and, when the harness passes its own recording Axes subclass as ``ax=``, the raw
arguments of ``imshow`` / ``quiver`` / ``contour``.  Nothing in the repository is patched."""
import colorsys
import itertools
import math
import os
import random
from fractions import Fraction

import numpy as np

from . import core, fieldio
from .core import Q, Qs, F

import matplotlib

matplotlib.use("Agg")
import matplotlib.pyplot as plt  # noqa: E402
from matplotlib.axes import Axes  # noqa: E402
from matplotlib.image import AxesImage  # noqa: E402
from matplotlib.quiver import Quiver  # noqa: E402

import discretisedfield as df  # noqa: E402
import ubermagutil.units as uu  # noqa: E402

PID = "C20"
RULE = ("2-d fields (1-3 components, also 4 and labelled scalars for the refusal stream), built directly or as a plane of a 3-d "
        "field (`sel`), default / custom / permuted / partial component-to-axis mappings, explicit arrow labels, validity masks, "
        "anisotropic cells; geometry either exact (dyadic, optionally x1e3 / x1e6 so that dividing by the multiplier is exact) or "
        "arbitrary binary64 at scales 1e-12 .. 1e7 with offsets up to 20 edge lengths; default and explicit multipliers (also ones "
        "outside the SI table); filter / colour / lightness fields on the same and on a different resolution (tie-free in the "
        "tolerance regime), of wrong component or space dimension; every plot kind (scalar, vector, contour, lightness, default) "
        "with the harness' recording Axes and with ax=None. Model vs code: ok/err, image (pixel by pixel, NaN = not drawn), origin, "
        "extent, arrow positions, U / V / mask / colour, contour X / Y / Z, labels; field VALUES are compared exactly in both "
        "regimes, coordinates exactly for multiplier 1 in the exact regime and to 2^-44 relative otherwise; lightness colours after "
        "applying atan2 / hls_to_rgb to the model's exact tokens (1e-9). Oracle on the real code alone: pixel <-> cell lookup through "
        "the extent for every cell centre, arrows at centres/multiplier with the mapped components, hidden cells (invalid OR zero in the filter, with any filter), labels, refusals, "
        "snapshot before/after of the field AND of every filter / colour / lightness field passed in. SI table mirrored in Lean and compared with ubermagutil (table, inverse, decade search). "
        "HEAP model (arrays as objects: array.copy() / derived fields allocate, the NaN writes of _filter_values and the normalisation of the lightness array happen in place): for "
        "scalar / contour / vector / lightness / default requests the driver also runs the heap functions; their result is compared with the same artists, and the list of INPUT arrays they "
        "modified (always empty) with what the snapshot probe saw. SESSIONS: histories of 2-4 field.mpl(scalar_kw=d1, vector_kw=d2) calls on 1-3 fields that SHARE the caller's dictionary "
        "objects (with / without filter_field, use_color, color_field, colorbar); model = object store of dictionaries (copy / setdefault); every call of the history is compared "
        "artist by artist, the positional oracle runs on every call with the filter that call was given, and the keys and value identities of the caller's dictionaries after the "
        "session are compared with the model's store. "
        "DIRECT-CALL SESSIONS (dsession): histories of 2-4 direct calls mpl.scalar / contour / vector / lightness / mpl() on 1-3 fields of one mesh that SHARE field objects "
        "(the same filter / colour / lightness field object handed to several calls, the same field plotted by several methods; 30 % 'plain' sessions: the same method with "
        "default arguments on several fields of different validity); model = the heap functions run one after the other on ONE heap (runHeapSession); every call is compared artist "
        "by artist, the positional oracle runs on every call, and the arrays modified by the whole session (none) are compared with the snapshot probe. "
        "matplotlib's 2 x 2 requirement on contour is part of the model (mpl_ok) and compared with what the recording Axes saw. "
        "The SI case also compares si_max_multiplier of 160 pairs of edge lengths 1e-30 .. 1e30 (found / refused, value) with the model. "
        "non-trivial = plot succeeded on a mesh with at least 2 cells and non-constant values")
TRUSTED = ["harness/c20.py, harness/fieldio.py + driver JSON glue",
           "matplotlib placement contract (trusted, stated as PixelCovers / quiver contract): with origin='lower' and extent=(x0,x1,y0,y1) "
           "pixel [r][c] of an RxC image covers x in [x0+c(x1-x0)/C, ..), y in [y0+r(y1-y0)/R, ..); quiver(X,Y,U,V) draws (U[r][c],V[r][c]) at "
           "(X[c],Y[r]); NaN pixels / arrows are not drawn; rendering, colour maps, colorbar, colorwheel",
           "math.atan2, the division by 2*pi and colorsys.hls_to_rgb applied by the harness to the model's exact hue / lightness tokens",
           "ubermagutil's SI table (mirrored in Lean, compared on every run)",
           "Field.resample (xarray nearest lookup) modelled by C07's resampleNDA",
           "python semantics of dict.copy() / setdefault / ** and of numpy copy / view / boolean-mask assignment as transcribed in Model/C20Session.lean and Model/C20Heap.lean"]
ASSUMPTIONS = ["exact regime: dyadic geometry (times 1, 1e3 or 1e6), values are small integers",
               "tolerance regime: every edge is at least 0.1 % away from a decade boundary of the SI search; auxiliary fields on a different "
               "resolution have no cell centre on a source-cell face (nearest-neighbour ties are rounding dependent)",
               "lightness of 2-component fields with the default lightness uses Pythagorean vectors so that |v| is rational"]
UNPROVED = ["plot_pure is PROVED for every plot kind (scalar, contour, vector, lightness, default) on the heap model (Model/C20Heap.lean: every buffer that existed before the call is "
            "unchanged) and tied to /repo by the snapshot probe + the driver's list of modified input arrays; mesh / labels / mapping / unit are immutable records in the model "
            "(their immutability in Python is observed by the snapshot probe only)",
            "heap refinement (heap functions = value model) is now proved for EVERY plot kind incl. the default plot mpl() (heap_default_refines: scalar of a fresh component field "
            "composed with vector on one heap); hypotheses: arrays hold numbers (no NaN in the field's own array), no more component labels than components",
            "sessions: call_is_pure / session_calls_independent cover field.mpl() with shared keyword DICTIONARIES; heap_session_independent covers histories of the direct methods "
            "(mpl.scalar / contour / vector / lightness / mpl()) that share ARRAYS (induction over histories on the heap model, tied to /repo by the dsession stream); a session that "
            "mixes shared dictionaries AND shared arrays in one model is not formalised (the two models are separate)",
            "refusal is proved as an EQUIVALENCE for every plot kind (scalar_ok_iff, contour_ok_iff / contour_mpl_ok_iff, vector_ok_iff, default_ok_iff, lightness_ok_iff) under the "
            "hypothesis that the plotted mesh is well formed and that filter / colour / lightness fields on OTHER cell counts are field objects (FieldWf: well-formed mesh, labels "
            "the constructor accepted - needed because they are resampled); which exception type is raised is not part of the statement (ok / err only)",
            "default multiplier: characterised completely (default_multiplier_iff: power of 1000 of the table, longest edge in [1, 1000) units, unique) and decided for every region "
            "size (default_multiplier_ok_iff: found iff every edge lies in [1e-24, 1e27)) in exact rational arithmetic; binary64 rounding of |edge| / multiplier at a decade "
            "boundary is not modelled (the generators stay 0.1 % clear of the boundaries)",
            "contour: matplotlib's documented requirement (Z at least 2 x 2, len(X) = columns, len(Y) = rows) is part of the model (contourArgsOk, mplContourMpl) and proved to hold "
            "iff both axes have at least two cells (contour_args_ok_iff); that matplotlib really checks exactly this is trusted and compared on every contour call "
            "(mpl_refused of the recording Axes vs the model's mpl_ok)",
            "keyword arguments that are passed through to matplotlib untouched (scale, cmap, levels, color, clim of scalar / vector) are not modelled; "
            "rendering (pixels on screen, colour maps, colorsys.hls_to_rgb, atan2, the division of the hue by 2*pi) is matplotlib's / Python's and is trusted; symmetric_clim, colorbar, "
            "colorwheel, savefig are not modelled (they do not change the arrays, positions or labels handed over)",
            "resample of an auxiliary field needs labels the Field constructor accepts (C07.metaOk), an explicit hypothesis of AuxOk / FieldWf; nearest-neighbour TIES (a centre exactly "
            "on a source face) follow C07's tie rule in the model and are only generated in the exact regime",
            "former defects D91 (explicit filter drew invalid cells), D92 (lightness_field rescaled in place), D93 (lightness on a single-cell axis raised) "
            "are fixed in /repo; their witnesses are regression cases in harness/corpus/C20"]
BUDGET = {"quick": 100, "thorough": 900}


LABELS = ["a", "b", "c", "mx", "my", "mz", "u1", "u2", "u3", "p", "q", "r"]
DIMS = ["x", "y", "z", "a", "b", "c", "u", "v", "w", "t"]
UNITS = ["m", "m", "m", "s", "rad", "T", "px"]
PYTH = [(3, 4), (4, 3), (5, 12), (12, 5), (8, 15), (15, 8), (6, 8), (8, 6), (7, 24), (24, 7), (20, 21), (9, 12), (0, 5), (7, 0), (0, 0),
        (0, 2), (1, 0)]
# independent mirror of the SI prefixes (decimal exponents), checked against ubermagutil and against the Lean table
SI = [("y", -24), ("z", -21), ("a", -18), ("f", -15), ("p", -12), ("n", -9), ("u", -6), ("m", -3), ("", 0), ("k", 3), ("M", 6), ("G", 9),
      ("T", 12), ("P", 15), ("E", 18), ("Z", 21), ("Y", 24)]
SI_BY_MULT = {Fraction(10) ** e: p for p, e in SI}
COORD_REL = Fraction(1, 2 ** 44)


# ------------------------------------------------------------------------------- small helpers
def dec(x):
    """the decimal number a multiplier literal denotes (1e-09 -> 10^-9 exactly)"""
    if isinstance(x, (int, np.integer)) and not isinstance(x, bool):
        return Fraction(int(x))
    return Fraction(repr(float(x)))


def mult_value(s):
    """case literal -> python number handed to the plotting call"""
    if s is None:
        return None
    if isinstance(s, str) and s.startswith("int:"):
        return int(s[4:])
    return float(s)


def qn(x):
    """Q of a float, None for NaN"""
    x = float(x)
    return None if math.isnan(x) else Q(x)


class RecAxes(Axes):
    """Axes that records what is handed to imshow / quiver / contour before drawing it."""

    def __init__(self, *a, **k):
        super().__init__(*a, **k)
        self.rec = []
        self.mpl_refused = False

    def imshow(self, X, *a, **k):
        self.rec.append(("imshow", np.array(X, dtype=float, copy=True), k.get("origin"), list(k.get("extent") or [])))
        return super().imshow(X, *a, **k)

    def quiver(self, *a, **k):
        self.rec.append(("quiver", [np.array(x, dtype=float, copy=True) for x in a], k.get("pivot")))
        return super().quiver(*a, **k)

    def contour(self, *a, **k):
        self.rec.append(("contour", [np.array(x, dtype=float, copy=True) for x in a]))
        try:
            return super().contour(*a, **k)
        except Exception:
            self.mpl_refused = True
            raise


def new_rec_axes():
    fig = plt.figure(figsize=(3, 3))
    ax = RecAxes(fig, [0.15, 0.15, 0.7, 0.7])
    fig.add_axes(ax)
    return ax


# ------------------------------------------------------------------------------- generators
def clear_of_decades(e):
    """edge length (Fraction, > 0) at least 0.1 % away from every power of 1000"""
    k = 0
    while Fraction(1000) ** (k + 1) <= e:
        k += 1
    while Fraction(1000) ** k > e:
        k -= 1
    lo, hi = Fraction(1000) ** k, Fraction(1000) ** (k + 1)
    return e >= lo * Fraction(1001, 1000) and e <= hi * Fraction(999, 1000) and -8 <= k <= 8


def tie_free(ns, nt):
    """no centre of the nt-cell grid lies on a face of the ns-cell grid (same edge)"""
    return all((2 * i + 1) * ns != 2 * k * nt for i in range(nt) for k in range(ns + 1))


def gen_geometry(rng, regime, nmax, min_n=1):
    n = [rng.randint(min_n, nmax), rng.randint(min_n, nmax)]
    if regime == "exact":
        S = rng.choice([1, 1, 1, 1000, 10 ** 6])
        cell = [Fraction(rng.choice([1, 1, 3, 5]), 2 ** rng.randint(0, 3)) * rng.choice([1, 1, 2, 7]) for _ in range(2)]
        if rng.random() < 0.7 and cell[0] == cell[1]:
            cell[1] = cell[1] * 3
        pmin = [Fraction(rng.randint(-40, 40), 2 ** rng.randint(0, 2)) for _ in range(2)]
        pmax = [a + k * c for a, k, c in zip(pmin, n, cell)]
        p1 = [float(S * a) for a in pmin]
        p2 = [float(S * b) for b in pmax]
        scale = S
    else:
        while True:
            d = rng.randint(-12, 7)
            e0 = rng.uniform(1.05, 9.5) * 10.0 ** d
            r = rng.choice([rng.uniform(0.2, 5), rng.uniform(0.2, 5), 10.0 ** rng.randint(-3, 3) * rng.uniform(0.5, 2)])
            e1 = e0 * r
            off = [rng.choice([0.0, -rng.random(), rng.uniform(-20, 20)]) for _ in range(2)]
            p1 = [off[0] * e0, off[1] * e1]
            p2 = [p1[0] + e0, p1[1] + e1]
            edges = [Fraction(b) - Fraction(a) for a, b in zip(p1, p2)]
            if all(e > 0 and clear_of_decades(e) for e in edges) and all(
                    clear_of_decades(Fraction(float(Fraction(b) - Fraction(a)))) for a, b in zip(p1, p2)):
                break
        scale = None
    dims = rng.sample(DIMS, 2) if rng.random() < 0.4 else None
    units = [rng.choice(UNITS), rng.choice(UNITS)] if rng.random() < 0.4 else None
    if rng.random() < 0.5:  # corner order is free
        k = rng.randrange(2)
        p1[k], p2[k] = p2[k], p1[k]
    return dict(p1=p1, p2=p2, n=n, dims=dims, units=units), scale


def gen_mult(rng, regime, scale, geo):
    """multiplier literal (string) or None for the default"""
    r = rng.random()
    if r < 0.45:
        return None
    edges = [abs(Fraction(b) - Fraction(a)) for a, b in zip(geo["p1"], geo["p2"])]
    e = max(edges)
    k = 0
    while Fraction(1000) ** (k + 1) <= e:
        k += 1
    while Fraction(1000) ** k > e:
        k -= 1
    if regime == "exact":
        if r < 0.8:
            m = rng.choice([1, scale])
            return rng.choice([repr(float(m)), f"int:{m}"])
        return rng.choice(["1e-08", "10.0", "0.5", "2.0", "1e-09", "1000.0", "1e-06"])
    if r < 0.9:
        kk = max(-8, min(8, k + rng.choice([0, 0, 0, -1, 1])))
        return repr(float(Fraction(1000) ** kk))
    return rng.choice(["1e-08", "10.0", "3e-09", "1e+27", "1e-27"])


def gen_aux(rng, regime, n, kind):
    """auxiliary (filter / colour / lightness) field spec"""
    r = rng.random()
    if r < 0.5:
        an = list(n)
    else:
        for _ in range(50):
            an = [rng.randint(1, 8), rng.randint(1, 8)]
            if all(tie_free(a, b) for a, b in zip(an, n)):
                break
        else:
            an = list(n)
        if regime == "exact" and rng.random() < 0.3:
            # nearest-neighbour ties with exactly representable (dyadic) source cells: 2x / 4x refinement
            k = rng.randrange(2)
            an[k] = n[k] * rng.choice([2, 4])
    bad = None
    if rng.random() < 0.06:
        bad = rng.choice(["nvdim2", "ndim3", "ndim1"])
    return dict(n=an, bad=bad, zd=rng.choice([0.0, 0.2, 0.4, 0.7]), kind=kind)


def gen_vector_meta(rng, nvdim, dims):
    """labels, mapping (list of [label, dim-or-None]) or None for the defaults"""
    d = dims or ["x", "y"]
    labels = rng.sample(LABELS, nvdim) if rng.random() < 0.5 else None
    lab = labels or (["x", "y", "z"][:nvdim] if nvdim <= 3 else [f"v{i}" for i in range(nvdim)])
    r = rng.random()
    if nvdim == 1:
        return labels, None
    third = next(x for x in DIMS if x not in d)
    if r < 0.25:
        vmap = None  # default: identity for nvdim == 2 on a 2-d mesh, empty otherwise
    elif r < 0.85:
        targets = list(d) + [third] * (nvdim - 2)
        rng.shuffle(targets)
        vmap = [[l, t] for l, t in zip(lab, targets)]
    elif r < 0.95:
        targets = [d[rng.randrange(2)]] + [None] * (nvdim - 1)  # partial mapping
        rng.shuffle(targets)
        vmap = [[l, t] for l, t in zip(lab, targets)]
    else:
        targets = [d[0]] * 2 + [d[1]] * (nvdim - 2) if nvdim > 2 else [d[0], d[0]]  # two labels on one axis
        vmap = [[l, t] for l, t in zip(lab, targets)]
    return labels, vmap


def gen_case(rng, tier, kind=None, regime=None):
    regime = regime or rng.choice(["exact", "exact", "tol"])
    kind = kind or rng.choice(["scalar", "scalar", "vector", "vector", "vector", "contour", "lightness", "lightness", "default", "default"])
    nmax = 6 if tier == "quick" else 9
    geo, scale = gen_geometry(rng, regime, nmax, min_n=2 if (kind == "contour" and rng.random() < 0.9) else 1)
    if kind in ("scalar", "contour"):
        nvdim = 1 if rng.random() < 0.93 else rng.choice([2, 3])
    elif kind == "vector":
        nvdim = rng.choice([2, 2, 3, 3, 3, 3, 1, 4]) if rng.random() < 0.2 else rng.choice([2, 3, 3])
    elif kind == "lightness":
        nvdim = rng.choice([1, 1, 2, 3, 3]) if rng.random() < 0.95 else 4
    else:
        nvdim = rng.choice([1, 2, 3, 3]) if rng.random() < 0.95 else 4
    labels, vmap = gen_vector_meta(rng, nvdim, geo["dims"])
    c = dict(kind=kind, regime=regime, mesh=geo, nvdim=nvdim, labels=labels, vmap=vmap,
             density=rng.choice([1.0, 1.0, 0.9, 0.7, 0.5, 0.0]) if rng.random() < 0.97 else 0.0,
             mult=gen_mult(rng, regime, scale, geo), filter=None, aux=None, vdims_arg=None, use_color=True, clim=None,
             ax=rng.choice(["rec", "rec", "none"]), colorbar=rng.random() < 0.3, colorwheel=rng.random() < 0.04,
             path="direct", sub=rng.getrandbits(32))
    if kind == "contour":
        c["ax"] = "rec"
    if kind in ("scalar", "contour", "lightness", "default") and rng.random() < 0.5:
        c["filter"] = gen_aux(rng, regime, geo["n"], "filter")
    if kind == "vector":
        lab = labels or (["x", "y", "z"][:nvdim] if nvdim <= 3 else [f"v{i}" for i in range(nvdim)])
        r = rng.random()
        if r < 0.3:
            c["vdims_arg"] = rng.sample(lab, 2) if nvdim >= 2 else [lab[0], None]
        elif r < 0.4:
            k = rng.randrange(2)
            c["vdims_arg"] = [rng.choice(lab) if i == k else None for i in range(2)]
        elif r < 0.47:
            c["vdims_arg"] = rng.choice([[None, None], [lab[0]], [lab[0], lab[-1], lab[0]], [lab[0], "nope"], ["", lab[0]], ["", ""]])
        c["use_color"] = rng.random() < 0.7
        if rng.random() < 0.35:
            c["aux"] = gen_aux(rng, regime, geo["n"], "colour")
    if kind == "lightness":
        if rng.random() < 0.4:
            c["aux"] = gen_aux(rng, regime, geo["n"], "light")
        elif nvdim == 1 and rng.random() < 0.15:
            c["aux"] = "self"
        if rng.random() < 0.25:
            c["clim"] = rng.choice([[0, 0.5], [0.25, 1], [0.5, 0.5]])
    if kind == "default" and rng.random() < 0.3:
        c["use_color"] = True
    elif kind == "default":
        c["use_color"] = False
    if rng.random() < 0.25 and nvdim in (1, 2, 3):
        # the field is a plane of a 3-d field
        c["path"] = "sel"
        d = geo["dims"] or ["x", "y"]
        c["sel"] = dict(dim=next(x for x in DIMS if x not in d), pos=rng.randrange(3), n3=rng.randint(1, 3), k=rng.randrange(3),
                        how=rng.choice(["plain", "coord"]))
    return c


def refusal_cases(rng):
    """the refusal sentence of the property, one case per class and plot kind"""
    for kind in ("scalar", "vector", "contour", "lightness", "default"):
        for nd in (1, 3):
            yield dict(kind=kind, regime="exact", refusal=f"ndim{nd}", nvdim=rng.choice([1, 3]) if kind != "scalar" else 1, sub=rng.getrandbits(32))
    for kind, nv in (("scalar", 2), ("scalar", 3), ("contour", 2), ("contour", 3), ("default", 4), ("lightness", 4), ("lightness", 5),
                     ("vector", 1)):
        c = gen_case(rng, "quick", kind=kind, regime="exact")
        c.update(nvdim=nv, filter=None, aux=None, vdims_arg=None, path="direct", mult=None, refusal=f"{kind}-nvdim{nv}")
        c["labels"], c["vmap"] = (None, None) if nv == 1 else gen_vector_meta(rng, nv, c["mesh"]["dims"])
        yield c


def gen_session(rng, tier):
    """a history of `field.mpl(...)` calls that share keyword-dictionary OBJECTS (scalar_kw / vector_kw) and a mesh"""
    regime = rng.choice(["exact", "exact", "tol"])
    geo, scale = gen_geometry(rng, regime, 5)
    d = geo["dims"] or ["x", "y"]
    third = next(x for x in DIMS if x not in d)
    fields = []
    for _ in range(rng.randint(1, 3)):
        nv = rng.choice([1, 1, 2, 3, 3])
        labels = rng.sample(LABELS, nv) if (nv > 1 and rng.random() < 0.5) else None
        lab = labels or default_labels(nv)
        vmap = None
        if nv > 1 and rng.random() < 0.9:
            targets = list(d) + [third] * (nv - 2)
            rng.shuffle(targets)
            vmap = [[l, t] for l, t in zip(lab, targets)]
        fields.append(dict(nvdim=nv, labels=labels, vmap=vmap, density=rng.choice([1.0, 0.8, 0.6, 0.4]), sub=rng.getrandbits(32)))
    dicts = []
    for _ in range(rng.randint(0, 2)):  # scalar_kw objects
        dd = dict(role="s", filter=None, colorbar=rng.choice([None, False, False]))
        if rng.random() < 0.5:
            dd["filter"] = gen_aux(rng, regime, geo["n"], "filter")
            dd["filter"]["bad"] = None
        dicts.append(dd)
    for _ in range(rng.randint(0, 2)):  # vector_kw objects
        dd = dict(role="v", use_color=rng.choice([None, None, True, False]), color_field=None)
        if rng.random() < 0.3:
            dd["color_field"] = gen_aux(rng, regime, geo["n"], "colour")
            dd["color_field"]["bad"] = None
            dd["use_color"] = True
        dicts.append(dd)
    si = [k for k, dd in enumerate(dicts) if dd["role"] == "s"]
    vi = [k for k, dd in enumerate(dicts) if dd["role"] == "v"]
    reqs = []
    for _ in range(rng.randint(2, 4)):
        reqs.append(dict(field=rng.randrange(len(fields)), mult=gen_mult(rng, regime, scale, geo) if rng.random() < 0.5 else None,
                         skw=rng.choice(si + [None]) if si else None, vkw=rng.choice(vi + [None]) if vi else None))
    return dict(kind="session", regime=regime, mesh=geo, fields=fields, dicts=dicts, reqs=reqs, sub=rng.getrandbits(32))


def gen_dsession(rng, tier):
    """a history of DIRECT method calls (mpl.scalar / contour / vector / lightness / mpl()) on 1-3 fields of one mesh that
    SHARE field objects: the same filter / colour / lightness field object is handed to several calls, the same field is
    plotted several times by different methods"""
    regime = rng.choice(["exact", "exact", "tol"])
    geo, scale = gen_geometry(rng, regime, 5, min_n=2 if rng.random() < 0.8 else 1)
    d = geo["dims"] or ["x", "y"]
    third = next(x for x in DIMS if x not in d)
    fields = []
    # "plain" sessions: the SAME method with default arguments on several fields of equal shape but different values and
    # validity -- anything a direct call keeps from one field for the next one shows up there
    plain = rng.random() < 0.3
    nv_plain = rng.choice([1, 1, 2, 3, 3])
    for _ in range(rng.randint(2, 3) if plain else rng.randint(1, 3)):
        nv = nv_plain if plain else rng.choice([1, 1, 2, 3, 3])
        labels = rng.sample(LABELS, nv) if (nv > 1 and rng.random() < 0.5) else None
        lab = labels or default_labels(nv)
        vmap = None
        if nv > 1 and (plain or rng.random() < 0.9):
            targets = list(d) + [third] * (nv - 2)
            rng.shuffle(targets)
            vmap = [[l, t] for l, t in zip(lab, targets)]
        fields.append(dict(nvdim=nv, labels=labels, vmap=vmap, density=rng.choice([1.0, 0.8, 0.6, 0.4]) if not plain else rng.choice([0.7, 0.5, 0.3]),
                           sub=rng.getrandbits(32)))
    if plain:
        kind = rng.choice({1: ["scalar", "scalar", "contour", "lightness"], 2: ["vector", "lightness"], 3: ["vector", "lightness", "vector"]}[nv_plain])
        order = list(range(len(fields))) + [rng.randrange(len(fields))]
        reqs = [dict(kind=kind, field=fi, mult=None, filter=None, aux=None, vdims_arg=None, use_color=True, clim=None) for fi in order]
        return dict(kind="dsession", regime=regime, mesh=geo, fields=fields, auxs=[], reqs=reqs, plain=True, sub=rng.getrandbits(32))
    auxs = []
    for _ in range(rng.randint(0, 2)):
        a = gen_aux(rng, regime, geo["n"], rng.choice(["filter", "colour"]))
        a["bad"] = None
        auxs.append(a)
    nf = len(fields)
    aux_ids = [nf + k for k in range(len(auxs))] + [k for k, fs in enumerate(fields) if fs["nvdim"] == 1]
    reqs = []
    for _ in range(rng.randint(2, 4)):
        fi = rng.randrange(nf)
        nv = fields[fi]["nvdim"]
        if rng.random() < 0.9:
            kind = rng.choice({1: ["scalar", "contour", "lightness", "default"], 2: ["vector", "lightness", "default"],
                               3: ["vector", "lightness", "default"]}[nv])
        else:
            kind = rng.choice(["scalar", "contour", "vector", "lightness", "default"])
        rq = dict(kind=kind, field=fi, mult=gen_mult(rng, regime, scale, geo) if rng.random() < 0.4 else None, filter=None, aux=None,
                  vdims_arg=None, use_color=rng.random() < 0.6, clim=None)
        if aux_ids and kind in ("scalar", "contour", "lightness", "default") and rng.random() < 0.5:
            rq["filter"] = rng.choice(aux_ids)
        if aux_ids and kind in ("vector", "lightness", "default") and rng.random() < 0.45:
            rq["aux"] = rng.choice(aux_ids)
        if kind == "default" and rq["aux"] is not None:
            rq["use_color"] = True
        if kind == "lightness" and rng.random() < 0.2:
            rq["clim"] = rng.choice([[0, 0.5], [0.25, 1]])
        reqs.append(rq)
    return dict(kind="dsession", regime=regime, mesh=geo, fields=fields, auxs=auxs, reqs=reqs, sub=rng.getrandbits(32))


def cases(rng, tier):
    yield dict(kind="table", sub=rng.getrandbits(32))
    yield from refusal_cases(rng)
    for _ in range(150 if tier == "quick" else 600):
        yield gen_session(rng, tier)
    for _ in range(110 if tier == "quick" else 500):
        yield gen_dsession(rng, tier)
    # (the former defects D91-D93 have one deterministic regression witness each in harness/corpus/C20, run first)
    n = 1400 if tier == "quick" else 7000
    for _ in range(n):
        yield gen_case(rng, tier)


# ------------------------------------------------------------------------------- building inputs
def default_labels(nvdim):
    if nvdim == 1:
        return None
    return ["x", "y", "z"][:nvdim] if nvdim <= 3 else [f"v{i}" for i in range(nvdim)]


def gen_values(rng, regime, shape, pyth=False):
    size = int(np.prod(shape[:-1]))
    nv = shape[-1]
    if pyth and nv == 2:
        rows = []
        for _ in range(size):
            a, b = rng.choice(PYTH)
            rows.append([a * rng.choice([-1, 1]), b * rng.choice([-1, 1])])
        return np.array(rows, dtype=float).reshape(shape)
    if regime == "exact":
        return np.array([rng.randint(-9, 9) for _ in range(size * nv)], dtype=float).reshape(shape)
    mag = rng.choice([1.0, 1.0, 1e-7, 8.6e5])
    return np.array([rng.uniform(-1, 1) * mag if rng.random() < 0.9 else 0.0 for _ in range(size * nv)], dtype=float).reshape(shape)


def build_field(case, rng):
    """the 2-d field that is plotted (built directly or as a plane of a 3-d field)"""
    g = case["mesh"]
    nv = case["nvdim"]
    kw = {}
    if g.get("dims"):
        kw["dims"] = g["dims"]
    if g.get("units"):
        kw["units"] = g["units"]
    pyth = case["kind"] == "lightness" and nv == 2 and case.get("aux") is None
    fkw = {}
    if case.get("labels"):
        fkw["vdims"] = case["labels"]
    if case.get("vmap") is not None:
        fkw["vdim_mapping"] = {l: t for l, t in case["vmap"]}
    n = g["n"]
    if case.get("path") == "sel":
        s = case["sel"]
        pos = s["pos"]
        d2 = g.get("dims") or ["x", "y"]
        u2 = g.get("units") or ["m", "m"]
        dims3 = d2[:pos] + [s["dim"]] + d2[pos:]
        units3 = u2[:pos] + ["m"] + u2[pos:]
        lo3, hi3 = -1.0, -1.0 + 0.5 * s["n3"]
        p1 = list(g["p1"][:pos]) + [lo3] + list(g["p1"][pos:])
        p2 = list(g["p2"][:pos]) + [hi3] + list(g["p2"][pos:])
        n3 = list(n[:pos]) + [s["n3"]] + list(n[pos:])
        mesh3 = df.Mesh(region=df.Region(p1=p1, p2=p2, dims=dims3, units=units3), n=n3)
        arr = gen_values(rng, case["regime"], (*n3, nv), pyth)
        mask = np.array([rng.random() < case["density"] for _ in range(int(np.prod(n3)))], dtype=bool).reshape(n3)
        f3 = df.Field(mesh3, nvdim=nv, value=arr, valid=mask, unit=rng.choice([None, "A/m"]), **fkw)
        if s["how"] == "plain":
            return f3.sel(s["dim"])
        k = s["k"] % s["n3"]
        return f3.sel(**{s["dim"]: lo3 + 0.5 * k + 0.25})
    mesh = df.Mesh(region=df.Region(p1=g["p1"], p2=g["p2"], **kw), n=n)
    arr = gen_values(rng, case["regime"], (*n, nv), pyth)
    mask = np.array([rng.random() < case["density"] for _ in range(n[0] * n[1])], dtype=bool).reshape(n)
    return df.Field(mesh, nvdim=nv, value=arr, valid=mask, unit=rng.choice([None, "A/m"]), **fkw)


def build_aux(spec, f, rng, regime):
    """auxiliary scalar field on the region of `f` (filter: many zeros; others: plain values)"""
    region = f.mesh.region
    n = spec["n"]
    if spec.get("bad") == "ndim3":
        m = df.Mesh(p1=(*region.pmin, 0.0), p2=(*region.pmax, 1.0), n=(*n, 1))
        return df.Field(m, nvdim=1, value=1.0)
    if spec.get("bad") == "ndim1":
        m = df.Mesh(p1=float(region.pmin[0]), p2=float(region.pmax[0]), n=n[0])
        return df.Field(m, nvdim=1, value=1.0)
    m = df.Mesh(region=region, n=n)
    nv = 2 if spec.get("bad") == "nvdim2" else 1
    if spec["kind"] == "filter":
        vals = np.array([0.0 if rng.random() < spec["zd"] else float(rng.choice([1, 1, 2, -1, 0.5])) for _ in range(n[0] * n[1] * nv)])
    elif regime == "exact":
        vals = np.array([float(rng.randint(-9, 9)) for _ in range(n[0] * n[1] * nv)])
    else:
        vals = np.array([rng.uniform(-3, 3) for _ in range(n[0] * n[1] * nv)])
    vals = vals.reshape(*n, nv)
    mask = np.array([rng.random() < 0.8 for _ in range(n[0] * n[1])], dtype=bool).reshape(n)
    return df.Field(m, nvdim=nv, value=vals, valid=mask)


def snapshot(f):
    r = f.mesh.region
    return dict(array=f.array.copy(), valid=f.valid.copy(), pmin=r.pmin.copy(), pmax=r.pmax.copy(), dims=tuple(r.dims), units=tuple(r.units),
                n=tuple(int(k) for k in f.mesh.n), bc=f.mesh.bc, subs=sorted((k, tuple(v.pmin), tuple(v.pmax)) for k, v in f.mesh.subregions.items()),
                vdims=None if f.vdims is None else tuple(f.vdims), vmap=dict(f.vdim_mapping), unit=f.unit, nvdim=f.nvdim, dtype=str(f.array.dtype),
                vdtype=str(f.valid.dtype))


def same_snapshot(a, b):
    for k in a:
        if isinstance(a[k], np.ndarray):
            if a[k].shape != b[k].shape or not np.array_equal(a[k], b[k], equal_nan=(a[k].dtype.kind == "f")):
                return k
        elif a[k] != b[k]:
            return k
    return None


# ------------------------------------------------------------------------------- reading the artists
def read_axes(ax):
    """canonical observables of one Axes after plotting"""
    out = dict(images=[], quivers=[], labels=[ax.get_xlabel(), ax.get_ylabel()])
    for im in ax.get_children():
        if isinstance(im, AxesImage):
            a = im.get_array()
            mask = np.ma.getmaskarray(a)
            data = np.ma.getdata(a).astype(float)
            origin = im.origin
            if origin == "upper":  # same picture as the row-flipped image with origin="lower" (imshow contract): canonicalise
                data, mask, origin = data[::-1], mask[::-1], "lower"
            out["images"].append(dict(shape=list(data.shape), data=data, mask=mask, extent=[float(x) for x in im.get_extent()], origin=origin,
                                      origin_raw=im.origin))
        elif isinstance(im, Quiver):
            c = im.get_array()
            out["quivers"].append(dict(X=np.asarray(im.X, dtype=float), Y=np.asarray(im.Y, dtype=float), U=np.asarray(im.U, dtype=float),
                                       V=np.asarray(im.V, dtype=float),
                                       mask=(np.zeros(im.N, dtype=bool) if im.Umask is np.ma.nomask else np.asarray(im.Umask, dtype=bool)),
                                       C=None if c is None else np.ma.getdata(c).astype(float), pivot=im.pivot))
    return out


_PROCESS_PRELUDE_DONE = False


def process_prelude():
    """once per process, before the first observed plot: every plot kind is called the plain way on a small field
    with a checkerboard validity and sign-changing values.  State that a first call leaves behind for later calls
    (defaults captured at class or module level) then comes from a field that hides cells, whatever case runs first."""
    global _PROCESS_PRELUDE_DONE
    if _PROCESS_PRELUDE_DONE:
        return
    _PROCESS_PRELUDE_DONE = True
    try:
        m = df.Mesh(p1=(-1.5, 0.25), p2=(1.5, 2.25), n=(3, 2))
        chk = np.array([[True, False], [False, True], [True, False]])
        for nv in (1, 2, 3):
            val = np.arange(1, 6 * nv + 1, dtype=float).reshape(3, 2, nv) - 3.5
            g = df.Field(m, nvdim=nv, value=val, valid=chk)
            for call in (lambda: g.mpl(), lambda: g.mpl.scalar() if nv == 1 else g.mpl.vector(),
                         lambda: g.mpl.lightness(), lambda: g.mpl.contour() if nv == 1 else None):
                try:
                    call()
                except Exception:  # noqa: BLE001
                    pass
                finally:
                    plt.close("all")
    except Exception:  # noqa: BLE001
        pass


def prelude(f, case):
    """history before the observed call: the same kind of plot was made before, by the plain call with default
    arguments, for ANOTHER field on the same mesh (other values, complementary validity).  Plots are independent of
    one another, so this must not change anything that is observed afterwards."""
    try:
        g = df.Field(f.mesh, nvdim=f.nvdim, value=(np.flip(f.array, axis=0) * 0.5 + 1.0).copy(), valid=~f.valid,
                     vdims=f.vdims, vdim_mapping=f.vdim_mapping, unit=f.unit)
        kind = case["kind"]
        if kind == "default":
            g.mpl()
        elif kind == "scalar":
            g.mpl.scalar()
        elif kind == "contour":
            g.mpl.contour()
        elif kind == "vector":
            g.mpl.vector()
        elif kind == "lightness":
            g.mpl.lightness()
    except Exception:  # noqa: BLE001  (the plain call may not apply to this field: that is not what is observed here)
        pass
    finally:
        plt.close("all")


def call_plot(f, case, flt, aux, ax):
    kind = case["kind"]
    m = mult_value(case.get("mult"))
    kw = dict(ax=ax, multiplier=m)
    if kind == "scalar":
        f.mpl.scalar(filter_field=flt, colorbar=case.get("colorbar", False), **kw)
    elif kind == "contour":
        f.mpl.contour(filter_field=flt, colorbar=case.get("colorbar", False), **kw)
    elif kind == "vector":
        f.mpl.vector(vdims=case.get("vdims_arg"), use_color=case.get("use_color", True), color_field=aux,
                     colorbar=case.get("colorbar", False), **kw)
    elif kind == "lightness":
        f.mpl.lightness(filter_field=flt, lightness_field=aux, clim=case.get("clim"), colorwheel=case.get("colorwheel", False), **kw)
    elif kind == "default":
        skw = dict(colorbar=case.get("colorbar", False))
        if flt is not None:
            skw["filter_field"] = flt
        vkw = dict(use_color=True, colorbar=False) if case.get("use_color") else {}
        if aux is not None:
            vkw["color_field"] = aux
        f.mpl(scalar_kw=skw, vector_kw=vkw, **kw)
    else:
        raise core.MachineryError(f"unknown kind {kind}")


# ------------------------------------------------------------------------------- oracle on the real code
def prefix_of_label(label, dim, unit):
    """'<dim> (<prefix><unit>)' -> prefix, or None if the label does not have that form"""
    head = f"{dim} ("
    if not (label.startswith(head) and label.endswith(f"{unit})")):
        return None
    return label[len(head):len(label) - len(unit) - 1]


def frac_cell_lookup(lo, hi, n, x):
    """index of the cell of [lo, hi] split into n cells that contains x (exact Fractions), and whether x sits on a face"""
    c = (hi - lo) / n
    q = (x - lo) / c
    k = min(max(math.floor(q), 0), n - 1)
    return k, q == math.floor(q)


def aux_value_at(aux, f, i, j):
    """value of the auxiliary scalar field at the centre of cell (i, j) of f (same region): (value, on_face)"""
    r = f.mesh.region
    lo = [Fraction(float(x)) for x in r.pmin]
    hi = [Fraction(float(x)) for x in r.pmax]
    n = [int(k) for k in f.mesh.n]
    an = [int(k) for k in aux.mesh.n]
    idx, face = [], False
    for a, k in zip(range(2), (i, j)):
        # centre of cell k of n cells, in units of the edge: (2k+1)/(2n) -- position in the aux grid is exact and scale free
        q = Fraction((2 * k + 1) * an[a], 2 * n[a])
        kk = min(max(math.floor(q), 0), an[a] - 1)
        face = face or (q == math.floor(q))
        idx.append(kk)
    return float(aux.array[idx[0], idx[1], 0]), face


def oracle(case, f, flt, aux, res, used_mult, fail):
    """property-level checks on the implementation's own artists (no model involved)"""
    kind = case["kind"]
    r = f.mesh.region
    n = [int(k) for k in f.mesh.n]
    m = used_mult  # Fraction: the decimal multiplier the labels announce
    pmin = [Fraction(float(x)) for x in r.pmin]
    pmax = [Fraction(float(x)) for x in r.pmax]
    scale = max(abs(x) for x in pmin + pmax) / m
    tol = COORD_REL * scale
    valid = np.asarray(f.valid, dtype=bool)

    def hidden(i, j, use_filter=True):
        """(must be hidden, undecided) for cell (i, j) according to the property"""
        if not valid[i, j]:
            return True, False
        if use_filter and flt is not None:
            v, face = aux_value_at(flt, f, i, j)
            if face:
                return False, True
            return v == 0, False
        return False, False

    def check_extent(ext, what):
        exp = [pmin[0] / m, pmax[0] / m, pmin[1] / m, pmax[1] / m]
        for k, (a, b) in enumerate(zip(ext, exp)):
            if abs(Fraction(float(a)) - b) > tol:
                fail(f"{what}: extent[{k}] = {a!r} but the region spans {float(b)!r} in units of the multiplier {float(m)!r}")
                return False
        return True

    def pixel_of(ext, shape, i, j):
        """row, column of the pixel that covers the centre of cell (i, j), through the extent the code set"""
        x0, x1, y0, y1 = [Fraction(float(x)) for x in ext]
        R, C = shape[0], shape[1]
        cx = (pmin[0] + (pmax[0] - pmin[0]) * Fraction(2 * i + 1, 2 * n[0])) / m
        cy = (pmin[1] + (pmax[1] - pmin[1]) * Fraction(2 * j + 1, 2 * n[1])) / m
        col = math.floor((cx - x0) / ((x1 - x0) / C))
        row = math.floor((cy - y0) / ((y1 - y0) / R))
        return row, col

    def centres_ok(X, Y, what):
        for a, (P, k) in enumerate(((X, n[0]), (Y, n[1]))):
            if len(P) != k:
                fail(f"{what}: {len(P)} positions along axis {a} for {k} cells")
                return False
            for c in range(k):
                exp = (pmin[a] + (pmax[a] - pmin[a]) * Fraction(2 * c + 1, 2 * k)) / m
                if abs(Fraction(float(P[c])) - exp) > tol:
                    fail(f"{what}: position {c} along axis {a} is {P[c]!r}, the cell centre / multiplier is {float(exp)!r}")
                    return False
        return True

    if kind in ("scalar", "default") and res["images"] and (kind == "scalar" or f.nvdim in (1, 3)):
        im = res["images"][0]
        comp = 0
        comp_known = True
        if f.nvdim == 3:
            vd = inplane_labels(f)
            left = [l for l in f.vdims if l not in vd]
            comp_known = len(left) == 1
            comp = list(f.vdims).index(left[0]) if comp_known else 0
        if im["origin"] != "lower":
            fail(f"scalar image origin is {im['origin']!r}")
        elif im["shape"][:2] != [n[1], n[0]]:
            fail(f"scalar image has shape {im['shape']} for a mesh with n={n}")
        elif check_extent(im["extent"], "scalar image") and comp_known:
            for i in range(n[0]):
                for j in range(n[1]):
                    row, col = pixel_of(im["extent"], im["shape"], i, j)
                    if not (0 <= row < n[1] and 0 <= col < n[0]):
                        fail(f"centre of cell ({i},{j}) falls outside the image")
                        return
                    hid, und = hidden(i, j)
                    if und:
                        continue
                    px = None if (im["mask"][row, col] or math.isnan(im["data"][row, col])) else im["data"][row, col]
                    if hid and px is not None:
                        fail(f"{kind} plot: cell ({i},{j}) is {'invalid' if not valid[i, j] else 'zero in the filter field'} but value {px!r} is drawn at its position")
                        return
                    if not hid and (px is None or px != f.array[i, j, comp]):
                        fail(f"{kind} plot: the pixel covering the centre of cell ({i},{j}) shows {px!r}, the field value there is {f.array[i, j, comp]!r}")
                        return
    if kind in ("vector", "default") and res["quivers"]:
        q = res["quivers"][0]
        N = n[0] * n[1]
        if len(q["X"]) != N:
            fail(f"{len(q['X'])} arrows for {N} cells")
            return
        if case.get("vdims_arg") is not None and kind == "vector":
            vd = list(case["vdims_arg"])
        else:
            vd = inplane_labels(f)
        unknown = [l for l in vd if l and l not in list(f.vdims or [])]
        if unknown:
            fail(f"vector plot drew arrows for the label {unknown[0]!r}, which is not a component label of the field ({f.vdims})")
            return
        comps = [list(f.vdims).index(l) if l else None for l in vd]
        seen = set()
        for k in range(N):
            # which cell does this arrow sit in?
            cell = []
            for a, P in ((0, q["X"]), (1, q["Y"])):
                x = Fraction(float(P[k])) * m
                idx, _ = frac_cell_lookup(pmin[a], pmax[a], n[a], x)
                exp = (pmin[a] + (pmax[a] - pmin[a]) * Fraction(2 * idx + 1, 2 * n[a])) / m
                if abs(Fraction(float(P[k])) - exp) > tol:
                    fail(f"arrow {k} sits at {float(q['X'][k])!r}, {float(q['Y'][k])!r}: not a cell centre divided by the multiplier {float(m)!r}")
                    return
                cell.append(idx)
            i, j = cell
            seen.add((i, j))
            if not valid[i, j]:
                if not q["mask"][k]:
                    fail(f"vector plot: invalid cell ({i},{j}) carries a drawn arrow")
                    return
                continue
            if q["mask"][k]:
                fail(f"vector plot: valid cell ({i},{j}) has no arrow")
                return
            for nm, arr, c in (("x", q["U"], comps[0]), ("y", q["V"], comps[1])):
                exp = 0.0 if c is None else f.array[i, j, c]
                if arr[k] != exp:
                    fail(f"vector plot: arrow {nm}-component at cell ({i},{j}) is {arr[k]!r}; component "
                         f"{'(none)' if c is None else f.vdims[c]} of the field there is {exp!r}")
                    return
            if q["C"] is not None and kind == "vector":
                if aux is not None:
                    v, face = aux_value_at(aux, f, i, j)
                    if not face and q["C"][k] != v:
                        fail(f"vector plot: colour at cell ({i},{j}) is {q['C'][k]!r}, the colour field there is {v!r}")
                        return
                elif f.nvdim == 3:
                    left = [l for l in f.vdims if l not in vd]
                    if len(left) == 1 and q["C"][k] != f.array[i, j, list(f.vdims).index(left[0])]:
                        fail(f"vector plot: colour at cell ({i},{j}) is {q['C'][k]!r}, the remaining component {left[0]} there is "
                             f"{f.array[i, j, list(f.vdims).index(left[0])]!r}")
                        return
        if len(seen) != N:
            fail(f"arrows cover {len(seen)} of {N} cells")
    if kind == "contour" and res.get("contours"):
        X, Y, Z = res["contours"][0]
        if centres_ok(X, Y, "contour"):
            if list(Z.shape) != [n[1], n[0]]:
                fail(f"contour Z has shape {list(Z.shape)} for n={n}")
            else:
                for i in range(n[0]):
                    for j in range(n[1]):
                        hid, und = hidden(i, j)
                        if und:
                            continue
                        z = None if math.isnan(Z[j, i]) else Z[j, i]
                        if hid and z is not None:
                            fail(f"contour plot: cell ({i},{j}) is {'invalid' if not valid[i, j] else 'zero in the filter field'} but Z there is {z!r}")
                            return
                        if not hid and (z is None or z != f.array[i, j, 0]):
                            fail(f"contour plot: Z at the centre of cell ({i},{j}) is {z!r}, the field value is {f.array[i, j, 0]!r}")
                            return
    if kind == "lightness" and res["images"]:
        im = res["images"][0]
        if im["origin"] != "lower":
            fail(f"lightness image origin is {im['origin']!r}")
        elif im["shape"] != [n[1], n[0], 4]:
            fail(f"lightness image has shape {im['shape']} for n={n}")
        elif check_extent(im["extent"], "lightness image"):
            hue = expected_hue(f)
            for i in range(n[0]):
                for j in range(n[1]):
                    row, col = pixel_of(im["extent"], im["shape"], i, j)
                    if not (0 <= row < n[1] and 0 <= col < n[0]):
                        fail(f"centre of cell ({i},{j}) falls outside the image")
                        return
                    hid, und = hidden(i, j)
                    if und:
                        continue
                    px = im["data"][row, col]
                    if hid and px[3] != 0:
                        fail(f"lightness plot: cell ({i},{j}) is {'invalid' if not valid[i, j] else 'zero in the filter field'} but is drawn opaque")
                        return
                    if not hid:
                        if px[3] != 1:
                            fail(f"lightness plot: cell ({i},{j}) should be drawn but has alpha {px[3]!r}")
                            return
                        if hue is not None and not (0 < px_lightness(px) < 1):
                            pass  # white / black carry no hue
                        elif hue is not None:
                            h = px_hue(px)
                            d = abs(h - hue[i][j]) % 1.0
                            if min(d, 1 - d) > 1e-6:
                                fail(f"lightness plot: hue at cell ({i},{j}) is {h!r}; the in-plane angle / 2pi of the field there is {hue[i][j]!r}")
                                return
    # labels
    for k, lab in enumerate(res["labels"]):
        pre = prefix_of_label(lab, r.dims[k], r.units[k])
        if pre is None or SI_BY_MULT.get(m) != pre:
            fail(f"axis {k} label is {lab!r}; expected '{r.dims[k]} ({SI_BY_MULT.get(m)}{r.units[k]})'")
            return


def inplane_labels(f):
    rmap = {}
    for l, t in f.vdim_mapping.items():
        rmap[t] = l
    return [rmap.get(d) for d in f.mesh.region.dims]


def expected_hue(f):
    """hue in [0,1) per cell according to the property (in-plane angle through the mapping); None when not determined"""
    n = [int(k) for k in f.mesh.n]
    if f.nvdim == 1:
        return [[(f.array[i, j, 0] / (2 * math.pi)) for j in range(n[1])] for i in range(n[0])]
    vd = inplane_labels(f)
    if None in vd or f.vdims is None:
        return None
    cx, cy = list(f.vdims).index(vd[0]), list(f.vdims).index(vd[1])
    out = []
    for i in range(n[0]):
        row = []
        for j in range(n[1]):
            a = math.atan2(f.array[i, j, cy], f.array[i, j, cx])
            if a < 0:
                a += 2 * math.pi
            row.append(a / (2 * math.pi))
        out.append(row)
    return out


def px_hue(px):
    return colorsys.rgb_to_hls(float(px[0]), float(px[1]), float(px[2]))[0]


def px_lightness(px):
    return colorsys.rgb_to_hls(float(px[0]), float(px[1]), float(px[2]))[1]


# ------------------------------------------------------------------------------- running the real code
def run_table(case):
    obs = {"oracle": [], "tags": ["kind:table"], "status": "ok"}
    fail = obs["oracle"].append
    tab = [(k, dec(v)) for k, v in uu.si_prefixes.items()]
    obs["table"] = [[k, Q(v)] for k, v in tab]
    if tab != [(p, Fraction(10) ** e) for p, e in SI]:
        fail(f"ubermagutil.si_prefixes is not the SI table: {list(uu.si_prefixes.items())}")
    for k, v in uu.si_prefixes.items():
        if uu.rsi_prefixes.get(v) != k:
            fail(f"rsi_prefixes[{v!r}] = {uu.rsi_prefixes.get(v)!r}, expected {k!r}")
    if len(uu.rsi_prefixes) != len(uu.si_prefixes):
        fail("rsi_prefixes is not the inverse of si_prefixes")
    rng = random.Random(case["sub"])
    vals = []
    for _ in range(300):
        e = rng.randint(-27, 29)
        vals.append(rng.uniform(1.01, 9.9) * 10.0 ** e * rng.choice([1, -1]))
    vals = [v for v in vals if clear_of_decades(abs(Fraction(v))) or abs(v) < 1e-25 or abs(v) > 1e28]
    vals += [0.0, 1.0, 1000.0, 1e6, 999.0, 5.0, -1.0, 1e9, 1e12, 999999.0]
    obs["mvals"] = [Q(v) for v in vals]
    obs["mres"] = [None if uu.si_multiplier(v) is None else Q(dec(uu.si_multiplier(v))) for v in vals]
    for v, mm in zip(vals, obs["mres"]):
        if mm is not None and v != 0 and not (1 <= abs(Fraction(v)) / F(mm) < 1000):
            fail(f"si_multiplier({v!r}) = {float(F(mm))!r}: value / multiplier is not in [1, 1000)")
    # the default multiplier of a region as a DECISION over every size 1e-30 .. 1e30: si_max_multiplier of two edge lengths
    # (theorems default_multiplier_iff / default_multiplier_ok_iff: found iff every edge lies in [1e-24, 1e27))
    pairs = []
    while len(pairs) < 160:
        e0 = rng.uniform(1.01, 9.9) * 10.0 ** rng.randint(-30, 30)
        e1 = e0 * rng.choice([1.0, rng.uniform(0.2, 5), 10.0 ** rng.randint(-6, 6) * rng.uniform(0.5, 2)])
        if all(clear_of_decades(Fraction(e)) or e < 1e-25 or e > 1e28 for e in (e0, e1)):
            pairs.append([e0, e1])
    obs["pairs"] = [[Q(a), Q(b)] for a, b in pairs]
    obs["pres"] = []
    for a, b in pairs:
        try:
            mm = uu.si_max_multiplier([a, b])
            obs["pres"].append(None if mm is None else Q(dec(mm)))
        except TypeError:
            obs["pres"].append(None)
        inside = all(Fraction(10) ** -24 <= Fraction(e) < Fraction(10) ** 27 for e in (a, b))
        if (obs["pres"][-1] is not None) != inside:
            fail(f"si_max_multiplier([{a!r}, {b!r}]) {'found ' + str(obs['pres'][-1]) if obs['pres'][-1] else 'found nothing'}; "
                 f"every edge in [1e-24, 1e27): {inside}")
        elif obs["pres"][-1] is not None:
            mq = F(obs["pres"][-1])
            if not (max(Fraction(a), Fraction(b)) / mq >= 1 and max(Fraction(a), Fraction(b)) / mq < 1000):
                fail(f"si_max_multiplier([{a!r}, {b!r}]) = {float(mq)!r}: the longest edge does not measure 1 .. 1000 units")
    return obs


def run_refusal_mesh(case):
    """plots of fields on 1-d / 3-d meshes"""
    obs = {"oracle": [], "tags": ["kind:" + case["kind"], "refusal:" + case["refusal"]], "status": None}
    nd = 1 if case["refusal"] == "ndim1" else 3
    nv = case["nvdim"]
    mesh = df.Mesh(p1=(0.0,) * nd, p2=(4.0, 6.0, 2.0)[:nd], n=(2, 3, 1)[:nd])
    kw = {}
    if nv == 3 and nd == 3:
        kw = {}
    f = df.Field(mesh, nvdim=nv, value=[1.0] * nv if nv > 1 else 1.0)
    obs["field"] = fieldio.field_json(f)
    try:
        case2 = dict(case, mult=None, colorbar=False, colorwheel=False, use_color=False)
        call_plot(f, case2, None, None, None)
        obs["status"] = "ok"
        obs["oracle"].append(f"{case['kind']} plot of a field on a {nd}-d mesh was not refused")
    except Exception as e:  # noqa: BLE001
        obs["status"] = "err"
        obs["exc"] = type(e).__name__
    finally:
        plt.close("all")
    return obs


def dict_state(dd):
    """what can be observed of a caller's dictionary: its keys and the identity of its values"""
    return sorted((k, id(v)) for k, v in dd.items())


def run_session(case):
    """a history of f.mpl(scalar_kw=<shared dict>, vector_kw=<shared dict>) calls"""
    rng = random.Random(case["sub"])
    obs = {"oracle": [], "tags": ["kind:session", f"regime:{case['regime']}", f"calls:{len(case['reqs'])}"], "status": "ok", "steps": []}
    fail = obs["oracle"].append
    fields = []
    for fs in case["fields"]:
        fc = dict(kind="default", regime=case["regime"], mesh=case["mesh"], nvdim=fs["nvdim"], labels=fs["labels"], vmap=fs["vmap"],
                  density=fs["density"], path="direct")
        try:
            fields.append(build_field(fc, random.Random(fs["sub"])))
        except Exception as e:  # noqa: BLE001
            obs["status"] = "skip"
            obs["tags"].append("build-rejected:" + type(e).__name__)
            return obs
    f0 = fields[0]
    dicts, dj, daux = [], [], []
    for dd in case["dicts"]:
        py, js, ax = {}, {}, {}
        if dd["role"] == "s":
            if dd.get("colorbar") is not None:
                py["colorbar"] = js["colorbar"] = dd["colorbar"]
            if dd.get("filter"):
                g = build_aux(dd["filter"], f0, rng, case["regime"])
                py["filter_field"] = g
                js["filter_field"] = fieldio.field_json(g)
                ax["filter"] = g
        else:
            if dd.get("use_color") is not None:
                py["use_color"] = js["use_color"] = dd["use_color"]
            if dd.get("color_field"):
                g = build_aux(dd["color_field"], f0, rng, case["regime"])
                py["color_field"] = g
                js["color_field"] = fieldio.field_json(g)
                ax["colour"] = g
        dicts.append(py)
        dj.append(js)
        daux.append(ax)
    obs["fields"] = [fieldio.field_json(f) for f in fields]
    obs["dicts"] = dj
    before = [dict_state(dd) for dd in dicts]
    snaps = [snapshot(f) for f in fields]
    snaps_aux = [(k, nm, g, snapshot(g)) for k, ax in enumerate(daux) for nm, g in ax.items()]
    try:
        for k, rq in enumerate(case["reqs"]):
            f = fields[rq["field"]]
            ax = new_rec_axes()
            step = dict(status=None, res=None, field=obs["fields"][rq["field"]])
            skw = None if rq["skw"] is None else dicts[rq["skw"]]
            vkw = None if rq["vkw"] is None else dicts[rq["vkw"]]
            try:
                f.mpl(ax=ax, multiplier=mult_value(rq.get("mult")), scalar_kw=skw, vector_kw=vkw)
                step["status"] = "ok"
            except Exception as e:  # noqa: BLE001
                step["status"] = "err"
                step["exc"] = type(e).__name__
            if step["status"] == "ok":
                res = read_axes(ax)
                res["rec"] = ax.rec
                step["res"] = res
                um = None
                pre = prefix_of_label(res["labels"][0], f.mesh.region.dims[0], f.mesh.region.units[0])
                for p, e in SI:
                    if p == pre:
                        um = Fraction(10) ** e
                if um is None:
                    fail(f"call {k}: x label {res['labels'][0]!r} does not announce an SI prefix")
                elif rq.get("mult") is not None and um != dec(mult_value(rq["mult"])):
                    fail(f"call {k}: labels announce multiplier {float(um)!r}, the call asked for {rq['mult']}")
                else:
                    step["used_mult"] = Q(um)
                    flt = None if rq["skw"] is None else daux[rq["skw"]].get("filter")
                    sub_fail = []
                    oracle(dict(kind="default", vdims_arg=None), f, flt, None, res, um, sub_fail.append)
                    for t in sub_fail:
                        fail(f"call {k} of the session (after {k} earlier mpl() calls): {t}")
            obs["steps"].append(step)
            plt.close("all")
        for f, sn in zip(fields, snaps):
            kk = same_snapshot(sn, snapshot(f))
            if kk is not None:
                fail(f"plotting modified the field: {kk} changed")
        for k, nm, g, sn in snaps_aux:
            kk = same_snapshot(sn, snapshot(g))
            if kk is not None:
                fail(f"plotting modified the {nm} field passed in a keyword dictionary: {kk} changed")
        obs["dict_keys_after"] = [sorted(dd.keys()) for dd in dicts]
        obs["dict_same_objects"] = [dict_state(dd) == b or sorted(dd.keys()) != [x for x, _ in b] for dd, b in zip(dicts, before)]
    finally:
        plt.close("all")
    nn = [int(k) for k in f0.mesh.n]
    obs["nontrivial"] = any(st["status"] == "ok" for st in obs["steps"]) and nn[0] * nn[1] >= 2
    return obs


def run_dsession(case):
    """a history of direct method calls that share field objects (plotted fields, filter / colour / lightness fields)"""
    rng = random.Random(case["sub"])
    obs = {"oracle": [], "tags": ["kind:dsession", f"regime:{case['regime']}", f"calls:{len(case['reqs'])}"], "status": "ok", "steps": []}
    fail = obs["oracle"].append
    objs = []
    for fs in case["fields"]:
        # 2-component fields carry Pythagorean vectors (their norm, the default lightness, is rational)
        fc = dict(kind="lightness" if fs["nvdim"] == 2 else "default", regime=case["regime"], mesh=case["mesh"], nvdim=fs["nvdim"],
                  labels=fs["labels"], vmap=fs["vmap"], density=fs["density"], path="direct", aux=None)
        try:
            objs.append(build_field(fc, random.Random(fs["sub"])))
        except Exception as e:  # noqa: BLE001
            obs["status"] = "skip"
            obs["tags"].append("build-rejected:" + type(e).__name__)
            return obs
    f0 = objs[0]
    for spec in case["auxs"]:
        objs.append(build_aux(spec, f0, rng, case["regime"]))
    obs["fields"] = [fieldio.field_json(g) for g in objs]
    snaps = [snapshot(g) for g in objs]
    shared = {}
    try:
        for k, rq in enumerate(case["reqs"]):
            f = objs[rq["field"]]
            flt = None if rq["filter"] is None else objs[rq["filter"]]
            aux = None if rq["aux"] is None else objs[rq["aux"]]
            for g in (rq["filter"], rq["aux"], rq["field"]):
                if g is not None:
                    shared[g] = shared.get(g, 0) + 1
            ax = new_rec_axes()
            c2 = dict(kind=rq["kind"], mult=rq.get("mult"), vdims_arg=rq.get("vdims_arg"), use_color=rq.get("use_color", True),
                      clim=rq.get("clim"), colorbar=False, colorwheel=False, filter={} if flt is not None else None)
            step = dict(status=None, res=None, field=obs["fields"][rq["field"]], kind=rq["kind"])
            try:
                call_plot(f, c2, flt, aux, ax)
                step["status"] = "ok"
            except Exception as e:  # noqa: BLE001
                step["status"] = "err"
                step["exc"] = type(e).__name__
            step["mpl_refused"] = ax.mpl_refused
            res = read_axes(ax)
            res["rec"] = ax.rec
            res["contours"] = [r[1] for r in ax.rec if r[0] == "contour"]
            step["res"] = res
            if step["status"] == "ok":
                um = None
                pre = prefix_of_label(res["labels"][0], f.mesh.region.dims[0], f.mesh.region.units[0])
                for p, e in SI:
                    if p == pre:
                        um = Fraction(10) ** e
                if um is None:
                    fail(f"call {k}: x label {res['labels'][0]!r} does not announce an SI prefix")
                elif rq.get("mult") is not None and um != dec(mult_value(rq["mult"])):
                    fail(f"call {k}: labels announce multiplier {float(um)!r}, the call asked for {rq['mult']}")
                else:
                    step["used_mult"] = Q(um)
                    sub_fail = []
                    oracle(c2, f, flt, aux if (aux is not None and aux is not f) else None, res, um, sub_fail.append)
                    for t in sub_fail:
                        fail(f"call {k} of the session ({rq['kind']}, after {k} earlier direct calls on shared fields): {t}")
            obs["steps"].append(step)
            plt.close("all")
        mutated = []
        for k, (g, sn) in enumerate(zip(objs, snaps)):
            after = snapshot(g)
            kk = same_snapshot(sn, after)
            if kk is not None:
                fail(f"plotting modified field {k} of the session ({'plotted' if k < len(case['fields']) else 'filter / colour / lightness'} field): {kk} changed")
            mutated += [f"f{k}.{key}" for key in ("array", "valid") if not np.array_equal(sn[key], after[key], equal_nan=(key == "array"))]
        obs["mutated"] = sorted(mutated)
    finally:
        plt.close("all")
    if any(v > 1 for v in shared.values()):
        obs["tags"].append("shared-field-object")
    if case.get("plain"):
        obs["tags"].append("plain-same-method-on-several-fields")
    nn = [int(k) for k in f0.mesh.n]
    obs["nontrivial"] = any(st["status"] == "ok" for st in obs["steps"]) and nn[0] * nn[1] >= 2
    return obs


def run_impl(case):
    process_prelude()
    if case["kind"] == "table":
        return run_table(case)
    if case["kind"] == "session":
        return run_session(case)
    if case["kind"] == "dsession":
        return run_dsession(case)
    if str(case.get("refusal", "")).startswith("ndim"):
        return run_refusal_mesh(case)
    rng = random.Random(case["sub"])
    obs = {"oracle": [], "tags": [f"kind:{case['kind']}", f"regime:{case['regime']}", f"nvdim:{case['nvdim']}", f"path:{case.get('path')}",
                                  f"ax:{case.get('ax')}"], "status": None}
    fail = obs["oracle"].append
    try:
        f = build_field(case, rng)
    except Exception as e:  # noqa: BLE001  (e.g. a mapping the Field constructor rejects)
        obs["status"] = "skip"
        obs["tags"].append("build-rejected:" + type(e).__name__)
        return obs
    flt = build_aux(case["filter"], f, rng, case["regime"]) if case.get("filter") else None
    if case.get("aux") == "self":
        aux = f
    else:
        aux = build_aux(case["aux"], f, rng, case["regime"]) if case.get("aux") else None
    obs["field"] = fieldio.field_json(f)
    obs["filter"] = fieldio.field_json(flt) if flt is not None else None
    obs["aux"] = fieldio.field_json(aux) if aux is not None else None
    obs["tags"].append("mult:" + ("default" if case.get("mult") is None else "explicit"))
    obs["tags"].append("filter:" + ("none" if flt is None else ("same-n" if list(flt.mesh.n) == list(f.mesh.n) else "other-n")
                                   + ("" if not case["filter"].get("bad") else ":" + case["filter"]["bad"])))
    if aux is not None:
        obs["tags"].append("aux:" + ("self" if aux is f else ("same-n" if list(aux.mesh.n) == list(f.mesh.n) else "other-n")))
    if f.nvdim > 1:
        obs["tags"].append("mapping:" + ("none" if not f.vdim_mapping else "set"))
    snap = snapshot(f)
    snaps_aux = [(nm, g, snapshot(g)) for nm, g in (("filter_field", flt), ("colour / lightness field", aux)) if g is not None and g is not f]
    if case["sub"] % 3 == 0:
        prelude(f, case)
        obs["tags"].append("history:plain-plot-of-another-field-before")
    ax = new_rec_axes() if case.get("ax") == "rec" else None
    exc = None
    try:
        call_plot(f, case, flt, aux, ax)
        obs["status"] = "ok"
    except Exception as e:  # noqa: BLE001
        obs["status"] = "err"
        obs["exc"] = type(e).__name__
        exc = e
    try:
        res = None
        if ax is None and obs["status"] == "ok":
            figs = [plt.figure(k) for k in plt.get_fignums()]
            axs = [a for fg in figs for a in fg.get_axes() if (a.images or any(isinstance(c, Quiver) for c in a.get_children()))
                   and not a.get_label().startswith("cb_")]
            main = [a for a in axs if a.get_xlabel()]
            if len(main) != 1:
                raise core.MachineryError(f"cannot identify the plot axes ({len(main)} candidates)")
            ax_used = main[0]
        else:
            ax_used = ax
        if ax_used is not None:
            res = read_axes(ax_used)
            if isinstance(ax_used, RecAxes):
                res["rec"] = ax_used.rec
                res["contours"] = [r[1] for r in ax_used.rec if r[0] == "contour"]
                obs["mpl_refused"] = ax_used.mpl_refused
        obs["res"] = res
        # ---- purity
        snap_after = snapshot(f)
        k = same_snapshot(snap, snap_after)
        if k is not None:
            fail(f"plotting modified the field: {k} changed")
        mutated = [f"field.{key}" for key in ("array", "valid") if not np.array_equal(snap[key], snap_after[key], equal_nan=(key == "array"))]
        for nm, g, s in snaps_aux:
            s_after = snapshot(g)
            ka = same_snapshot(s, s_after)
            if ka is not None:
                fail(f"plotting modified the {nm} passed in: {ka} changed")
            short = "filter" if nm == "filter_field" else "aux"
            mutated += [f"{short}.{key}" for key in ("array", "valid") if not np.array_equal(s[key], s_after[key], equal_nan=(key == "array"))]
        obs["mutated"] = sorted(mutated)
        # ---- refusals / successes the property pins
        expect = expectation(case, f, flt, aux)
        obs["expect"] = expect
        obs["tags"].append(f"expect:{expect}:{obs['status']}")
        if expect == "err" and obs["status"] == "ok":
            fail(f"{case['kind']} plot of a field with nvdim={f.nvdim}, mapping {dict(f.vdim_mapping)} was not refused")
        if expect == "ok" and obs["status"] == "err" and not obs.get("mpl_refused"):
            fail(f"{case['kind']} plot of a valid 2-d field (n={[int(k) for k in f.mesh.n]}, nvdim={f.nvdim}) raised {type(exc).__name__}: {str(exc)[:120]}")
        # ---- positional oracle
        if obs["status"] == "ok" and res is not None:
            um = None
            pre = prefix_of_label(res["labels"][0], f.mesh.region.dims[0], f.mesh.region.units[0])
            for p, e in SI:
                if p == pre:
                    um = Fraction(10) ** e
            if um is None:
                fail(f"x label {res['labels'][0]!r} does not announce an SI prefix")
            elif case.get("mult") is not None and um != dec(mult_value(case["mult"])):
                fail(f"labels announce multiplier {float(um)!r}, the call asked for {case['mult']}")
            else:
                obs["used_mult"] = Q(um)
            if obs.get("used_mult") and k is None:
                oracle(case, f, flt if flt is None or not case["filter"].get("bad") else None, aux if (aux is not None and aux is not f and not (case.get("aux") or {}).get("bad")) else None,
                       res, um, fail)
    finally:
        plt.close("all")
    nn = [int(k) for k in f.mesh.n]
    obs["nontrivial"] = obs["status"] == "ok" and nn[0] * nn[1] >= 2 and float(np.ptp(f.array)) > 0
    return obs


def expectation(case, f, flt, aux):
    """'err' / 'ok' where the property pins the outcome, None where it does not"""
    kind = case["kind"]
    nv = f.nvdim
    if kind in ("scalar", "contour") and nv != 1:
        return "err"
    if kind in ("default", "lightness") and nv > 3:
        return "err"
    if kind == "vector" and nv == 1 and f.vdims is None:
        return "err"
    if kind in ("vector",) and not f.vdim_mapping and case.get("vdims_arg") is None:
        return "err"
    # in-domain inputs must be plotted
    if case.get("mult") is not None and dec(mult_value(case["mult"])) not in SI_BY_MULT:
        return None
    if any(isinstance(s, dict) and s.get("bad") for s in (case.get("filter"), case.get("aux"))):
        return None
    if nv > 3 or (kind == "vector" and nv == 1):
        return None
    n = [int(k) for k in f.mesh.n]
    if kind == "contour" and min(n) < 2:
        return None  # matplotlib's own requirement
    if kind == "vector":
        va = case.get("vdims_arg")
        if va is not None:
            labs = list(f.vdims or [])
            if len(va) != 2 or not any(va) or any(l not in labs for l in va if l):
                return None
            if case.get("use_color") and aux is None and nv == 3 and len([l for l in labs if l not in va]) != 1:
                return None
        else:
            vd = inplane_labels(f)
            if not any(vd):
                return None
            if case.get("use_color") and aux is None and nv == 3 and None in vd:
                return None
        return "ok"
    if kind == "default":
        if nv >= 2:
            vd = inplane_labels(f)
            if not f.vdim_mapping or not any(vd):
                return None
            if nv == 3 and None in vd:
                return None
        return "ok"
    if kind == "lightness":
        if nv >= 2:
            vd = inplane_labels(f)
            if None in vd:
                return None
        return "ok"
    return "ok"


# ------------------------------------------------------------------------------- model side
def model_requests(case, obs):
    if case["kind"] == "table":
        return ([dict(op="si_table")] + [dict(op="si_multiplier", v=v) for v in obs["mvals"]]
                + [dict(op="si_max_multiplier", vs=p) for p in obs.get("pairs", [])])
    if case["kind"] == "session":
        if obs.get("status") == "skip" or "fields" not in obs:
            return []
        return [dict(op="session", fields=obs["fields"], dicts=obs["dicts"],
                     reqs=[dict(field=rq["field"], mult=(None if rq.get("mult") is None else Q(dec(mult_value(rq["mult"])))),
                                skw=rq["skw"], vkw=rq["vkw"]) for rq in case["reqs"]])]
    if case["kind"] == "dsession":
        if obs.get("status") == "skip" or "fields" not in obs:
            return []
        return [dict(op="hsession", fields=obs["fields"],
                     reqs=[dict(kind=rq["kind"], field=rq["field"], filter=rq["filter"], aux=rq["aux"],
                                mult=(None if rq.get("mult") is None else Q(dec(mult_value(rq["mult"])))),
                                vdims_arg=rq.get("vdims_arg"), use_color=bool(rq.get("use_color", True)),
                                clim=(None if rq.get("clim") is None else [Q(Fraction(x)) for x in rq["clim"]]))
                           for rq in case["reqs"]])]
    if obs.get("status") == "skip" or "field" not in obs:  # not built / adapter crashed (reported by core as a failure)
        return []
    if str(case.get("refusal", "")).startswith("ndim"):
        return [dict(op="plot", kind=case["kind"], field=obs["field"], use_color=False)]
    req = dict(op="plot", kind=case["kind"], field=obs["field"], mult=(None if case.get("mult") is None else Q(dec(mult_value(case["mult"])))),
               filter=obs.get("filter"), aux=obs.get("aux"), vdims_arg=case.get("vdims_arg"), use_color=bool(case.get("use_color", True)),
               clim=(None if case.get("clim") is None else [Q(Fraction(x)) for x in case["clim"]]))
    amb = case["nvdim"] == 3 and case["kind"] in ("vector", "default", "lightness")
    return [dict(req, pick=k) for k in range(3 if amb else 1)]


def img_eq(name, im, mj, dis):
    """AxesImage (scalar) vs model imshow call"""
    shape = mj["img"]["shape"]
    if im["shape"][:2] != shape:
        dis.append(f"{name}: image shape impl {im['shape']} vs model {shape}")
        return False
    if im["origin"] != mj["origin"]:
        dis.append(f"{name}: origin impl {im['origin']} vs model {mj['origin']}")
        return False
    return True


def coords_eq(name, impl, model, exact, scale, dis):
    if len(impl) != len(model):
        dis.append(f"{name}: {len(impl)} entries impl vs {len(model)} model")
        return False
    for k, (a, b) in enumerate(zip(impl, model)):
        fa, fb = Fraction(float(a)), F(b)
        ok = fa == fb if exact else abs(fa - fb) <= COORD_REL * scale
        if not ok:
            dis.append(f"{name}[{k}]: impl {float(a)!r} vs model {float(fb)!r}")
            return False
    return True


def masked_eq(name, data, mask, model_flat, dis):
    """impl array (+mask / NaN = not drawn) vs model flat list of rational-or-null, exact"""
    flat = np.asarray(data, dtype=float).reshape(-1)
    mflat = np.asarray(mask, dtype=bool).reshape(-1) if mask is not None else np.zeros(flat.shape, dtype=bool)
    if len(flat) != len(model_flat):
        dis.append(f"{name}: {len(flat)} entries impl vs {len(model_flat)} model")
        return False
    for k, (a, mk, b) in enumerate(zip(flat, mflat, model_flat)):
        ia = None if (mk or math.isnan(a)) else Fraction(float(a))
        ib = None if b is None else F(b)
        if ia != ib:
            dis.append(f"{name}: entry {k} impl {None if ia is None else float(ia)!r} vs model {None if ib is None else float(ib)!r}")
            return False
    return True


def hl_expected(tok):
    if tok is None:
        return (0.0, 0.0, 0.0, 0.0)
    if tok[0] == "val":
        h = float(F(tok[1])) / (2 * math.pi)
        l = float(F(tok[2]))
    else:
        a = math.atan2(float(F(tok[1])), float(F(tok[2])))
        if a < 0:
            a += 2 * math.pi
        h = a / (2 * math.pi)
        l = float(F(tok[3]))
    return (*colorsys.hls_to_rgb(h, l, 1.0), 1.0)


def compare_calls(case, obs, calls, model_mult=None):
    """one model answer (list of calls) against the implementation's artists; returns disagreements"""
    dis = []
    res = obs["res"]
    um = F(obs["used_mult"]) if obs.get("used_mult") else (F(model_mult) if model_mult else Fraction(1))
    if um <= 0:
        um = Fraction(1)
    exact = case["regime"] == "exact" and um == 1
    fj = obs["field"]["mesh"]["region"]
    scale = max(abs(F(x)) for x in fj["pmin"] + fj["pmax"]) / um
    mi = [c for c in calls if c["call"] in ("imshow", "imshow_hl")]
    mq = [c for c in calls if c["call"] == "quiver"]
    mc = [c for c in calls if c["call"] == "contour"]
    ml = [c for c in calls if c["call"] == "labels"]
    if len(res["images"]) != len(mi):
        dis.append(f"{len(res['images'])} images impl vs {len(mi)} model")
    if len(res["quivers"]) != len(mq):
        dis.append(f"{len(res['quivers'])} quiver artists impl vs {len(mq)} model")
    if "contours" in res and len(res["contours"]) != len(mc):
        dis.append(f"{len(res['contours'])} contour calls impl vs {len(mc)} model")
    if dis:
        return dis
    for im, mj in zip(res["images"], mi):
        if not img_eq("image", im, mj, dis):
            continue
        coords_eq("extent", im["extent"], mj["extent"], exact, scale, dis)
        if mj["call"] == "imshow":
            if len(im["shape"]) != 2:
                dis.append(f"image: impl has shape {im['shape']}, model hands a scalar image")
                continue
            masked_eq("image", im["data"], im["mask"], mj["img"]["data"], dis)
        else:
            if len(im["shape"]) != 3 or im["shape"][2] != 4:
                dis.append(f"lightness image: impl shape {im['shape']}")
                continue
            flat = im["data"].reshape(-1, 4)
            for k, (px, tok) in enumerate(zip(flat, mj["img"]["data"])):
                exp = hl_expected(tok)
                if any(abs(float(a) - b) > 1e-9 for a, b in zip(px, exp)):
                    dis.append(f"lightness image: pixel {k} impl {[float(x) for x in px]} vs hls_to_rgb of the model token {tok} = {list(exp)}")
                    break
    for q, mj in zip(res["quivers"], mq):
        n0, n1 = len(mj["X"]), len(mj["Y"])
        if len(q["X"]) != n0 * n1:
            dis.append(f"quiver: {len(q['X'])} arrows impl vs {n0}x{n1} model")
            continue
        if q["pivot"] != "middle":
            dis.append(f"quiver: pivot {q['pivot']!r}")
        # matplotlib's meshgrid: arrow r*n0 + c sits at (X[c], Y[r])
        coords_eq("quiver X", q["X"], [mj["X"][k % n0] for k in range(n0 * n1)], exact, scale, dis)
        coords_eq("quiver Y", q["Y"], [mj["Y"][k // n0] for k in range(n0 * n1)], exact, scale, dis)
        mU, mV = mj["U"]["data"], mj["V"]["data"]
        mmask = [u is None or v is None for u, v in zip(mU, mV)]
        if [bool(x) for x in q["mask"]] != mmask:
            dis.append(f"quiver: hidden arrows impl {[int(x) for x in q['mask']]} vs model {[int(x) for x in mmask]}")
            continue
        masked_eq("quiver U", q["U"], q["mask"], [None if mk else u for u, mk in zip(mU, mmask)], dis)
        masked_eq("quiver V", q["V"], q["mask"], [None if mk else v for v, mk in zip(mV, mmask)], dis)
        if (q["C"] is None) != (mj["C"] is None):
            dis.append(f"quiver: colour array impl {'absent' if q['C'] is None else 'present'} vs model {'absent' if mj['C'] is None else 'present'}")
        elif q["C"] is not None:
            masked_eq("quiver C", q["C"], None, mj["C"]["data"], dis)
        # raw arguments (recording Axes): U / V before matplotlib's masking
        rq = [r for r in res.get("rec", []) if r[0] == "quiver"]
        if rq:
            args = rq[0][1]
            if len(args) < 4:
                dis.append("quiver: fewer than four positional arguments")
            else:
                coords_eq("quiver arg X", args[0], mj["X"], exact, scale, dis)
                coords_eq("quiver arg Y", args[1], mj["Y"], exact, scale, dis)
                if list(args[2].shape) != mj["U"]["shape"]:
                    dis.append(f"quiver arg U shape impl {list(args[2].shape)} vs model {mj['U']['shape']}")
                else:
                    masked_eq("quiver arg U", args[2], None, mU, dis)
                    masked_eq("quiver arg V", args[3], None, mV, dis)
    if "contours" in res:
        for (X, Y, Z), mj in zip(res["contours"], mc):
            coords_eq("contour X", X, mj["X"], exact, scale, dis)
            coords_eq("contour Y", Y, mj["Y"], exact, scale, dis)
            if list(Z.shape) != mj["Z"]["shape"]:
                dis.append(f"contour Z shape impl {list(Z.shape)} vs model {mj['Z']['shape']}")
            else:
                masked_eq("contour Z", Z, None, mj["Z"]["data"], dis)
    if not obs.get("mpl_refused"):
        if not ml:
            dis.append("model produced no labels")
        elif res["labels"] != [ml[-1]["x"], ml[-1]["y"]]:
            dis.append(f"labels impl {res['labels']} vs model {[ml[-1]['x'], ml[-1]['y']]}")
    return dis


def compare(case, obs, rs):
    if case["kind"] == "table":
        dis = []
        t = rs[0]
        if [[k, F(v)] for k, v in t["table"]] != [[k, F(v)] for k, v in obs["table"]]:
            dis.append(f"SI table: ubermagutil {obs['table']} vs Lean {t['table']}")
        if [[F(v), k] for v, k in t["rsi"]] != [[F(v), k] for k, v in obs["table"]]:
            dis.append(f"rsi table: Lean {t['rsi']}")
        if [(p, Fraction(10) ** e) for p, e in SI] != [(k, F(v)) for k, v in t["table"]]:
            dis.append("harness mirror of the SI table differs from the Lean table")
        for v, a, r in zip(obs["mvals"], obs["mres"], rs[1:]):
            b = r["ok"]
            if (a is None) != (b is None) or (a is not None and F(a) != F(b)):
                dis.append(f"si_multiplier({float(F(v))!r}): ubermagutil {a} vs model {b}")
                break
        for pr, a, r in zip(obs.get("pairs", []), obs.get("pres", []), rs[1 + len(obs["mvals"]):]):
            b = r.get("ok")
            if (a is None) != (b is None) or (a is not None and F(a) != F(b)):
                dis.append(f"si_max_multiplier({[float(F(x)) for x in pr]}): ubermagutil {a} vs model {r}")
                break
        return dis
    if case["kind"] == "session":
        if obs.get("status") == "skip" or "fields" not in obs:
            return []
        r = rs[0]
        dis = []
        if len(r["results"]) != len(obs["steps"]):
            return [f"session: {len(obs['steps'])} calls impl vs {len(r['results'])} model"]
        for k, (step, mr) in enumerate(zip(obs["steps"], r["results"])):
            st = "ok" if "ok" in mr else "err"
            if st != step["status"]:
                dis.append(f"session call {k}: impl {step['status']} ({step.get('exc')}) vs model {st} {mr.get('err', '')}")
                continue
            if st == "ok" and len(r["leftovers"][k]) <= 1:
                d = compare_calls(dict(regime=case["regime"]), dict(res=step["res"], used_mult=step.get("used_mult"), field=step["field"]),
                                  mr["ok"], r["mults"][k])
                dis += [f"session call {k}: {t}" for t in d[:2]]
        if "dict_keys_after" in obs:
            if [sorted(x) for x in r["keys"]] != obs["dict_keys_after"]:
                dis.append(f"caller's keyword dictionaries after the session hold the keys {obs['dict_keys_after']}, the model says {r['keys']}")
            if not all(obs["dict_same_objects"]):
                dis.append("a value stored in a caller's keyword dictionary was replaced during the session (the model leaves them untouched)")
        return dis
    if case["kind"] == "dsession":
        if obs.get("status") == "skip" or "fields" not in obs:
            return []
        r = rs[0]
        if "results" not in r:
            return [] if "not rational" in str(r.get("err", "")) else [f"heap session: driver answered {r}"]
        dis = []
        if len(r["results"]) != len(obs["steps"]):
            return [f"heap session: {len(obs['steps'])} calls impl vs {len(r['results'])} model"]
        for k, (step, mr) in enumerate(zip(obs["steps"], r["results"])):
            st = "ok" if "ok" in mr else "err"
            mpl_ok = r["mpl_ok"][k]
            # the model's outcome of the call as a whole: its own checks, then matplotlib's precondition on contour(X, Y, Z)
            whole = "ok" if (st == "ok" and mpl_ok) else "err"
            if st == "err" and step.get("mpl_refused"):
                continue  # matplotlib refused the arguments before the code reached its own later checks: both refuse
            if whole != step["status"]:
                dis.append(f"heap session call {k} ({step['kind']}): impl {step['status']} ({step.get('exc')}) vs model {whole} {mr.get('err', '')}"
                           + ("" if mpl_ok else " (matplotlib's 2 x 2 requirement)"))
                continue
            if st == "ok" and bool(step.get("mpl_refused")) != (not mpl_ok):
                dis.append(f"heap session call {k} ({step['kind']}): matplotlib refused the arguments: impl {step.get('mpl_refused')} vs model {not mpl_ok}")
                continue
            if st == "ok" and len(r["leftovers"][k]) <= 1 and step.get("res") is not None:
                d = compare_calls(dict(regime=case["regime"], kind=step["kind"]),
                                  dict(res=step["res"], used_mult=step.get("used_mult"), field=step["field"],
                                       mpl_refused=step.get("mpl_refused")), mr["ok"], r["mults"][k])
                dis += [f"heap session call {k} ({step['kind']}): {t}" for t in d[:2]]
        if "mutated" in obs and sorted(r.get("mutated", [])) != obs["mutated"]:
            dis.append(f"arrays modified by the session: impl {obs['mutated']} vs heap model {sorted(r.get('mutated', []))}")
        return dis
    if obs.get("status") == "skip" or "field" not in obs:
        return []
    if str(case.get("refusal", "")).startswith("ndim"):
        st = "ok" if "ok" in rs[0] else "err"
        return [] if st == obs["status"] else [f"plot on a non-2-d mesh: impl {obs['status']} vs model {st}"]
    left = rs[0].get("leftover", [])
    amb = len(left) > 1 and case["kind"] in ("vector", "default", "lightness")
    cands = rs if amb else rs[:1]
    impl_ok = obs["status"] == "ok" or obs.get("mpl_refused")
    best = None
    for r in cands:
        st = "ok" if "ok" in r else "err"
        if st == "err" and obs.get("mpl_refused"):
            d = []  # matplotlib refused the handed-over arrays before the code reached its own later checks: outcome undetermined
        elif (st == "ok") != bool(impl_ok):
            d = [f"{case['kind']} plot: impl {obs['status']} ({obs.get('exc')}) vs model {st} {r.get('err', '')}"]
        elif st == "err" or obs.get("res") is None:
            d = []
        else:
            d = compare_calls(case, obs, r["ok"], r.get("mult"))
        if st == "ok" and case.get("ax") == "rec" and "mpl_ok" in r and bool(obs.get("mpl_refused")) != (not r["mpl_ok"]):
            # matplotlib's documented precondition on contour(X, Y, Z) (Z at least 2 x 2) is part of the model (contourArgsOk)
            d = d + [f"{case['kind']} plot: matplotlib refused the handed-over arguments: impl {bool(obs.get('mpl_refused'))} vs model {not r['mpl_ok']}"]
        if "heap" in r:
            # the same request on the heap model (arrays as objects, in-place NaN writes): same outcome, same arguments
            # handed over, and the same input arrays modified (none) as the snapshot probe saw
            hp = r["heap"]
            sth = "ok" if "ok" in hp else "err"
            if sth != st:
                d = d + [f"heap model of {case['kind']}: {sth}, value model: {st}"]
            elif sth == "ok" and obs.get("res") is not None and obs["status"] == "ok":
                d = d + [f"heap model: {t}" for t in compare_calls(case, obs, hp["ok"], r.get("mult"))]
            if "mutated" in obs and sorted(r.get("mutated", [])) != obs["mutated"]:
                d = d + [f"input arrays modified by the call: impl {obs['mutated']} vs heap model {sorted(r.get('mutated', []))}"]
        if not d:
            return []
        best = best or d
    return best


def nontrivial(case, obs):
    return bool(obs.get("nontrivial")) or case["kind"] == "table"


def known(case, text):
    return None  # no open finding for C20 (D91-D93 are fixed in /repo)


def search(case, rng):
    """neighbours: the same inputs under every plot kind, then fresh cases of the same kind"""
    if case["kind"] == "session":
        for _ in range(200):
            yield gen_session(rng, "quick")
        return
    if case["kind"] == "dsession":
        for _ in range(200):
            yield gen_dsession(rng, "quick")
        return
    if case["kind"] == "table" or "mesh" not in case:
        return
    for kind in ("scalar", "vector", "contour", "lightness", "default"):
        c = dict(case, kind=kind, sub=rng.getrandbits(32))
        c.pop("_src", None)
        yield c
    for _ in range(150):
        yield gen_case(rng, "quick", kind=case["kind"], regime=case["regime"])
    for _ in range(150):
        yield gen_case(rng, "quick")
