"""C15 — setting a norm rescales non-zero vectors only; orientation is the unit field."""
import math
import random
from fractions import Fraction

import numpy as np

from . import core, fieldio
from .core import Q, Qs, F

import discretisedfield as df

PID = "C15"
RULE = ("(prog) Field(mesh, nvdim, value, norm, valid) on exact-regime 1-4-d meshes with 1-4 components, then 0-3 steps out of "
        "{norm = spec, update_field_values, valid = spec}: after the constructor and after every step the array, validity and "
        "metadata, Field.norm and Field.orientation are compared with the rational model (the constructor as one model call, every "
        "step as a model call (Model.step) on the implementation's own pre-state). Cell vectors are scaled Pythagorean tuples (rational "
        "length, so the model side is exact), exact zeros, axis-aligned vectors and scalars sitting exactly on / one ulp beside the 1e-8 "
        "threshold, vectors whose every component is at or below 1e-8 while the vector is longer, magnitudes 2^-40..2^498; comparator: "
        "arrays that did not go through the setter and norms of single-component cells exactly, setter results within 16u, norms 4u, "
        "orientation 8u per component (relative, so zeros are exact; the proved bounds are 6u / 15/4 u / 39/8 u). Norm specs: number "
        "(float/int/np.float64), per-cell array of shape n and (*n,1), other broadcastable shapes, nested lists, non-negative polynomial "
        "callable of position vanishing on a plane of cells, zero targets in places, None, and a one-component Field on the same mesh or "
        "on another dyadic mesh whose region contains the receiver's (cells 1/2..3 times as wide, origin shifted so that receiving cell "
        "centres fall inside, on centres and exactly on faces of the norm field's cells; compared exactly, ties included); valid: "
        "None/True/False/mask/'norm' (so norms are assigned on fields with non-trivial masks, in the constructor and afterwards). "
        "(generic) arbitrary binary64 vectors 1e-6..1e150 sent as the exact rationals they are, same comparator. (bits) arbitrary "
        "binary64 cells (components of very different size, zeros, around the threshold) and targets: Field.norm, Field.orientation "
        "and the array after one norm assignment against the rounded kernel (flNormCell/flSetCell/flOrientCell, one rounding after "
        "every operation) run with the executable binary64 rounding fl64 and root sqrt64: whether every output number is "
        "IDENTICAL is recorded per case in the distribution (tag bits:bit-identical-to-fl64-kernel; all cases on this tree); the "
        "verdict uses the 16u/4u/8u comparator, so a numerically harmless re-ordering of the library's arithmetic is not an alarm. (complex) "
        "dtype=complex fields with 1-2 components through the (re, im) view (array.view(float)) against the real model with twice as "
        "many components: constructor with norm and valid, norm / valid assignments. (malformed) wrong shapes / lengths / nvdim=0 / "
        "vector field or non-containing field as norm: ok/err must agree. Oracle on the real code alone, per cell in exact arithmetic "
        "on the outputs (for EVERY cell, valid or not): non-zero -> squared length t^2 within 16u, all 2x2 cross terms vanish within "
        "16u, positive dot product for t>0; zero stays exactly zero; t=0 gives exactly zero; norm: one component, same mesh/unit/validity, "
        "x>=0, x^2 = sum v^2 within 8u, |v| exactly for scalars; orientation: |o|^2 = 1 within 16u above the threshold, exactly zero at "
        "or below it, o*norm = v within 8u; constructor = values then norm then validity (valid='norm' reflects the final lengths); "
        "update_field_values == array of a fresh Field with that value; field as norm: target = value of the norm field's cell "
        "containing the centre (no demand where the centre lies on a face). non-trivial = some non-zero cell and a norm actually set")
TRUSTED = ["harness/c15.py, harness/fieldio.py + driver JSON glue",
           "np.linalg.norm(axis=-1) is sqrt of the left-to-right sum of squares (observed bit for bit by the 'bits' stream); np.divide(where=, out=), np.isclose(x, 0) (|x| <= 1e-8) and NumPy broadcasting modelled by contract",
           "DataArray.sel(method='nearest') / pandas get_indexer modelled by contract (nearest coordinate, larger index on a tie; checked exactly incl. ties)",
           "the driver instantiates the sqrt parameter with sqrtQ (proved exact on rational squares; floor at 2^-96 relative resolution elsewhere, used only under the 8u comparator); in the 'bits' stream with sqrt64 (validated bit for bit against np.sqrt; proved: relative error <= 2^-53) and fl64 (proved: |fl64 x - x| <= 2^-53 |x|)",
           "complex division by the real norm and complex multiplication by the real target act on real and imaginary part separately (exact in real arithmetic; NumPy's reciprocal-multiply rounding is inside the 16u comparator)"]
ASSUMPTIONS = ["theorems carry SqrtAt sqrt x (non-negative root) as an explicit hypothesis at the arguments used; instantiated by sqrtQ on rational squares and by Real.sqrt on all non-negative reals",
               "rounding theorems carry FlOk fl u (|fl x - x| <= u|x|, the standard model without under/overflow) with u <= 2^-10 and at most four components; instantiated by fl64 (proved) and by any Rounding of Lemmas/Rounding.lean; squared lengths stay within 2^-80 .. 2^1011 in the generators",
               "a field given as norm has the receiver's dimension names in the same order (selection is by name; other cases are outside the model)",
               "a rejected norm assignment leaves the receiver normalised to unit length (the division has already been stored); the property does not speak about rejected norms, recorded as observation only"]
UNPROVED = ["sqrt64 is proved to have relative error <= 2^-53 (its square within 2u+3u^2 of the radicand), not to be the CORRECTLY rounded root, and fl64(sqrt64 x) = sqrt64 x is not proved: the end-to-end bounds for the executable kernel (exec64_*) therefore carry 15u / 10u / 13u instead of the 13u / 8u / 10u proved for an exact root with one rounding (both are inside the 16u / 16u oracle tolerances; the norm comparator 4u is justified by the exact-root theorem only)",
            "rounding bounds for more than four components, for u > 2^-10, and for complex fields (NumPy divides a complex by a real through a reciprocal: two roundings instead of one)",
            "norm specifications outside the model: dict of subregions (C02's domain), a Field with other dimension names, non-numeric types (str -> TypeError), a complex target on a real field (TypeError)",
            "Field.orientation as a constructor call with explicit labels/mapping (the model copies them; the getter Field.norm IS proved to be the constructor call)"]
BUDGET = {"quick": 100, "thorough": 900}

U = Fraction(1, 2 ** 53)
ATOL = Fraction(1e-8)  # the exact binary64 number NumPy uses

PYTH = {
    1: [(1,), (3,), (5,), (7,), (11,)],
    2: [(3, 4), (5, 12), (8, 15), (7, 24), (20, 21), (1, 0), (0, 3)],
    3: [(1, 2, 2), (2, 3, 6), (1, 4, 8), (2, 10, 11), (4, 4, 7), (2, 6, 9), (6, 6, 7), (3, 4, 12), (3, 4, 0), (0, 5, 12), (0, 0, 7), (0, 2, 0)],
    4: [(1, 1, 1, 1), (1, 2, 2, 4), (2, 4, 5, 6), (1, 1, 3, 5), (2, 2, 3, 8), (1, 2, 4, 10), (1, 1, 7, 7), (1, 2, 2, 0), (0, 3, 0, 4), (0, 0, 0, 9), (2, 3, 6, 0)],
}


# ------------------------------------------------------------------ small exact helpers
def fr(s):
    return Fraction(s)


def fl(s):
    """exactly representable rational string -> float (checked)"""
    q = Fraction(s)
    x = float(q)
    if Fraction(x) != q:
        raise core.MachineryError(f"generator produced a non-representable number {s}")
    return x


def poly_eval_frac(terms, p):
    tot = Fraction(0)
    for t in terms:
        mon = Fraction(1)
        for a, e in enumerate(t["e"]):
            mon *= Fraction(p[a]) ** e
        tot += fr(t["c"]) * mon
    return tot


def poly_eval_float(terms, p):
    tot = 0.0
    for t in terms:
        mon = 1.0
        for a, e in enumerate(t["e"]):
            mon *= float(p[a]) ** e
        tot += fl(t["c"]) * mon
    exact = poly_eval_frac(terms, [Fraction(float(x)) for x in p])
    if Fraction(tot) != exact:
        raise core.MachineryError("polynomial callable not exact in binary64 (generator bug)")
    return tot


# ------------------------------------------------------------------ generators
def gen_cell(rng, nv, style):
    """one cell vector as Fractions"""
    if style == "zero":
        return [Fraction(0)] * nv
    if style == "thresh":  # axis-aligned / scalar on or one ulp beside the absolute threshold
        x = rng.choice([1e-8, float(np.nextafter(1e-8, 0)), float(np.nextafter(1e-8, 1)), -1e-8, 2.0 ** -27, 2.0 ** -26,
                        float(np.nextafter(1e-8, 0)) * 0.5, 1.5e-8])
        v = [Fraction(0)] * nv
        v[rng.randrange(nv)] = Fraction(x)
        return v
    if style == "percell" and nv > 1:  # every component at or below the 1e-8 threshold, the vector above it (rational length)
        base, c = {2: ((3, 4), Fraction(19, 2 ** 33)), 3: ((1, 2, 2), Fraction(17, 2 ** 32)), 4: ((1, 1, 1, 1), Fraction(15, 2 ** 31))}[nv]
        perm = list(base)
        rng.shuffle(perm)
        return [Fraction(rng.choice([-1, 1]) * b) * c for b in perm]
    if style in ("tiny", "percell"):  # rational length below / around the threshold
        base = rng.choice(PYTH[nv])
        k = rng.randint(-40, -24)
    else:
        base = rng.choice(PYTH[nv])
        k = rng.choice([0, 0, 0, 1, -1, 3, -3, rng.randint(-20, 30), rng.randint(30, 498)]) if style == "wide" else rng.randint(-3, 4)
    perm = list(base)
    rng.shuffle(perm)
    m = rng.choice([1, 1, 1, 2, 3, 5])
    return [Fraction(rng.choice([-1, 1]) * c * m) * Fraction(2) ** k for c in perm]


def gen_cells(rng, ncell, nv):
    mode = rng.choice(["plain", "plain", "wide", "zeros", "thresh", "tiny", "mixed"])
    out = []
    for _ in range(ncell):
        r = rng.random()
        if mode == "plain":
            st = "plain" if r < 0.9 else "zero"
        elif mode == "wide":
            st = "wide" if r < 0.85 else "zero"
        elif mode == "zeros":
            st = "zero" if r < 0.5 else "plain"
        elif mode == "thresh":
            st = "thresh" if r < 0.45 else "percell" if r < 0.6 else ("plain" if r < 0.9 else "zero")
        elif mode == "tiny":
            st = "tiny" if r < 0.7 else ("plain" if r < 0.9 else "zero")
        else:
            st = rng.choice(["plain", "wide", "zero", "thresh", "tiny", "percell"])
        out.append(gen_cell(rng, nv, st))
    return out


def centres_frac(ms):
    """cell centres in exact arithmetic straight from the mesh spec, C order of the cells"""
    pmin = [Fraction(x) for x in ms["p1"]]
    pmax = [Fraction(x) for x in ms["p2"]]
    lo = [min(a, b) for a, b in zip(pmin, pmax)]
    hi = [max(a, b) for a, b in zip(pmin, pmax)]
    cell = [(b - a) / k for a, b, k in zip(lo, hi, ms["n"])]
    out = []
    for idx in np.ndindex(*ms["n"]):
        out.append([a + (Fraction(i) + Fraction(1, 2)) * c for a, i, c in zip(lo, idx, cell)])
    return out


def gen_target(rng):
    r = rng.random()
    if r < 0.12:
        return Fraction(0)
    m = Fraction(rng.choice([1, 1, 2, 3, 5, 7, 10, 800000]))
    k = rng.choice([0, 0, 0, 1, -1, 2, -4, 10, rng.randint(-30, 40), rng.randint(40, 300)])
    t = m * Fraction(2) ** k
    return t


def gen_poly(rng, ms, scale=Fraction(1)):
    """polynomial of position, degree <= 2, small integer coefficients, NON-NEGATIVE at every point (a norm is a
    length; negative targets are outside the property); often vanishing on a whole plane of cell centres"""
    nd = len(ms["n"])
    cs = centres_frac(ms)
    terms = []

    def unit(ax, k):
        e = [0] * nd
        e[ax] = k
        return e

    if rng.random() < 0.5:  # a * (p_ax - x0)^2, zero on the plane p_ax = x0
        ax = rng.randrange(nd)
        x0 = rng.choice(cs)[ax]
        a = rng.choice([1, 2, 4])
        terms = [dict(c=Q(scale * a), e=unit(ax, 2)), dict(c=Q(-2 * scale * a * x0), e=unit(ax, 1)),
                 dict(c=Q(scale * a * x0 * x0), e=[0] * nd)]
        if rng.random() < 0.4:
            terms.append(dict(c=Q(scale * rng.randint(1, 5)), e=unit(rng.randrange(nd), 2)))
    else:
        terms.append(dict(c=Q(scale * rng.randint(0, 9)), e=[0] * nd))
        for ax in range(nd):
            if rng.random() < 0.7:
                terms.append(dict(c=Q(scale * rng.randint(0, 5)), e=unit(ax, 2)))
    return terms


def gen_signed_poly(rng, ms):
    """polynomial that changes sign (used for VALUES, where any sign is fine)"""
    nd = len(ms["n"])
    cs = centres_frac(ms)
    if rng.random() < 0.5:
        ax = rng.randrange(nd)
        x0 = rng.choice(cs)[ax]
        a = rng.choice([1, 2, -1, 4])
        e = [0] * nd
        e[ax] = 1
        return [dict(c=Q(a), e=e), dict(c=Q(-a * x0), e=[0] * nd)]
    terms = [dict(c=Q(rng.randint(0, 9)), e=[0] * nd)]
    for ax in range(nd):
        if rng.random() < 0.7:
            e = [0] * nd
            e[ax] = rng.choice([1, 1, 2])
            terms.append(dict(c=Q(rng.randint(-3, 5)), e=e))
    return terms


def box_of(ms):
    lo = [min(Fraction(a), Fraction(b)) for a, b in zip(ms["p1"], ms["p2"])]
    hi = [max(Fraction(a), Fraction(b)) for a, b in zip(ms["p1"], ms["p2"])]
    return lo, hi


def gen_field_nspec(rng, ms, malformed=None):
    """a Field as norm: on the receiver's own mesh, or on a different dyadic mesh whose region contains the receiver's
    (cells half / equal / 3/2 / twice / three times as wide, origin shifted by 0, 1/4, 1/2 or 1 of its cells, so that the
    receiver's cell centres fall inside, on the centres of, and exactly on the faces of the norm field's cells)"""
    n = list(ms["n"])
    nd = len(n)
    lo, hi = box_of(ms)
    cell = [(b - a) / k for a, b, k in zip(lo, hi, n)]
    mode = rng.choice(["same", "same", "other", "other", "other"])
    p1, p2, nh = list(lo), list(hi), list(n)
    if mode == "other" or malformed == "notcontain":
        p1, p2, nh = [], [], []
        for a in range(nd):
            ch = cell[a] * rng.choice([Fraction(1, 2), Fraction(1), Fraction(2), Fraction(3), Fraction(3, 2)])
            start = lo[a] - ch * rng.choice([Fraction(0), Fraction(1, 2), Fraction(1), Fraction(1, 4)])
            k = max(1, math.ceil((hi[a] - start) / ch)) + rng.choice([0, 0, 1])
            p1.append(start)
            p2.append(start + k * ch)
            nh.append(k)
        if int(np.prod(nh)) > 400:
            p1, p2, nh = list(lo), list(hi), list(n)
    if malformed == "notcontain":  # cut one cell of the receiver off the norm field's region
        a = rng.randrange(nd)
        p1, p2, nh = list(lo), list(hi), list(n)
        if rng.random() < 0.5:
            p1[a] = lo[a] + cell[a]
        else:
            p2[a] = hi[a] - cell[a]
        if p1[a] >= p2[a]:
            p1[a], p2[a] = lo[a] + cell[a], hi[a] + cell[a]
        nh[a] = 1
    nv = 2 if malformed == "vector" else 1
    ncell = int(np.prod(nh))
    data = [[Q(Fraction(rng.choice([0, 1, 2, 3, 5, 8]), rng.choice([1, 2, 4]))) for _ in range(nv)] for _ in range(ncell)]
    return dict(k="field", nvdim=nv, data=data,
                mesh=dict(p1=[fl(Q(x)) for x in p1], p2=[fl(Q(x)) for x in p2], n=nh, dims=ms.get("dims"), bc="", intcorners=False))


def gen_nspec(rng, ms, malformed=False):
    n = list(ms["n"])
    ncell = int(np.prod(n))
    if malformed:
        kind = rng.choice(["badshape", "lastaxis", "longer", "field-vector", "field-notcontain"])
        if kind.startswith("field-"):
            return gen_field_nspec(rng, ms, kind[6:])
        if kind == "badshape":
            shape = list(n)
            shape[rng.randrange(len(n))] += 1
        elif kind == "lastaxis":
            shape = n + [rng.choice([2, 3])]
        else:
            shape = [2] + n + [1]
        if shape == n:
            shape = n + [2]
        return dict(k="arr", shape=shape, data=[Q(rng.randint(1, 5)) for _ in range(int(np.prod(shape)))], **{"as": "ndarray"})
    kind = rng.choice(["const", "const", "arr", "arr", "col", "poly", "poly", "bcast", "one", "field", "field"])
    if kind == "field":
        return gen_field_nspec(rng, ms)
    if kind == "const":
        return dict(k="const", v=Q(gen_target(rng)), py=rng.choice(["float", "int", "npfloat"]))
    if kind == "arr":
        if rng.random() < 0.3:  # same order of magnitude everywhere
            data = [gen_target(rng) for _ in range(ncell)]
        else:
            data = [Fraction(rng.choice([0, 1, 2, 3, 4, 6, 9]), rng.choice([1, 1, 2, 8])) for _ in range(ncell)]
        return dict(k="arr", shape=n, data=Qs(data), **{"as": rng.choice(["ndarray", "list"])})
    if kind == "col":
        data = [Fraction(rng.choice([0, 1, 2, 3, 5, 12]), rng.choice([1, 4])) for _ in range(ncell)]
        return dict(k="arr", shape=n + [1], data=Qs(data), **{"as": rng.choice(["ndarray", "list"])})
    if kind == "bcast":
        full = n + [1]
        start = rng.randint(0, len(full) - 1)
        shape = [d if rng.random() < 0.7 else 1 for d in full[start:]]
        shape[-1] = 1
        data = [Fraction(rng.choice([0, 1, 2, 3, 5]), rng.choice([1, 2])) for _ in range(int(np.prod(shape)))]
        return dict(k="arr", shape=shape, data=Qs(data), **{"as": "ndarray"})
    if kind == "one":
        return dict(k="arr", shape=[1], data=[Q(gen_target(rng))], **{"as": "list"})
    scale = Fraction(2) ** rng.choice([0, 0, 0, -3, 6, 40])
    terms = gen_poly(rng, ms, scale)
    spec = dict(k="poly", terms=terms)
    if rng.random() < 0.5:
        # a function that returns a Python int wherever its value is a whole number - made so at the first cell (lowest
        # corner, the first one the library asks for) - and floats elsewhere: the element type of the answers says
        # nothing about the other cells
        lo = [min(Fraction(a), Fraction(b)) for a, b in zip(ms["p1"], ms["p2"])]
        hi = [max(Fraction(a), Fraction(b)) for a, b in zip(ms["p1"], ms["p2"])]
        c0 = [a + (b - a) / k / 2 for a, b, k in zip(lo, hi, n)]
        v0 = poly_eval_frac(terms, c0)
        frac = v0 - (v0.numerator // v0.denominator)
        if frac != 0:
            spec["terms"] = terms + [dict(c=Q(-frac), e=[0] * len(n))]
        spec["ret"] = "int-where-whole"
    return spec


def gen_vspec(rng, ms, nv, malformed=False):
    n = list(ms["n"])
    ncell = int(np.prod(n))
    if malformed:
        kind = rng.choice(["veclen", "arrcomp", "polylen"])
        if kind == "veclen":
            return dict(k="vec", v=Qs([1] * (nv + 1)))
        if kind == "arrcomp":
            return dict(k="arr", shape=n, data=[Qs([1] * (nv + 1)) for _ in range(ncell)])
        return dict(k="poly", comps=[[dict(c="1", e=[0] * len(n))] for _ in range(nv + 1)])
    kind = rng.choice(["arr", "arr", "arr", "vec", "poly", "zero"])
    if kind == "arr":
        return dict(k="arr", shape=n, data=[Qs(v) for v in gen_cells(rng, ncell, nv)])
    if kind == "vec":
        return dict(k="vec", v=Qs(gen_cell(rng, nv, rng.choice(["plain", "wide", "plain", "zero"]))))
    if kind == "zero":
        return dict(k="scalar", v="0") if rng.random() < 0.7 or nv > 1 else dict(k="scalar", v=Q(rng.randint(-5, 5)))
    base = gen_cell(rng, nv, "plain")
    q = gen_signed_poly(rng, ms)
    return dict(k="poly", comps=[[dict(c=Q(fr(t["c"]) * b), e=t["e"]) for t in q] for b in base])


def gen_valid(rng, ms, malformed=False):
    n = list(ms["n"])
    ncell = int(np.prod(n))
    if malformed:
        shape = n + [2]
        return dict(k="arr", shape=shape, data=[True] * int(np.prod(shape)))
    kind = rng.choice(["none", "all", "arr", "norm", "norm", "none"])
    if kind == "all":
        return dict(k="all", v=rng.random() < 0.8)
    if kind == "arr":
        return dict(k="arr", shape=n, data=[rng.random() < 0.7 for _ in range(ncell)])
    return dict(k=kind)


def gen_prog(rng, tier, malformed=False, nv=None):
    ms = fieldio.gen_mesh_spec(rng, max_cells=36 if tier == "quick" else 60, nmax=5)
    nv = nv or rng.choice([1, 2, 3, 3, 4])
    case = dict(kind="prog", mesh=ms, nvdim=nv, value=gen_vspec(rng, ms, nv),
                norm=(None if rng.random() < 0.3 else gen_nspec(rng, ms)), valid=gen_valid(rng, ms),
                unit=rng.choice([None, "A/m", "T"]), steps=[])
    for _ in range(rng.choice([0, 1, 1, 2, 2, 3])):
        r = rng.random()
        if r < 0.55:
            case["steps"].append(dict(k="set_norm", spec=(None if rng.random() < 0.05 else gen_nspec(rng, ms))))
        elif r < 0.85:
            case["steps"].append(dict(k="update", value=gen_vspec(rng, ms, nv)))
        else:
            case["steps"].append(dict(k="set_valid", spec=gen_valid(rng, ms)))
    if malformed:
        where = rng.choice(["ctor_norm", "ctor_value", "ctor_valid", "nvdim", "step_norm", "step_value", "step_valid"])
        case["bad"] = where
        if where == "ctor_norm":
            case["norm"] = gen_nspec(rng, ms, True)
        elif where == "ctor_value":
            case["value"] = gen_vspec(rng, ms, nv, True)
        elif where == "ctor_valid":
            case["valid"] = gen_valid(rng, ms, True)
        elif where == "nvdim":
            case["nvdim"] = 0
            case["value"] = dict(k="scalar", v="0")
        elif where == "step_norm":
            case["steps"].append(dict(k="set_norm", spec=gen_nspec(rng, ms, True)))
        elif where == "step_value":
            case["steps"].append(dict(k="update", value=gen_vspec(rng, ms, nv, True)))
        else:
            case["steps"].append(dict(k="set_valid", spec=gen_valid(rng, ms, True)))
    return case


def gen_generic(rng, tier):
    ms = fieldio.gen_mesh_spec(rng, max_cells=24, nmax=4)
    nv = rng.choice([1, 2, 3, 4])
    ncell = int(np.prod(ms["n"]))
    r2 = random.Random(rng.getrandbits(32))
    cells = []
    for _ in range(ncell):
        if r2.random() < 0.1:
            cells.append([0.0] * nv)
            continue
        mag = 10.0 ** r2.uniform(-6, 150) if r2.random() < 0.5 else 10.0 ** r2.uniform(-6, 3)
        v = [r2.gauss(0, 1) for _ in range(nv)]
        if r2.random() < 0.2:
            v[r2.randrange(nv)] = 0.0
        nrm = math.sqrt(sum(x * x for x in v)) or 1.0
        cells.append([x / nrm * mag for x in v])
    t = 10.0 ** r2.uniform(-6, 100) if r2.random() < 0.5 else r2.uniform(0.1, 10)
    spec = rng.choice(["const", "arr"])
    ns = dict(k="const", v=Q(t), py="float") if spec == "const" else \
        dict(k="arr", shape=list(ms["n"]), data=Qs([0.0 if r2.random() < 0.1 else r2.uniform(0.001, 50) for _ in range(ncell)]), **{"as": "ndarray"})
    return dict(kind="prog", generic=True, mesh=ms, nvdim=nv,
                value=dict(k="arr", shape=list(ms["n"]), data=[Qs(v) for v in cells]),
                norm=(ns if rng.random() < 0.5 else None), valid=dict(k=rng.choice(["none", "norm"])), unit=None,
                steps=([] if rng.random() < 0.3 else [dict(k="set_norm", spec=ns)]))


def gen_cplx(rng, tier):
    """complex field (dtype=complex): 1-2 complex components per cell whose (re, im) view is a scaled Pythagorean tuple, an
    exact zero or sits at the threshold; real norm specifications; steps: norm / valid assignments"""
    ms = fieldio.gen_mesh_spec(rng, max_cells=24, nmax=4)
    nv = rng.choice([1, 2])
    ncell = int(np.prod(ms["n"]))
    case = dict(kind="cplx", mesh=ms, nvdim=nv, value=[Qs(v) for v in gen_cells(rng, ncell, 2 * nv)],
                norm=(None if rng.random() < 0.4 else gen_nspec(rng, ms)), valid=gen_valid(rng, ms),
                unit=rng.choice([None, "A/m"]), steps=[])
    for _ in range(rng.choice([0, 1, 1, 2])):
        if rng.random() < 0.8:
            case["steps"].append(dict(k="set_norm", spec=gen_nspec(rng, ms)))
        else:
            case["steps"].append(dict(k="set_valid", spec=gen_valid(rng, ms)))
    return case


def gen_bits(rng, tier):
    """cells for the bit-exact comparison of the rounded kernel (one binary64 rounding after every operation): arbitrary
    binary64 vectors 1e-6..1e150 with components of very different size, exact zeros, vectors around the 1e-8 threshold,
    Pythagorean vectors; constant or per-cell targets (arbitrary binary64, zero in places)"""
    ms = fieldio.gen_mesh_spec(rng, max_cells=16, nmax=4)
    nv = rng.choice([1, 2, 3, 4])
    ncell = int(np.prod(ms["n"]))
    r2 = random.Random(rng.getrandbits(32))
    cells = []
    for _ in range(ncell):
        r = r2.random()
        if r < 0.08:
            cells.append([0.0] * nv)
        elif r < 0.2:
            cells.append([float(x) for x in gen_cell(r2, nv, r2.choice(["plain", "wide", "tiny", "thresh"]))])
        else:
            mag = 10.0 ** r2.uniform(-6, 150) if r < 0.5 else 10.0 ** r2.uniform(-6, 3) if r < 0.85 else 10.0 ** r2.uniform(-8.5, -7.5)
            v = [r2.gauss(0, 1) * 10.0 ** r2.choice([0, 0, 0, -1, -3, -8]) for _ in range(nv)]
            if r2.random() < 0.2:
                v[r2.randrange(nv)] = 0.0
            nrm = math.sqrt(sum(x * x for x in v)) or 1.0
            cells.append([x / nrm * mag for x in v])
    if rng.random() < 0.5:
        t = 10.0 ** r2.uniform(-6, 100) if r2.random() < 0.5 else r2.uniform(0.1, 10)
        targets = [t] * ncell
        const = True
    else:
        targets = [0.0 if r2.random() < 0.1 else (r2.uniform(0.001, 50) if r2.random() < 0.7 else 10.0 ** r2.uniform(-6, 100)) for _ in range(ncell)]
        const = False
    return dict(kind="bits", mesh=ms, nvdim=nv, cells=[Qs(v) for v in cells], targets=Qs(targets), const=const)


def cases(rng, tier):
    N = 1 if tier == "quick" else 6
    # small exhaustive scope: every (nvdim, norm-spec kind family) at least once on a 1-d two-cell mesh is covered by the
    # random stream below; the explicit stream makes sure each mechanism appears even for unlucky seeds
    for nv in (1, 2, 3, 4):
        for _ in range(40 * N):
            yield gen_prog(rng, tier, nv=nv)
    for _ in range(900 * N):
        yield gen_prog(rng, tier)
    for _ in range(250 * N):
        yield gen_generic(rng, tier)
    for _ in range(200 * N):
        yield gen_prog(rng, tier, malformed=True)
    for _ in range(100 * N):
        yield gen_cplx(rng, tier)
    for _ in range(120 * N):
        yield gen_bits(rng, tier)


# ------------------------------------------------------------------ specs -> python objects
def py_nspec(s):
    if s is None:
        return None
    if s["k"] == "const":
        x = fl(s["v"])
        if s.get("py") == "int" and x == int(x) and abs(x) < 2 ** 62:
            return int(x)
        if s.get("py") == "npfloat":
            return np.float64(x)
        return x
    if s["k"] == "arr":
        a = np.array([fl(x) for x in s["data"]], dtype=float).reshape(s["shape"])
        return a.tolist() if s.get("as") == "list" else a
    if s["k"] == "field":
        hm = fieldio.build_mesh(s["mesh"])
        nv = s["nvdim"]
        a = np.array([[fl(x) for x in row] for row in s["data"]], dtype=float).reshape(*s["mesh"]["n"], nv)
        return df.Field(hm, nvdim=nv, value=a)
    terms = s["terms"]
    if s.get("ret") == "int-where-whole":
        def fn(p):
            v = poly_eval_float(terms, p)
            return int(v) if float(v).is_integer() and abs(v) < 2 ** 53 else v
        return fn
    return lambda p: poly_eval_float(terms, p)


def py_vspec(s, nv):
    if s["k"] == "scalar":
        return fl(s["v"])
    if s["k"] == "vec":
        return tuple(fl(x) for x in s["v"])
    if s["k"] == "arr":
        return np.array([[fl(x) for x in row] for row in s["data"]], dtype=float).reshape(*s["shape"], -1)
    comps = s["comps"]
    return lambda p: tuple(poly_eval_float(ts, p) for ts in comps)


def py_valid(s):
    if s["k"] == "none":
        return None
    if s["k"] == "all":
        return bool(s["v"])
    if s["k"] == "norm":
        return "norm"
    return np.array(s["data"], dtype=bool).reshape(s["shape"])


def targets_of(s, ms):
    """per-cell targets (Fractions, C order of the cells) computed independently of the library; None if unknown"""
    n = list(ms["n"])
    ncell = int(np.prod(n))
    if s["k"] == "const":
        return [fr(s["v"])] * ncell
    if s["k"] == "poly":
        return [poly_eval_frac(s["terms"], p) for p in centres_frac(ms)]
    if s["k"] == "field":
        return field_targets(s, ms)[0]
    a = np.array([fr(x) for x in s["data"]], dtype=object).reshape(s["shape"])
    try:
        if list(a.shape) == n:
            b = a
        else:
            if a.shape[-1] != 1:
                return None
            b = np.broadcast_to(a, (*n, 1))[..., 0]
    except ValueError:
        return None
    return list(b.reshape(-1))


def field_targets(s, ms):
    """norm given as a Field: per receiving cell the value of the norm field's cell that contains the receiving cell's
    centre, computed in exact arithmetic from the two mesh specs.  Returns (targets, tie): targets[k] is None where the
    centre lies exactly on a face between two cells of the norm field (which neighbour is 'nearest' is not for the
    property to say); tie[k] tells that this happened."""
    if s["nvdim"] != 1:
        return None, None
    hs = s["mesh"]
    lo, hi = box_of(hs)
    nh = hs["n"]
    ch = [(b - a) / k for a, b, k in zip(lo, hi, nh)]
    vals = np.array([fr(row[0]) for row in s["data"]], dtype=object).reshape(nh)
    out, ties = [], []
    for p in centres_frac(ms):
        idx, tie = [], False
        for a in range(len(nh)):
            q = (p[a] - lo[a]) / ch[a]
            if q.denominator == 1 and 0 < q < nh[a]:
                tie = True
            idx.append(min(max(math.floor(q), 0), nh[a] - 1))
        ties.append(tie)
        out.append(None if tie else vals[tuple(idx)])
    return out, ties


# ------------------------------------------------------------------ observation + oracle
def real_view(a, nv):
    """(cells, components) as a real 2-d array; a complex component is the pair (re, im): array.view(float)"""
    a = np.asarray(a)
    if np.iscomplexobj(a):
        return np.ascontiguousarray(a.reshape(-1, nv)).view(float).reshape(-1, 2 * nv)
    return np.asarray(a, dtype=float).reshape(-1, nv)


def rows(f):
    return [[Fraction(float(x)) for x in row] for row in real_view(f.array, f.nvdim).tolist()]


def view_json(f):
    """driver JSON of a field; a complex field is sent as the real field with twice as many components that
    array.view(float) shows (labels and mapping do not enter C15's operations and are left out)"""
    if not np.iscomplexobj(f.array):
        return fieldio.field_json(f)
    return dict(mesh=fieldio.mesh_json(f.mesh), nvdim=2 * int(f.nvdim),
                data=[Qs(row) for row in real_view(f.array, f.nvdim).tolist()],
                valid=[bool(v) for v in np.asarray(f.valid).reshape(-1).tolist()], vdims=None, vmap=[], unit=f.unit)


def snap(f):
    o = f.orientation
    if np.iscomplexobj(f.array) and not np.iscomplexobj(o.array):
        raise core.MachineryError("orientation of a complex field is not complex")
    return dict(field=view_json(f), norm=fieldio.field_json(f.norm), orientation=view_json(o))


def sq(v):
    return sum((x * x for x in v), Fraction(0))


def check_rescaled(name, pre, post, targets, fail):
    """the property's promise for a norm assignment, cell by cell, in exact arithmetic on the outputs"""
    for k, (v, w) in enumerate(zip(pre, post)):
        t = None if targets is None else targets[k]
        if all(x == 0 for x in v):
            if any(x != 0 for x in w):
                fail(f"{name}: zero cell {k} became {[float(x) for x in w]}")
                return
            continue
        if t is None:
            continue
        if t == 0:
            if any(x != 0 for x in w):
                fail(f"{name}: cell {k} with target norm 0 is {[float(x) for x in w]}")
                return
            continue
        lw = sq(w)
        if abs(lw - t * t) > 16 * U * t * t:
            fail(f"{name}: cell {k} was {[float(x) for x in v]}, target norm {float(t)}, result {[float(x) for x in w]} has squared length {float(lw)}")
            return
        for a in range(len(v)):
            for b in range(a + 1, len(v)):
                x, y = w[a] * v[b], w[b] * v[a]
                if abs(x - y) > 16 * U * max(abs(x), abs(y)):
                    fail(f"{name}: cell {k} direction changed: {[float(x) for x in v]} -> {[float(x) for x in w]}")
                    return
        dot = sum((x * y for x, y in zip(v, w)), Fraction(0))
        if t > 0 and dot <= 0:
            fail(f"{name}: cell {k} points the wrong way: {[float(x) for x in v]} -> {[float(x) for x in w]} for target {float(t)}")
            return


def check_derived(name, f, fail, tagset=None):
    """norm getter and orientation of the live field `f`"""
    v = rows(f)
    nv = f.nvdim
    nf = f.norm
    if not (nf.nvdim == 1 and nf.mesh == f.mesh and nf.unit == f.unit and nf.array.shape == (*f.mesh.n, 1)
            and np.array_equal(nf.valid, f.valid) and nf.valid.dtype == bool):
        fail(f"{name}: norm is not a one-component field on the same mesh with the same unit and validity")
        return
    x = [Fraction(float(a)) for a in nf.array.reshape(-1).tolist()]
    for k in range(len(v)):
        l2 = sq(v[k])
        if x[k] < 0 or abs(x[k] * x[k] - l2) > 8 * U * l2:
            fail(f"{name}: norm at cell {k} is {float(x[k])} for vector {[float(a) for a in v[k]]}")
            return
        if len(v[k]) == 1 and x[k] != abs(v[k][0]):
            fail(f"{name}: scalar norm at cell {k} is {float(x[k])}, |value| is {float(abs(v[k][0]))}")
            return
    of = f.orientation
    if not (of.nvdim == nv and of.mesh == f.mesh and np.array_equal(of.valid, f.valid)
            and list(of.vdims or []) == list(f.vdims or []) and of.vdim_mapping == f.vdim_mapping):
        fail(f"{name}: orientation changed mesh, component count, labels, mapping or validity")
        return
    o = rows(of)
    for k in range(len(v)):
        l2 = sq(v[k])
        above = l2 > ATOL * ATOL * (1 + 64 * U)
        below = l2 < ATOL * ATOL * (1 - 64 * U)
        if exact_len(v[k]):  # exact norm: no band
            above, below = l2 > ATOL * ATOL, l2 <= ATOL * ATOL
        if tagset is not None:
            tagset.add("orient:zero-vector" if l2 == 0 else "orient:below-threshold" if below else "orient:above" if above else "orient:band")
            if l2 != 0 and exact_len(v[k]) and abs(l2 - ATOL * ATOL) <= ATOL * ATOL / 2 ** 40:
                tagset.add("orient:within-1e-12-of-threshold-exact")
            if above and all(abs(a) <= ATOL for a in v[k]):
                tagset.add("orient:every-component-at-or-below-threshold-vector-above")
        if below:
            if any(a != 0 for a in o[k]):
                fail(f"{name}: orientation at cell {k} (length {math.sqrt(float(l2))} <= 1e-8) is {[float(a) for a in o[k]]}, not zero")
                return
        elif above:
            if abs(sq(o[k]) - 1) > 16 * U:
                fail(f"{name}: orientation at cell {k} has squared length {float(sq(o[k]))}")
                return
        if above or l2 == 0:
            for a, b in zip(o[k], v[k]):
                if abs(a * x[k] - b) > 8 * U * abs(b):
                    fail(f"{name}: orientation*norm at cell {k} gives {float(a * x[k])}, field has {float(b)}")
                    return


def nspec_tags(s, ms):
    if s is not None and s["k"] == "field":
        if s["nvdim"] != 1:
            return ["norm-field:vector"]
        lo, hi = box_of(ms)
        hlo, hhi = box_of(s["mesh"])
        same = (lo, hi, list(ms["n"])) == (hlo, hhi, list(s["mesh"]["n"]))
        ties = field_targets(s, ms)[1]
        return ["norm-field:" + ("same-mesh" if same else "other-mesh")] + (["norm-field:centre-on-face"] if any(ties) else [])
    if s is None or s["k"] != "arr":
        return []
    n = list(ms["n"])
    shp = "n" if s["shape"] == n else "col" if s["shape"] == n + [1] else "one" if s["shape"] == [1] else "other"
    return ["norm-arr-shape:" + shp + ("/list" if s.get("as") == "list" else "")]


def cell_tags(pre_rows, targets):
    """which per-cell situations a norm assignment met"""
    out = set()
    for k, v in enumerate(pre_rows):
        z = all(x == 0 for x in v)
        t = None if targets is None else targets[k]
        out.add("cell:zero" if z else "cell:nonzero")
        if not z and t is not None:
            out.add("target:zero" if t == 0 else "target:neg" if t < 0 else "target:pos")
        if not z:
            l2 = sq(v)
            out.add("len:<=1e-8" if l2 <= ATOL * ATOL else "len:<1e-6" if l2 < Fraction(1, 10 ** 12) else
                    "len:>1e100" if l2 > Fraction(10) ** 200 else "len:mid")
    return sorted(out)


def cplx_value(case):
    nv = case["nvdim"]
    a = np.array([[fl(x) for x in row] for row in case["value"]], dtype=float).reshape(-1, 2 * nv)
    return np.ascontiguousarray(a).view(complex).reshape(*case["mesh"]["n"], nv)


def run_impl(case):
    obs = {"oracle": [], "tags": [], "snaps": [], "pre": [], "err_at": None}
    fail = obs["oracle"].append
    ms, nv = case["mesh"], case["nvdim"]
    mesh = fieldio.build_mesh(ms)
    obs["mesh"] = fieldio.mesh_json(mesh)
    tags = obs["tags"]
    if case.get("kind") == "cplx":
        return run_impl_cplx(case, obs, mesh)
    if case.get("kind") == "bits":
        return run_impl_bits(case, obs, mesh)
    tags.append("generic" if case.get("generic") else ("malformed:" + case["bad"] if case.get("bad") else "exact"))
    tags += [f"nvdim:{nv}", f"ndim:{len(ms['n'])}", "ctor-norm:" + (case["norm"]["k"] if case["norm"] else "None"),
             "ctor-valid:" + case["valid"]["k"], "value:" + case["value"]["k"]]
    try:
        f = df.Field(mesh, nvdim=nv, value=py_vspec(case["value"], nv), norm=py_nspec(case["norm"]),
                     valid=py_valid(case["valid"]), unit=case["unit"])
    except (TypeError, ValueError, IndexError, KeyError) as e:
        obs["err_at"] = -1
        obs["err"] = type(e).__name__
        tags.append("ctor:err")
        return obs
    obs["snaps"].append(snap(f))
    # ---- constructor order: values, then norm, then validity
    plain = df.Field(mesh, nvdim=nv, value=py_vspec(case["value"], nv))
    pre, post = rows(plain), rows(f)
    obs["nonzero"] = any(any(x != 0 for x in v) for v in pre)
    obs["normset"] = case["norm"] is not None
    tagset = set(nspec_tags(case["norm"], ms))
    if case["norm"] is not None:
        check_rescaled("Field(..., norm=)", pre, post, targets_of(case["norm"], ms), fail)
        tagset.update(cell_tags(pre, targets_of(case["norm"], ms)))
    elif pre != post:
        fail("Field(...) without norm does not hold the plain values")
    vk = case["valid"]["k"]
    val = [bool(b) for b in np.asarray(f.valid).reshape(-1).tolist()]
    if vk == "norm":
        for k, w in enumerate(post):
            l2 = sq(w)
            if (l2 > ATOL * ATOL * (1 + 64 * U) and not val[k]) or (l2 < ATOL * ATOL * (1 - 64 * U) and val[k]):
                fail(f"valid='norm' in the constructor: cell {k} with final length {math.sqrt(float(l2))} has valid={val[k]}")
                break
    elif vk == "arr":
        if val != [bool(b) for b in case["valid"]["data"]]:
            fail("constructor validity differs from the mask passed")
    elif val != [not (vk == "all" and not case["valid"]["v"])] * len(val):
        fail("constructor validity is not uniformly the value passed")
    if f.unit != case["unit"] or f.nvdim != nv or f.mesh != mesh:
        fail("constructor changed unit, nvdim or mesh")
    check_derived("after constructor", f, fail, tagset)
    # ---- steps
    for si, st in enumerate(case["steps"]):
        pre_json = fieldio.field_json(f)
        pre_rows = rows(f)
        pre_valid = np.asarray(f.valid).copy()
        meta = (f.unit, f.nvdim, list(f.vdims or []), dict(f.vdim_mapping))
        tags.append("step:" + st["k"] + (":" + (st["spec"]["k"] if st.get("spec") else "None") if st["k"] != "update" else ":" + st["value"]["k"]))
        try:
            if st["k"] == "set_norm":
                f.norm = py_nspec(st["spec"])
            elif st["k"] == "update":
                f.update_field_values(py_vspec(st["value"], nv))
            else:
                f.valid = py_valid(st["spec"])
        except (TypeError, ValueError, IndexError, KeyError) as e:
            obs["pre"].append(pre_json)
            obs["err_at"] = si
            obs["err"] = type(e).__name__
            tags.append("step:err")
            obs["state_after_rejection_changed"] = rows(f) != pre_rows
            if obs["state_after_rejection_changed"]:
                tags.append("observation:rejected-norm-left-field-normalised")
            tags += sorted(tagset)
            return obs
        obs["pre"].append(pre_json)
        obs["snaps"].append(snap(f))
        post_rows = rows(f)
        name = f"step {si} ({st['k']})"
        if (f.unit, f.nvdim, list(f.vdims or []), dict(f.vdim_mapping)) != meta or f.mesh != mesh:
            fail(f"{name}: unit, component count, labels, mapping or mesh changed")
        if st["k"] == "set_norm":
            if st["spec"] is None:
                if post_rows != pre_rows:
                    fail(f"{name}: norm = None changed the array")
            else:
                obs["normset"] = True
                check_rescaled(name, pre_rows, post_rows, targets_of(st["spec"], ms), fail)
                tagset.update(nspec_tags(st["spec"], ms))
                tagset.update(cell_tags(pre_rows, targets_of(st["spec"], ms)))
            if not np.array_equal(f.valid, pre_valid):
                fail(f"{name}: setting the norm changed the validity")
        elif st["k"] == "update":
            fresh = df.Field(mesh, nvdim=nv, value=py_vspec(st["value"], nv))
            if not np.array_equal(fresh.array, f.array):
                k = next(i for i, (a, b) in enumerate(zip(rows(fresh), post_rows)) if a != b)
                fail(f"{name}: update_field_values after a norm does not store the plain values (cell {k}: {[float(x) for x in post_rows[k]]} "
                     f"instead of {[float(x) for x in rows(fresh)[k]]})")
            if not np.array_equal(f.valid, pre_valid):
                fail(f"{name}: update_field_values changed the validity")
            obs["nonzero"] = obs["nonzero"] or any(any(x != 0 for x in v) for v in post_rows)
        else:
            if post_rows != pre_rows:
                fail(f"{name}: assigning valid changed the array")
            if st["spec"]["k"] == "norm":
                val = [bool(b) for b in np.asarray(f.valid).reshape(-1).tolist()]
                for k, w in enumerate(post_rows):
                    l2 = sq(w)
                    if (l2 > ATOL * ATOL * (1 + 64 * U) and not val[k]) or (l2 < ATOL * ATOL * (1 - 64 * U) and val[k]):
                        fail(f"{name}: valid='norm': cell {k} with length {math.sqrt(float(l2))} has valid={val[k]}")
                        break
        check_derived(f"after {name}", f, fail, tagset)
    tags += sorted(tagset)
    return obs


def bits_mismatch(obs, outs, strict):
    """implementation vs the rounded kernel run with binary64 rounding (fl64 / sqrt64).  strict: every output number
    must be identical (used for the evidence statistic only).  Otherwise the usual comparator applies - setter 16u,
    norm 4u, orientation 8u per component relative to the model's number, no demand on the orientation of a cell whose
    length is within 64u of the threshold - so that a numerically harmless re-ordering of the library's arithmetic is
    not an alarm."""
    def differs(x, y, rel):
        fx, fy = F(x), F(y)
        return fx != fy and (strict or abs(fx - fy) > rel * abs(fy))

    for k, out in enumerate(outs):
        if differs(obs["norm0"][k], out["norm"], 4 * U):
            return f"bits: norm of cell {k}: impl {float(F(obs['norm0'][k]))!r} vs model {float(F(out['norm']))!r}"
        near = abs(F(out["norm"]) - ATOL) <= 64 * U * ATOL
        if not (near and not strict) and any(differs(x, y, 8 * U) for x, y in zip(obs["orient0"][k], out["orient"])):
            return (f"bits: orientation of cell {k}: impl {[float(F(x)) for x in obs['orient0'][k]]} vs model "
                    f"{[float(F(x)) for x in out['orient']]}")
        if any(differs(x, y, 16 * U) for x, y in zip(obs["set1"][k], out["set"])):
            return (f"bits: cell {k} after the norm assignment: impl {[float(F(x)) for x in obs['set1'][k]]} vs model "
                    f"{[float(F(x)) for x in out['set']]}")
    return None


def run_impl_bits(case, obs, mesh):
    """norm getter, orientation and one norm assignment on arbitrary binary64 cells; every output number is recorded exactly"""
    fail = obs["oracle"].append
    ms, nv = case["mesh"], case["nvdim"]
    n = list(ms["n"])
    a = np.array([[fl(x) for x in row] for row in case["cells"]], dtype=float).reshape(*n, nv)
    f = df.Field(mesh, nvdim=nv, value=a)
    pre = rows(f)
    tagset = set()
    check_derived("bits: fresh field", f, fail, tagset)
    obs["norm0"] = Qs(f.norm.array.reshape(-1).tolist())
    obs["orient0"] = [Qs(r) for r in f.orientation.array.reshape(-1, nv).tolist()]
    ts = [fl(x) for x in case["targets"]]
    f.norm = ts[0] if case["const"] else np.array(ts, dtype=float).reshape(n)
    post = rows(f)
    obs["set1"] = [Qs(r) for r in f.array.reshape(-1, nv).tolist()]
    targets = [fr(x) for x in case["targets"]]
    check_rescaled("bits: norm assignment", pre, post, targets, fail)
    tagset.update(cell_tags(pre, targets))
    obs["nonzero"] = any(any(x != 0 for x in v) for v in pre)
    obs["normset"] = True
    # evidence statistic (not a verdict): is the implementation bit for bit the rounded kernel with binary64 rounding?
    ref = core.driver([dict(op="fl_cells", cells=case["cells"], targets=case["targets"], atol=Q(ATOL))], PID)[0]["ok"]
    ident = bits_mismatch(obs, ref, strict=True) is None
    obs["tags"] += ["bits", "bits:" + ("bit-identical-to-fl64-kernel" if ident else "NOT-bit-identical-to-fl64-kernel"),
                    f"nvdim:{nv}", "bits-target:" + ("const" if case["const"] else "array")] + sorted(tagset)
    return obs


def run_impl_cplx(case, obs, mesh):
    """complex fields: same observations and the same per-cell oracle, on the (re, im) view of the arrays"""
    fail = obs["oracle"].append
    tags = obs["tags"]
    ms, nv = case["mesh"], case["nvdim"]
    tags += ["complex", f"nvdim:{nv}-complex", f"ndim:{len(ms['n'])}", "ctor-norm:" + (case["norm"]["k"] if case["norm"] else "None"),
             "ctor-valid:" + case["valid"]["k"]]
    a = cplx_value(case)
    plain = df.Field(mesh, nvdim=nv, value=a)
    if not np.iscomplexobj(plain.array) or not np.array_equal(plain.array, a):
        fail("Field(mesh, value=<complex array>) does not hold the complex values")
        return obs
    obs["plain"] = dict(view_json(plain), unit=case["unit"])  # the unit is a constructor argument, not part of the values
    try:
        f = df.Field(mesh, nvdim=nv, value=a, norm=py_nspec(case["norm"]), valid=py_valid(case["valid"]), unit=case["unit"])
    except (TypeError, ValueError, IndexError, KeyError) as e:
        obs["err_at"] = -1
        obs["err"] = type(e).__name__
        tags.append("ctor:err")
        return obs
    obs["snaps"].append(snap(f))
    pre, post = rows(plain), rows(f)
    obs["nonzero"] = any(any(x != 0 for x in v) for v in pre)
    obs["normset"] = case["norm"] is not None
    tagset = set(nspec_tags(case["norm"], ms))
    if case["norm"] is not None:
        check_rescaled("complex Field(..., norm=)", pre, post, targets_of(case["norm"], ms), fail)
        tagset.update(cell_tags(pre, targets_of(case["norm"], ms)))
    elif pre != post:
        fail("complex Field(...) without norm does not hold the plain values")
    if f.unit != case["unit"] or f.nvdim != nv or f.mesh != mesh:
        fail("constructor changed unit, nvdim or mesh")
    check_derived("after constructor (complex)", f, fail, tagset)
    for si, st in enumerate(case["steps"]):
        pre_json = view_json(f)
        pre_rows = rows(f)
        pre_valid = np.asarray(f.valid).copy()
        tags.append("step:" + st["k"] + ":" + (st["spec"]["k"] if st.get("spec") else "None"))
        try:
            if st["k"] == "set_norm":
                f.norm = py_nspec(st["spec"])
            else:
                f.valid = py_valid(st["spec"])
        except (TypeError, ValueError, IndexError, KeyError) as e:
            obs["pre"].append(pre_json)
            obs["err_at"] = si
            obs["err"] = type(e).__name__
            tags.append("step:err")
            tags += sorted(tagset)
            return obs
        obs["pre"].append(pre_json)
        obs["snaps"].append(snap(f))
        post_rows = rows(f)
        name = f"step {si} ({st['k']}, complex)"
        if not np.iscomplexobj(f.array):
            fail(f"{name}: the field is no longer complex")
        if st["k"] == "set_norm":
            obs["normset"] = True
            check_rescaled(name, pre_rows, post_rows, targets_of(st["spec"], ms), fail)
            tagset.update(nspec_tags(st["spec"], ms))
            tagset.update(cell_tags(pre_rows, targets_of(st["spec"], ms)))
            if not np.array_equal(f.valid, pre_valid):
                fail(f"{name}: setting the norm changed the validity")
        elif post_rows != pre_rows:
            fail(f"{name}: assigning valid changed the array")
        check_derived(f"after {name}", f, fail, tagset)
    tags += sorted(tagset)
    return obs


# ------------------------------------------------------------------ model side
def drv_nspec(s):
    if s is None:
        return None
    if s["k"] == "field":
        return dict(k="field", field=fieldio.field_json(py_nspec(s)))
    return {k: v for k, v in s.items() if k not in ("as", "py")}


def drv_step(st):
    if st["k"] == "set_norm":
        return dict(k="set_norm", spec=drv_nspec(st["spec"]))
    if st["k"] == "update":
        return dict(k="update", value=st["value"])
    return dict(k="set_valid", spec=st["spec"])


def model_requests(case, obs):
    if "mesh" not in obs:  # the adapter crashed: reported through the oracle channel by core
        return []
    if case.get("kind") == "bits":
        return [dict(op="fl_cells", cells=case["cells"], targets=case["targets"], atol=Q(ATOL))] if "set1" in obs else []
    if case.get("kind") == "cplx":
        if "plain" not in obs:
            return []
        # the constructor as values -> norm -> validity on the (re, im) view of the plain field
        steps0 = ([dict(k="set_norm", spec=drv_nspec(case["norm"]))] if case["norm"] else []) + [dict(k="set_valid", spec=case["valid"])]
        reqs = [dict(op="field_prog", field=obs["plain"], atol=Q(ATOL), steps=steps0)]
        for si, pre in enumerate(obs["pre"]):
            reqs.append(dict(op="field_prog", field=pre, atol=Q(ATOL), steps=[drv_step(case["steps"][si])]))
        return reqs
    reqs = [dict(op="ctor_prog", mesh=obs["mesh"], nvdim=case["nvdim"], value=case["value"], norm=drv_nspec(case["norm"]),
                 valid=case["valid"], unit=case["unit"], atol=Q(ATOL), steps=[])]
    for si, pre in enumerate(obs["pre"]):
        reqs.append(dict(op="field_prog", field=pre, atol=Q(ATOL), steps=[drv_step(case["steps"][si])]))
    return reqs


def cmp_meta(name, a, b, dis):
    for key in ("n",):
        if a["mesh"][key] != b["mesh"][key]:
            dis.append(f"{name}: mesh {key} impl {a['mesh'][key]} vs model {b['mesh'][key]}")
            return False
    for key in ("pmin", "pmax"):
        if [F(x) for x in a["mesh"]["region"][key]] != [F(x) for x in b["mesh"]["region"][key]]:
            dis.append(f"{name}: region {key} impl {a['mesh']['region'][key]} vs model {b['mesh']['region'][key]}")
            return False
    for key in ("dims", "units"):
        if a["mesh"]["region"][key] != b["mesh"]["region"][key]:
            dis.append(f"{name}: region {key} differs")
    if a["nvdim"] != b["nvdim"]:
        dis.append(f"{name}: nvdim impl {a['nvdim']} vs model {b['nvdim']}")
        return False
    if a["vdims"] != b["vdims"]:
        dis.append(f"{name}: vdims impl {a['vdims']} vs model {b['vdims']}")
    if sorted(map(tuple, a["vmap"])) != sorted(map(tuple, b["vmap"])):
        dis.append(f"{name}: vdim_mapping impl {a['vmap']} vs model {b['vmap']}")
    if a["unit"] != b["unit"]:
        dis.append(f"{name}: unit impl {a['unit']} vs model {b['unit']}")
    if a["valid"] != b["valid"]:
        k = next((i for i, (x, y) in enumerate(zip(a["valid"], b["valid"])) if x != y), -1)
        dis.append(f"{name}: validity differs (first at flat cell {k}: impl {a['valid'][k] if k >= 0 else '?'})")
    if len(a["data"]) != len(b["data"]):
        dis.append(f"{name}: cell count impl {len(a['data'])} vs model {len(b['data'])}")
        return False
    return True


def cmp_data(name, a, b, dis, rel_of, skip=None):
    """a: impl field json, b: model field json; rel_of(k) = allowed relative error per component at cell k (0 = exact)"""
    for k, (ra, rb) in enumerate(zip(a["data"], b["data"])):
        if skip is not None and skip(k):
            continue
        if len(ra) != len(rb):
            dis.append(f"{name}: component count at cell {k}")
            return
        rel = rel_of(k)
        for c, (x, y) in enumerate(zip(ra, rb)):
            fx, fy = F(x), F(y)
            if fx != fy and abs(fx - fy) > rel * abs(fy):
                dis.append(f"{name}: value at flat cell {k} comp {c}: impl {float(fx)!r} vs model {float(fy)!r} (allowed rel {float(rel):.1e})")
                return


def exact_len(v):
    """the implementation's norm of the cell vector v is exact under any sane algorithm: at most one non-zero
    component (sqrt(fl(x^2)) == |x| in binary64, and scaled algorithms return |x| as well)"""
    return sum(1 for x in v if x != 0) <= 1


def info_of(cells):
    return [(sq(v), exact_len(v)) for v in cells]


def cell_info(field_json):
    """per cell: (squared length, norm computed exactly by the implementation)"""
    return info_of([[F(x) for x in row] for row in field_json["data"]])


def cmp_snap(name, impl, model, dis, rounded):
    """impl/model: dict(field, norm, orientation).  rounded: the field itself went through the setter's division and
    multiplication (allowed 16u per component against the exact model); otherwise it must equal the model exactly.
    Tolerances are deliberately a few times the derived rounding bounds (setter <= 5u, norm <= 3u, orientation <= 4u)
    so that a numerically harmless re-ordering of the arithmetic is not an alarm; zeros are always exact because
    the bounds are relative per component."""
    if not cmp_meta(name + " field", impl["field"], model["field"], dis):
        return
    frel = 16 * U if rounded else Fraction(0)
    cmp_data(name + " field", impl["field"], model["field"], dis, lambda k: frel)
    info = cell_info(impl["field"])
    if cmp_meta(name + " norm", impl["norm"], model["norm"], dis):
        # the model's norm is computed from the MODEL's field; where that differs by rounding from the implementation's
        # field the norm inherits the relative error
        cmp_data(name + " norm", impl["norm"], model["norm"], dis,
                 lambda k: frel + (Fraction(0) if info[k][1] else 4 * U))
    if cmp_meta(name + " orientation", impl["orientation"], model["orientation"], dis):
        def near(k):  # boundary comparator: length within rounding of the threshold -> either outcome
            l2, single = info[k]
            return (rounded or not single) and abs(l2 - ATOL * ATOL) <= (64 * U + 4 * frel) * ATOL * ATOL
        cmp_data(name + " orientation", impl["orientation"], model["orientation"], dis,
                 lambda k: 2 * frel + (2 * U if info[k][1] else 8 * U), skip=near)


def compare(case, obs, rs):
    dis = []
    if not rs:
        return dis
    r0 = rs[0]
    if case.get("kind") == "bits":
        why = bits_mismatch(obs, r0["ok"], strict=False)
        if why:
            dis.append(why)
        return dis
    if case.get("kind") == "cplx":
        outs = r0["ok"]["steps"]
        bad = any("ok" not in o for o in outs)
        if obs["err_at"] == -1:
            if not bad:
                dis.append(f"complex constructor: impl raised {obs.get('err')} vs model ok")
            return dis
        if bad:
            dis.append(f"complex constructor: impl ok vs model {outs[-1]}")
            return dis
        cmp_snap("complex constructor", obs["snaps"][0], outs[-1]["ok"], dis, case["norm"] is not None)
    elif obs["err_at"] == -1:
        if "err" not in r0:
            dis.append(f"constructor: impl raised {obs.get('err')} vs model ok")
        return dis
    elif "ok" not in r0:
        dis.append(f"constructor: impl ok vs model {r0}")
        return dis
    else:
        cmp_snap("constructor", obs["snaps"][0], r0["ok"]["init"], dis, case["norm"] is not None)
    for si, r in enumerate(rs[1:]):
        st = case["steps"][si]
        out = r["ok"]["steps"][0]
        name = f"step {si} ({st['k']})"
        if obs["err_at"] == si:
            if "err" not in out:
                dis.append(f"{name}: impl raised {obs.get('err')} vs model ok")
            break
        if "ok" not in out:
            dis.append(f"{name}: impl ok vs model {out}")
            break
        cmp_snap(name, obs["snaps"][si + 1], out["ok"], dis, st["k"] == "set_norm" and st["spec"] is not None)
    return dis


def nontrivial(case, obs):
    return bool(obs.get("nonzero")) and bool(obs.get("normset")) and obs.get("err_at") != -1


def known(case, text):
    return None


def search(case, rng):
    for _ in range(200):
        c = gen_prog(rng, "quick", nv=case.get("nvdim") or None)
        yield c
