"""C15 — setting a norm rescales non-zero vectors only; orientation is the unit field."""
import math
import random
from fractions import Fraction

import numpy as np

from . import core, fieldio
from .core import Q, Qs, F

import discretisedfield as df

PID = "C15"
RULE = ("(prog) Field(mesh, nvdim, value, norm, valid) on exact-regime 1-4-d meshes with 1-4 components, then 0-3 steps out of "
        "{norm = spec, update_field_values, valid = spec}: after the constructor and after every step the array, validity and "
        "metadata, Field.norm and Field.orientation are compared with the rational model (the constructor as one model call, every "
        "step as a model call (Model.step) on the implementation's own pre-state). Cell vectors are scaled Pythagorean tuples (rational "
        "length, so the model side is exact), exact zeros, axis-aligned vectors and scalars sitting exactly on / one ulp beside the 1e-8 "
        "threshold, vectors whose every component is at or below 1e-8 while the vector is longer, magnitudes 2^-40..2^498; comparator: "
        "arrays that did not go through the setter and norms of single-component cells exactly, setter results within 16u, norms 4u, "
        "orientation 8u per component (relative, so zeros are exact; the proved bounds are 6u / 15/4 u / 39/8 u). Norm specs: number "
        "(float/int/np.float64), per-cell array of shape n and (*n,1), other broadcastable shapes, nested lists, non-negative polynomial "
        "callable of position vanishing on a plane of cells, zero targets in places, None, and a one-component Field on the same mesh or "
        "on another dyadic mesh whose region contains the receiver's (cells 1/2..3 times as wide, origin shifted so that receiving cell "
        "centres fall inside, on centres and exactly on faces of the norm field's cells; compared exactly, ties included); valid: "
        "None/True/False/mask/'norm' (so norms are assigned on fields with non-trivial masks, in the constructor and afterwards). "
        "(generic) arbitrary binary64 vectors 1e-6..1e150 sent as the exact rationals they are, same comparator. (bits) arbitrary "
        "binary64 cells (components of very different size, zeros, around the threshold) and targets: Field.norm, Field.orientation "
        "and the array after one norm assignment against the rounded kernel (flNormCell/flSetCell/flOrientCell, one rounding after "
        "every operation) run with the executable binary64 rounding fl64 and root sqrt64: whether every output number is "
        "IDENTICAL is recorded per case in the distribution (tag bits:bit-identical-to-fl64-kernel; all cases on this tree); the "
        "verdict uses the 16u/4u/8u comparator, so a numerically harmless re-ordering of the library's arithmetic is not an alarm. (complex) "
        "dtype=complex fields with 1-2 components through the (re, im) view (array.view(float)) against the real model with twice as "
        "many components: constructor with norm and valid, norm / valid assignments. (malformed) wrong shapes / lengths / nvdim=0 / "
        "vector field or non-containing field as norm: ok/err must agree. Oracle on the real code alone, per cell in exact arithmetic "
        "on the outputs (for EVERY cell, valid or not): non-zero -> squared length t^2 within 16u, all 2x2 cross terms vanish within "
        "16u, positive dot product for t>0; zero stays exactly zero; t=0 gives exactly zero; norm: one component, same mesh/unit/validity, "
        "x>=0, x^2 = sum v^2 within 8u, |v| exactly for scalars; orientation: |o|^2 = 1 within 16u above the threshold, exactly zero at "
        "or below it, o*norm = v within 8u; constructor = values then norm then validity (valid='norm' reflects the final lengths); "
        "update_field_values == array of a fresh Field with that value; field as norm: target = value of the norm field's cell "
        "containing the centre (no demand where the centre lies on a face). non-trivial = some non-zero cell and a norm actually set. "
        "ROUND 2: (bits) now 1-7 components (NumPy adds up to seven squares left to right; tolerances of the oracle follow the proved "
        "(n+c)u bounds beyond four components). (cbits) dtype=complex cells with arbitrary binary64 real and imaginary parts, 1-3 complex "
        "components: Field.norm, Field.orientation and one norm assignment against the complex rounded kernel cflNormCell / cflSetCell / "
        "cflOrientCell (|z|^2 = fl(re^2 + fl(im^2)) with a fused multiply-add or fl(fl(re^2)+fl(im^2)) without, division through the "
        "rounded reciprocal, product with the real target) run with fl64 / sqrt64 - verdict: within the 16u/4u/8u comparator of one of "
        "the two variants; which variant is bit-identical is recorded (tag cbits:bit-identical-to-fused-complex-kernel on this machine). "
        "(labels) 30 % of the prog cases pass vdims= (custom labels / [] / None) and vdim_mapping= (dict keyed by the labels / {} / None "
        "/ single entry on an unlabelled scalar field) to the constructor - model: mkFull?; malformed: wrong count, repeated label, "
        "foreign keys, mapping with vdims=[]; labels and mapping of the field, of Field.norm and of Field.orientation are compared "
        "with the model, whose orientation is the constructor call the getter makes (orientation?: an unlabelled vector field comes back "
        "with default labels - recorded as observation, the oracle demands the labels only where the field has some). (dict) meshes with "
        "0-3 subregions (index boxes, overlapping, covering or not); norm (constructor argument and later assignments) = dictionary "
        "{subregion: number | array on the subregion's cells (shape box or box+(1,)) | non-negative polynomial callable, 'default': "
        "number | callable | absent}, keys in any order, some subregions not listed, wrong-shaped leaves: accepted/refused and every "
        "array compared with the model (C02's _as_array model for one component); oracle targets computed independently (first listed "
        "subregion in mesh.subregions order containing the cell, else the default)")
TRUSTED = ["harness/c15.py, harness/fieldio.py + driver JSON glue",
           "np.linalg.norm(axis=-1) is sqrt of the left-to-right sum of squares (observed bit for bit by the 'bits' stream); np.divide(where=, out=), np.isclose(x, 0) (|x| <= 1e-8) and NumPy broadcasting modelled by contract",
           "DataArray.sel(method='nearest') / pandas get_indexer modelled by contract (nearest coordinate, larger index on a tie; checked exactly incl. ties)",
           "the driver instantiates the sqrt parameter with sqrtQ (proved exact on rational squares; floor at 2^-96 relative resolution elsewhere, used only under the 8u comparator); in the 'bits' stream with sqrt64 (validated bit for bit against np.sqrt; proved: relative error <= 2^-53) and fl64 (proved: |fl64 x - x| <= 2^-53 |x|)",
           "complex division by the real norm and complex multiplication by the real target act on real and imaginary part separately (exact in real arithmetic; NumPy's reciprocal-multiply rounding is inside the 16u comparator and modelled exactly by cflDivCell: Smith's algorithm with ratio 0, observed bit for bit by the 'cbits' stream)",
           "whether NumPy forms (conj(z) z).real with a fused multiply-add depends on the machine (SIMD dispatch): both variants are in the model (cflAbs2 fused / plain), proved, and accepted by the comparator",
           "norm given as a dict: harness/c15.py's dictionary JSON -> C02.Spec glue (dleafOfJson / dictOfJson in Drv/C15.lean) and C02's model of _as_array / Mesh.__getitem__ / region2slices (DFV/Model/C02.lean, tied to the code by C02's own correspondence run)"]
ASSUMPTIONS = ["theorems carry SqrtAt sqrt x (non-negative root) as an explicit hypothesis at the arguments used; instantiated by sqrtQ on rational squares and by Real.sqrt on all non-negative reals",
               "rounding theorems carry FlOk fl u (|fl x - x| <= u|x|, the standard model without under/overflow) with u <= 2^-10 and at most four components (table constants) or, for any number n of components, (n+1)^2 u <= 2^-10 (complex cells: (n+2)^2 u <= 2^-10); instantiated by fl64 (proved) and by any Rounding of Lemmas/Rounding.lean; squared lengths stay within 2^-80 .. 2^1011 in the generators",
               "orientation_is_ctor_call assumes the invariant of live fields (arrays of the mesh's shape, every cell with nvdim entries, labels none or nvdim distinct ones, mapping empty or keyed by the labels); satisfied by every field the constructor returns",
               "a field given as norm has the receiver's dimension names in the same order (selection is by name; other cases are outside the model)",
               "a rejected norm assignment leaves the receiver normalised to unit length (the division has already been stored); the property does not speak about rejected norms, recorded as observation only"]
UNPROVED = ["sqrt64 is proved to have relative error <= 2^-53 (its square within 2u+3u^2 of the radicand), not to be the CORRECTLY rounded root, and fl64(sqrt64 x) = sqrt64 x is not proved: the end-to-end bounds for the executable kernel (exec64_*) therefore carry (n+10)u / (n+6)u / (n+8)u instead of the (n+8)u / (n+4)u / (n+6)u proved for an exact root with one rounding (for n <= 4 all are inside the 16u / 16u oracle tolerances; the norm comparator 4u is justified by the exact-root theorem only)",
            "rounding bounds for ANY number n of components: the executable kernel (flSqLen, what the driver runs) adds the squares left to right, which is NumPy's order up to SEVEN components (bit-identical, observed); from eight components on NumPy sums pairwise - for that, and for every other bracketing, the rounded-root bounds are proved order-independently (any_order_exec / exec64_any_order: SqTree), but there is no executable kernel in NumPy's pairwise order, so no bit-for-bit comparison beyond seven components, and the exact-root flavour (flNorm_err_any, flSetCell_any, flOrientCell_any) is stated for the left-to-right order only; all rounding bounds need (n+1)^2 u <= 2^-10 (binary64: n < 2*10^6) and exclude under/overflow",
            "complex fields: the rounded kernel (cfl*) is proved for both ways NumPy forms |z|^2 (fused multiply-add or not) with a ROUNDED root (exec flavour: (n+13)u / (n+7)u / (n+11)u); the exact-root flavour and the per-component table constants are not restated for complex cells",
            "a dictionary norm's targets are C02's _as_array model for one component (setNorm_spec: accepted iff that conversion is, every cell rescaled to entry i++[0]); WHICH value a cell gets (first listed subregion containing it, default elsewhere) is C02's theorems (asArray_dict_first_containing, dict_cell_*, dict_default_*), not re-proved here - only the agreement of the general path with const / arr / constant-default-without-subregions is (asArray1_spec_agrees); dictionary leaves that are Fields and Field defaults are not generated",
            "norm specifications still outside the model: a Field with other dimension names (notImpl), non-numeric types (str -> TypeError), a complex target on a real field (TypeError)",
            "Field.orientation IS proved to be the constructor call with the receiver's labels and mapping (orientation_is_ctor_call) under the invariant of live fields (labels: none or nvdim distinct ones; mapping empty or keyed by the labels); a field that left this invariant through the vdims setter (f.vdims = [] after custom labels, mapping still keyed by them) makes the getter RAISE (orientation_refused_stale_mapping) - the vdims setter itself is not modelled, so this state is not generated (reported as defect witness)",
            "labels that clash with attribute names (ValueError in the vdims setter) and mapping values None are outside mkFull?"]
BUDGET = {"quick": 100, "thorough": 900}

U = Fraction(1, 2 ** 53)
ATOL = Fraction(1e-8)  # the exact binary64 number NumPy uses

PYTH = {
    1: [(1,), (3,), (5,), (7,), (11,)],
    2: [(3, 4), (5, 12), (8, 15), (7, 24), (20, 21), (1, 0), (0, 3)],
    3: [(1, 2, 2), (2, 3, 6), (1, 4, 8), (2, 10, 11), (4, 4, 7), (2, 6, 9), (6, 6, 7), (3, 4, 12), (3, 4, 0), (0, 5, 12), (0, 0, 7), (0, 2, 0)],
    4: [(1, 1, 1, 1), (1, 2, 2, 4), (2, 4, 5, 6), (1, 1, 3, 5), (2, 2, 3, 8), (1, 2, 4, 10), (1, 1, 7, 7), (1, 2, 2, 0), (0, 3, 0, 4), (0, 0, 0, 9), (2, 3, 6, 0)],
}


# ------------------------------------------------------------------ small exact helpers
def fr(s):
    return Fraction(s)


def fl(s):
    """exactly representable rational string -> float (checked)"""
    q = Fraction(s)
    x = float(q)
    if Fraction(x) != q:
        raise core.MachineryError(f"generator produced a non-representable number {s}")
    return x


def poly_eval_frac(terms, p):
    tot = Fraction(0)
    for t in terms:
        mon = Fraction(1)
        for a, e in enumerate(t["e"]):
            mon *= Fraction(p[a]) ** e
        tot += fr(t["c"]) * mon
    return tot


def poly_eval_float(terms, p):
    tot = 0.0
    for t in terms:
        mon = 1.0
        for a, e in enumerate(t["e"]):
            mon *= float(p[a]) ** e
        tot += fl(t["c"]) * mon
    exact = poly_eval_frac(terms, [Fraction(float(x)) for x in p])
    if Fraction(tot) != exact:
        raise core.MachineryError("polynomial callable not exact in binary64 (generator bug)")
    return tot


# ------------------------------------------------------------------ generators
def gen_cell(rng, nv, style):
    """one cell vector as Fractions"""
    if style == "zero":
        return [Fraction(0)] * nv
    if style == "thresh":  # axis-aligned / scalar on or one ulp beside the absolute threshold
        x = rng.choice([1e-8, float(np.nextafter(1e-8, 0)), float(np.nextafter(1e-8, 1)), -1e-8, 2.0 ** -27, 2.0 ** -26,
                        float(np.nextafter(1e-8, 0)) * 0.5, 1.5e-8])
        v = [Fraction(0)] * nv
        v[rng.randrange(nv)] = Fraction(x)
        return v
    if style == "percell" and nv > 1:  # every component at or below the 1e-8 threshold, the vector above it (rational length)
        base, c = {2: ((3, 4), Fraction(19, 2 ** 33)), 3: ((1, 2, 2), Fraction(17, 2 ** 32)), 4: ((1, 1, 1, 1), Fraction(15, 2 ** 31))}[nv]
        perm = list(base)
        rng.shuffle(perm)
        return [Fraction(rng.choice([-1, 1]) * b) * c for b in perm]
    if style in ("tiny", "percell"):  # rational length below / around the threshold
        base = rng.choice(PYTH[nv])
        k = rng.randint(-40, -24)
    else:
        base = rng.choice(PYTH[nv])
        k = rng.choice([0, 0, 0, 1, -1, 3, -3, rng.randint(-20, 30), rng.randint(30, 498)]) if style == "wide" else rng.randint(-3, 4)
    perm = list(base)
    rng.shuffle(perm)
    m = rng.choice([1, 1, 1, 2, 3, 5])
    return [Fraction(rng.choice([-1, 1]) * c * m) * Fraction(2) ** k for c in perm]


def gen_cells(rng, ncell, nv):
    mode = rng.choice(["plain", "plain", "wide", "zeros", "thresh", "tiny", "mixed"])
    out = []
    for _ in range(ncell):
        r = rng.random()
        if mode == "plain":
            st = "plain" if r < 0.9 else "zero"
        elif mode == "wide":
            st = "wide" if r < 0.85 else "zero"
        elif mode == "zeros":
            st = "zero" if r < 0.5 else "plain"
        elif mode == "thresh":
            st = "thresh" if r < 0.45 else "percell" if r < 0.6 else ("plain" if r < 0.9 else "zero")
        elif mode == "tiny":
            st = "tiny" if r < 0.7 else ("plain" if r < 0.9 else "zero")
        else:
            st = rng.choice(["plain", "wide", "zero", "thresh", "tiny", "percell"])
        out.append(gen_cell(rng, nv, st))
    return out


def centres_frac(ms):
    """cell centres in exact arithmetic straight from the mesh spec, C order of the cells"""
    pmin = [Fraction(x) for x in ms["p1"]]
    pmax = [Fraction(x) for x in ms["p2"]]
    lo = [min(a, b) for a, b in zip(pmin, pmax)]
    hi = [max(a, b) for a, b in zip(pmin, pmax)]
    cell = [(b - a) / k for a, b, k in zip(lo, hi, ms["n"])]
    out = []
    for idx in np.ndindex(*ms["n"]):
        out.append([a + (Fraction(i) + Fraction(1, 2)) * c for a, i, c in zip(lo, idx, cell)])
    return out


def gen_target(rng):
    r = rng.random()
    if r < 0.12:
        return Fraction(0)
    m = Fraction(rng.choice([1, 1, 2, 3, 5, 7, 10, 800000]))
    k = rng.choice([0, 0, 0, 1, -1, 2, -4, 10, rng.randint(-30, 40), rng.randint(40, 300)])
    t = m * Fraction(2) ** k
    return t


def gen_poly(rng, ms, scale=Fraction(1)):
    """polynomial of position, degree <= 2, small integer coefficients, NON-NEGATIVE at every point (a norm is a
    length; negative targets are outside the property); often vanishing on a whole plane of cell centres"""
    nd = len(ms["n"])
    cs = centres_frac(ms)
    terms = []

    def unit(ax, k):
        e = [0] * nd
        e[ax] = k
        return e

    if rng.random() < 0.5:  # a * (p_ax - x0)^2, zero on the plane p_ax = x0
        ax = rng.randrange(nd)
        x0 = rng.choice(cs)[ax]
        a = rng.choice([1, 2, 4])
        terms = [dict(c=Q(scale * a), e=unit(ax, 2)), dict(c=Q(-2 * scale * a * x0), e=unit(ax, 1)),
                 dict(c=Q(scale * a * x0 * x0), e=[0] * nd)]
        if rng.random() < 0.4:
            terms.append(dict(c=Q(scale * rng.randint(1, 5)), e=unit(rng.randrange(nd), 2)))
    else:
        terms.append(dict(c=Q(scale * rng.randint(0, 9)), e=[0] * nd))
        for ax in range(nd):
            if rng.random() < 0.7:
                terms.append(dict(c=Q(scale * rng.randint(0, 5)), e=unit(ax, 2)))
    return terms


def gen_signed_poly(rng, ms):
    """polynomial that changes sign (used for VALUES, where any sign is fine)"""
    nd = len(ms["n"])
    cs = centres_frac(ms)
    if rng.random() < 0.5:
        ax = rng.randrange(nd)
        x0 = rng.choice(cs)[ax]
        a = rng.choice([1, 2, -1, 4])
        e = [0] * nd
        e[ax] = 1
        return [dict(c=Q(a), e=e), dict(c=Q(-a * x0), e=[0] * nd)]
    terms = [dict(c=Q(rng.randint(0, 9)), e=[0] * nd)]
    for ax in range(nd):
        if rng.random() < 0.7:
            e = [0] * nd
            e[ax] = rng.choice([1, 1, 2])
            terms.append(dict(c=Q(rng.randint(-3, 5)), e=e))
    return terms


def box_of(ms):
    lo = [min(Fraction(a), Fraction(b)) for a, b in zip(ms["p1"], ms["p2"])]
    hi = [max(Fraction(a), Fraction(b)) for a, b in zip(ms["p1"], ms["p2"])]
    return lo, hi


def gen_field_nspec(rng, ms, malformed=None):
    """a Field as norm: on the receiver's own mesh, or on a different dyadic mesh whose region contains the receiver's
    (cells half / equal / 3/2 / twice / three times as wide, origin shifted by 0, 1/4, 1/2 or 1 of its cells, so that the
    receiver's cell centres fall inside, on the centres of, and exactly on the faces of the norm field's cells)"""
    n = list(ms["n"])
    nd = len(n)
    lo, hi = box_of(ms)
    cell = [(b - a) / k for a, b, k in zip(lo, hi, n)]
    mode = rng.choice(["same", "same", "other", "other", "other"])
    p1, p2, nh = list(lo), list(hi), list(n)
    if mode == "other" or malformed == "notcontain":
        p1, p2, nh = [], [], []
        for a in range(nd):
            ch = cell[a] * rng.choice([Fraction(1, 2), Fraction(1), Fraction(2), Fraction(3), Fraction(3, 2)])
            start = lo[a] - ch * rng.choice([Fraction(0), Fraction(1, 2), Fraction(1), Fraction(1, 4)])
            k = max(1, math.ceil((hi[a] - start) / ch)) + rng.choice([0, 0, 1])
            p1.append(start)
            p2.append(start + k * ch)
            nh.append(k)
        if int(np.prod(nh)) > 400:
            p1, p2, nh = list(lo), list(hi), list(n)
    if malformed == "notcontain":  # cut one cell of the receiver off the norm field's region
        a = rng.randrange(nd)
        p1, p2, nh = list(lo), list(hi), list(n)
        if rng.random() < 0.5:
            p1[a] = lo[a] + cell[a]
        else:
            p2[a] = hi[a] - cell[a]
        if p1[a] >= p2[a]:
            p1[a], p2[a] = lo[a] + cell[a], hi[a] + cell[a]
        nh[a] = 1
    nv = 2 if malformed == "vector" else 1
    ncell = int(np.prod(nh))
    data = [[Q(Fraction(rng.choice([0, 1, 2, 3, 5, 8]), rng.choice([1, 2, 4]))) for _ in range(nv)] for _ in range(ncell)]
    return dict(k="field", nvdim=nv, data=data,
                mesh=dict(p1=[fl(Q(x)) for x in p1], p2=[fl(Q(x)) for x in p2], n=nh, dims=ms.get("dims"), bc="", intcorners=False))


def gen_nspec(rng, ms, malformed=False):
    n = list(ms["n"])
    ncell = int(np.prod(n))
    if malformed:
        kind = rng.choice(["badshape", "lastaxis", "longer", "field-vector", "field-notcontain"])
        if kind.startswith("field-"):
            return gen_field_nspec(rng, ms, kind[6:])
        if kind == "badshape":
            shape = list(n)
            shape[rng.randrange(len(n))] += 1
        elif kind == "lastaxis":
            shape = n + [rng.choice([2, 3])]
        else:
            shape = [2] + n + [1]
        if shape == n:
            shape = n + [2]
        return dict(k="arr", shape=shape, data=[Q(rng.randint(1, 5)) for _ in range(int(np.prod(shape)))], **{"as": "ndarray"})
    kind = rng.choice(["const", "const", "arr", "arr", "col", "poly", "poly", "bcast", "one", "field", "field"])
    if kind == "field":
        return gen_field_nspec(rng, ms)
    if kind == "const":
        return dict(k="const", v=Q(gen_target(rng)), py=rng.choice(["float", "int", "npfloat"]))
    if kind == "arr":
        if rng.random() < 0.3:  # same order of magnitude everywhere
            data = [gen_target(rng) for _ in range(ncell)]
        else:
            data = [Fraction(rng.choice([0, 1, 2, 3, 4, 6, 9]), rng.choice([1, 1, 2, 8])) for _ in range(ncell)]
        return dict(k="arr", shape=n, data=Qs(data), **{"as": rng.choice(["ndarray", "list"])})
    if kind == "col":
        data = [Fraction(rng.choice([0, 1, 2, 3, 5, 12]), rng.choice([1, 4])) for _ in range(ncell)]
        return dict(k="arr", shape=n + [1], data=Qs(data), **{"as": rng.choice(["ndarray", "list"])})
    if kind == "bcast":
        full = n + [1]
        start = rng.randint(0, len(full) - 1)
        shape = [d if rng.random() < 0.7 else 1 for d in full[start:]]
        shape[-1] = 1
        data = [Fraction(rng.choice([0, 1, 2, 3, 5]), rng.choice([1, 2])) for _ in range(int(np.prod(shape)))]
        return dict(k="arr", shape=shape, data=Qs(data), **{"as": "ndarray"})
    if kind == "one":
        return dict(k="arr", shape=[1], data=[Q(gen_target(rng))], **{"as": "list"})
    scale = Fraction(2) ** rng.choice([0, 0, 0, -3, 6, 40])
    terms = gen_poly(rng, ms, scale)
    spec = dict(k="poly", terms=terms)
    if rng.random() < 0.5:
        # a function that returns a Python int wherever its value is a whole number - made so at the first cell (lowest
        # corner, the first one the library asks for) - and floats elsewhere: the element type of the answers says
        # nothing about the other cells
        lo = [min(Fraction(a), Fraction(b)) for a, b in zip(ms["p1"], ms["p2"])]
        hi = [max(Fraction(a), Fraction(b)) for a, b in zip(ms["p1"], ms["p2"])]
        c0 = [a + (b - a) / k / 2 for a, b, k in zip(lo, hi, n)]
        v0 = poly_eval_frac(terms, c0)
        frac = v0 - (v0.numerator // v0.denominator)
        if frac != 0:
            spec["terms"] = terms + [dict(c=Q(-frac), e=[0] * len(n))]
        spec["ret"] = "int-where-whole"
    return spec


def gen_vspec(rng, ms, nv, malformed=False):
    n = list(ms["n"])
    ncell = int(np.prod(n))
    if malformed:
        kind = rng.choice(["veclen", "arrcomp", "polylen"])
        if kind == "veclen":
            return dict(k="vec", v=Qs([1] * (nv + 1)))
        if kind == "arrcomp":
            return dict(k="arr", shape=n, data=[Qs([1] * (nv + 1)) for _ in range(ncell)])
        return dict(k="poly", comps=[[dict(c="1", e=[0] * len(n))] for _ in range(nv + 1)])
    kind = rng.choice(["arr", "arr", "arr", "vec", "poly", "zero"])
    if kind == "arr":
        return dict(k="arr", shape=n, data=[Qs(v) for v in gen_cells(rng, ncell, nv)])
    if kind == "vec":
        return dict(k="vec", v=Qs(gen_cell(rng, nv, rng.choice(["plain", "wide", "plain", "zero"]))))
    if kind == "zero":
        return dict(k="scalar", v="0") if rng.random() < 0.7 or nv > 1 else dict(k="scalar", v=Q(rng.randint(-5, 5)))
    base = gen_cell(rng, nv, "plain")
    q = gen_signed_poly(rng, ms)
    return dict(k="poly", comps=[[dict(c=Q(fr(t["c"]) * b), e=t["e"]) for t in q] for b in base])


def gen_valid(rng, ms, malformed=False):
    n = list(ms["n"])
    ncell = int(np.prod(n))
    if malformed:
        shape = n + [2]
        return dict(k="arr", shape=shape, data=[True] * int(np.prod(shape)))
    kind = rng.choice(["none", "all", "arr", "norm", "norm", "none"])
    if kind == "all":
        return dict(k="all", v=rng.random() < 0.8)
    if kind == "arr":
        return dict(k="arr", shape=n, data=[rng.random() < 0.7 for _ in range(ncell)])
    return dict(k=kind)


LABELS = [["a", "b", "c", "d", "e"], ["p", "q", "r", "s", "t"], ["m0", "m1", "m2", "m3", "m4"]]


def axis_names(ms):
    nd = len(ms["n"])
    return list(ms.get("dims") or (["x", "y", "z"][:nd] if nd <= 3 else [f"x{i}" for i in range(nd)]))


def gen_labels(rng, ms, nv, case, malformed=False):
    """constructor arguments vdims / vdim_mapping: None (defaults), custom labels, [] (no labels); mapping None, {},
    a dict keyed by the labels the field will have (axes may repeat), a single entry on an unlabelled scalar field
    (dropped by the setter).  malformed: wrong number of labels, repeated label, keys that are not the labels,
    a mapping together with vdims=[]"""
    axes = axis_names(ms)
    if malformed:
        kind = rng.choice(["count", "dup", "keys", "nolabels"])
        if kind == "count":
            case["vdims"] = rng.choice(LABELS)[:nv + 1]
        elif kind == "dup":
            case["vdims"] = ["a"] * max(nv, 2)
        elif kind == "keys":
            labs = rng.choice(LABELS)[:nv] if nv > 1 or rng.random() < 0.5 else None
            if labs is not None:
                case["vdims"] = labs
            case["vmap"] = [[k, rng.choice(axes)] for k in (["u", "v", "w", "k", "l"][:max(nv, 2)])]
        else:
            case["vdims"] = []
            case["vmap"] = [[k, rng.choice(axes)] for k in (["a", "b", "c", "d", "e"][:max(nv, 2)])]
        return
    r = rng.random()
    labs = None  # the labels the field will have
    if r < 0.45:
        labs = rng.choice(LABELS)[:nv]
        case["vdims"] = list(labs)
    elif r < 0.6:
        case["vdims"] = []
    elif r < 0.7:
        case["vdims"] = None
        labs = None if nv == 1 else (["x", "y", "z"][:nv] if nv <= 3 else [f"v{i}" for i in range(nv)])
    else:
        labs = None if nv == 1 else (["x", "y", "z"][:nv] if nv <= 3 else [f"v{i}" for i in range(nv)])
    r = rng.random()
    if r < 0.3 and labs is not None:
        keys = list(labs)
        rng.shuffle(keys)
        case["vmap"] = [[k, rng.choice(axes)] for k in keys]
    elif r < 0.4:
        case["vmap"] = []
    elif r < 0.5:
        case["vmap"] = None
    elif r < 0.6 and nv == 1 and labs is None:
        case["vmap"] = [["whatever", rng.choice(axes)]]


def gen_prog(rng, tier, malformed=False, nv=None):
    ms = fieldio.gen_mesh_spec(rng, max_cells=36 if tier == "quick" else 60, nmax=5)
    nv = nv or rng.choice([1, 2, 3, 3, 4])
    case = dict(kind="prog", mesh=ms, nvdim=nv, value=gen_vspec(rng, ms, nv),
                norm=(None if rng.random() < 0.3 else gen_nspec(rng, ms)), valid=gen_valid(rng, ms),
                unit=rng.choice([None, "A/m", "T"]), steps=[])
    for _ in range(rng.choice([0, 1, 1, 2, 2, 3])):
        r = rng.random()
        if r < 0.55:
            case["steps"].append(dict(k="set_norm", spec=(None if rng.random() < 0.05 else gen_nspec(rng, ms))))
        elif r < 0.85:
            case["steps"].append(dict(k="update", value=gen_vspec(rng, ms, nv)))
        else:
            case["steps"].append(dict(k="set_valid", spec=gen_valid(rng, ms)))
    if not malformed and rng.random() < 0.3:
        gen_labels(rng, ms, nv, case)
    if malformed:
        where = rng.choice(["ctor_norm", "ctor_value", "ctor_valid", "nvdim", "step_norm", "step_value", "step_valid", "labels"])
        case["bad"] = where
        if where == "labels":
            gen_labels(rng, ms, nv, case, malformed=True)
        if where == "ctor_norm":
            case["norm"] = gen_nspec(rng, ms, True)
        elif where == "ctor_value":
            case["value"] = gen_vspec(rng, ms, nv, True)
        elif where == "ctor_valid":
            case["valid"] = gen_valid(rng, ms, True)
        elif where == "nvdim":
            case["nvdim"] = 0
            case["value"] = dict(k="scalar", v="0")
        elif where == "step_norm":
            case["steps"].append(dict(k="set_norm", spec=gen_nspec(rng, ms, True)))
        elif where == "step_value":
            case["steps"].append(dict(k="update", value=gen_vspec(rng, ms, nv, True)))
        else:
            case["steps"].append(dict(k="set_valid", spec=gen_valid(rng, ms, True)))
    return case


def gen_subs(rng, n, count):
    """subregions as index boxes [name, k1, k2] (unions of cells): random boxes, the whole mesh, copies of and boxes
    touching / overlapping earlier ones"""
    subs, names = [], rng.sample(["r0", "r1", "r2", "core", "shell"], count)
    for name in names:
        mode = rng.random()
        if subs and mode < 0.15:
            k1, k2 = list(subs[-1][1]), list(subs[-1][2])
        elif mode < 0.25:
            k1, k2 = [0] * len(n), list(n)
        else:
            k1, k2 = [], []
            for k in n:
                a = rng.randint(0, k - 1)
                b = rng.randint(a + 1, k)
                if rng.random() < 0.3:
                    a, b = 0, k
                k1.append(a)
                k2.append(b)
        subs.append([name, k1, k2])
    return subs


def gen_dict_nspec(rng, ms, subs, malformed=False):
    """norm = {subregion name: number | array on the subregion's cells | callable, ..., 'default': number | callable}
    (keys in any order, some subregions not listed, default sometimes absent)"""
    items = []
    for name, k1, k2 in subs:
        if rng.random() < 0.75:
            shape = [b - a for a, b in zip(k1, k2)]
            kind = rng.choice(["const", "const", "arr", "poly"])
            if kind == "const":
                leaf = dict(k="const", v=Q(gen_target(rng)))
            elif kind == "arr":
                shp = shape + ([1] if rng.random() < 0.3 else [])
                leaf = dict(k="arr", shape=shp, data=Qs([Fraction(rng.choice([0, 1, 2, 3, 5, 9]), rng.choice([1, 2, 4])) for _ in range(int(np.prod(shape)))]))
            else:
                leaf = dict(k="poly", terms=gen_poly(rng, ms, Fraction(2) ** rng.choice([0, 0, -2, 5])))
            items.append([name, leaf])
    rng.shuffle(items)
    r = rng.random()
    dflt = None if r < 0.2 else dict(k="const", v=Q(gen_target(rng))) if r < 0.7 else dict(k="poly", terms=gen_poly(rng, ms))
    if malformed and items:
        name, leaf = rng.choice(items)
        k1, k2 = next((a, b) for nm, a, b in subs if nm == name)
        shape = [b - a for a, b in zip(k1, k2)]
        shape[rng.randrange(len(shape))] += 1
        leaf.clear()
        leaf.update(dict(k="arr", shape=shape, data=Qs([1] * int(np.prod(shape)))))
    return dict(k="dict", items=items, default=dflt, subs=subs)


def gen_dictprog(rng, tier):
    """fields on meshes WITH subregions; the norm (constructor argument and / or later assignments) is a dictionary
    over the subregions; other steps as in gen_prog"""
    ms = fieldio.gen_mesh_spec(rng, max_cells=30, nmax=5)
    subs = gen_subs(rng, ms["n"], rng.choice([0, 1, 2, 2, 3]))
    nv = rng.choice([1, 2, 3, 3, 4])
    bad = rng.random() < 0.1
    case = dict(kind="prog", mesh=ms, subs=subs, nvdim=nv, value=gen_vspec(rng, ms, nv),
                norm=(gen_dict_nspec(rng, ms, subs) if rng.random() < 0.5 else None), valid=gen_valid(rng, ms),
                unit=rng.choice([None, "A/m"]), steps=[])
    for _ in range(rng.choice([1, 1, 2])):
        r = rng.random()
        if r < 0.7:
            case["steps"].append(dict(k="set_norm", spec=gen_dict_nspec(rng, ms, subs, malformed=bad and rng.random() < 0.5)))
        elif r < 0.85:
            case["steps"].append(dict(k="set_norm", spec=gen_nspec(rng, ms)))
        else:
            case["steps"].append(dict(k="update", value=gen_vspec(rng, ms, nv)))
    return case


def gen_generic(rng, tier):
    ms = fieldio.gen_mesh_spec(rng, max_cells=24, nmax=4)
    nv = rng.choice([1, 2, 3, 4])
    ncell = int(np.prod(ms["n"]))
    r2 = random.Random(rng.getrandbits(32))
    cells = []
    for _ in range(ncell):
        if r2.random() < 0.1:
            cells.append([0.0] * nv)
            continue
        mag = 10.0 ** r2.uniform(-6, 150) if r2.random() < 0.5 else 10.0 ** r2.uniform(-6, 3)
        v = [r2.gauss(0, 1) for _ in range(nv)]
        if r2.random() < 0.2:
            v[r2.randrange(nv)] = 0.0
        nrm = math.sqrt(sum(x * x for x in v)) or 1.0
        cells.append([x / nrm * mag for x in v])
    t = 10.0 ** r2.uniform(-6, 100) if r2.random() < 0.5 else r2.uniform(0.1, 10)
    spec = rng.choice(["const", "arr"])
    ns = dict(k="const", v=Q(t), py="float") if spec == "const" else \
        dict(k="arr", shape=list(ms["n"]), data=Qs([0.0 if r2.random() < 0.1 else r2.uniform(0.001, 50) for _ in range(ncell)]), **{"as": "ndarray"})
    return dict(kind="prog", generic=True, mesh=ms, nvdim=nv,
                value=dict(k="arr", shape=list(ms["n"]), data=[Qs(v) for v in cells]),
                norm=(ns if rng.random() < 0.5 else None), valid=dict(k=rng.choice(["none", "norm"])), unit=None,
                steps=([] if rng.random() < 0.3 else [dict(k="set_norm", spec=ns)]))


def gen_cplx(rng, tier):
    """complex field (dtype=complex): 1-2 complex components per cell whose (re, im) view is a scaled Pythagorean tuple, an
    exact zero or sits at the threshold; real norm specifications; steps: norm / valid assignments"""
    ms = fieldio.gen_mesh_spec(rng, max_cells=24, nmax=4)
    nv = rng.choice([1, 2])
    ncell = int(np.prod(ms["n"]))
    case = dict(kind="cplx", mesh=ms, nvdim=nv, value=[Qs(v) for v in gen_cells(rng, ncell, 2 * nv)],
                norm=(None if rng.random() < 0.4 else gen_nspec(rng, ms)), valid=gen_valid(rng, ms),
                unit=rng.choice([None, "A/m"]), steps=[])
    for _ in range(rng.choice([0, 1, 1, 2])):
        if rng.random() < 0.8:
            case["steps"].append(dict(k="set_norm", spec=gen_nspec(rng, ms)))
        else:
            case["steps"].append(dict(k="set_valid", spec=gen_valid(rng, ms)))
    return case


def gen_bits(rng, tier):
    """cells for the bit-exact comparison of the rounded kernel (one binary64 rounding after every operation): arbitrary
    binary64 vectors 1e-6..1e150 with components of very different size, exact zeros, vectors around the 1e-8 threshold,
    Pythagorean vectors; constant or per-cell targets (arbitrary binary64, zero in places)"""
    ms = fieldio.gen_mesh_spec(rng, max_cells=16, nmax=4)
    nv = rng.choice([1, 2, 3, 4, 1, 2, 3, 4, 5, 6, 7])  # NumPy adds up to 7 squares left to right (pairwise from 8 on)
    ncell = int(np.prod(ms["n"]))
    r2 = random.Random(rng.getrandbits(32))
    cells = []
    for _ in range(ncell):
        r = r2.random()
        if nv > 4 and r >= 0.08:
            r = max(r, 0.2)  # no Pythagorean table beyond four components
        if r < 0.08:
            cells.append([0.0] * nv)
        elif r < 0.2:
            cells.append([float(x) for x in gen_cell(r2, nv, r2.choice(["plain", "wide", "tiny", "thresh"]))])
        else:
            mag = 10.0 ** r2.uniform(-6, 150) if r < 0.5 else 10.0 ** r2.uniform(-6, 3) if r < 0.85 else 10.0 ** r2.uniform(-8.5, -7.5)
            v = [r2.gauss(0, 1) * 10.0 ** r2.choice([0, 0, 0, -1, -3, -8]) for _ in range(nv)]
            if r2.random() < 0.2:
                v[r2.randrange(nv)] = 0.0
            nrm = math.sqrt(sum(x * x for x in v)) or 1.0
            cells.append([x / nrm * mag for x in v])
    if rng.random() < 0.5:
        t = 10.0 ** r2.uniform(-6, 100) if r2.random() < 0.5 else r2.uniform(0.1, 10)
        targets = [t] * ncell
        const = True
    else:
        targets = [0.0 if r2.random() < 0.1 else (r2.uniform(0.001, 50) if r2.random() < 0.7 else 10.0 ** r2.uniform(-6, 100)) for _ in range(ncell)]
        const = False
    return dict(kind="bits", mesh=ms, nvdim=nv, cells=[Qs(v) for v in cells], targets=Qs(targets), const=const)


def gen_cbits(rng, tier):
    """complex cells for the bit-exact comparison of the complex rounded kernel (|z|^2 with / without a fused
    multiply-add, division through the rounded reciprocal): 1-3 complex components with arbitrary binary64 real and
    imaginary parts of very different size, purely real / purely imaginary components, exact zeros, cells around the
    1e-8 threshold; constant or per-cell real targets.  Cells are stored in the (re, im) view."""
    ms = fieldio.gen_mesh_spec(rng, max_cells=12, nmax=4)
    nv = rng.choice([1, 1, 2, 2, 3])
    ncell = int(np.prod(ms["n"]))
    r2 = random.Random(rng.getrandbits(32))
    cells = []
    for _ in range(ncell):
        r = r2.random()
        if r < 0.08:
            cells.append([0.0] * (2 * nv))
        elif r < 0.2 and nv <= 2:
            cells.append([float(x) for x in gen_cell(r2, 2 * nv, r2.choice(["plain", "wide", "tiny", "thresh"]))])
        else:
            mag = 10.0 ** r2.uniform(-6, 150) if r < 0.5 else 10.0 ** r2.uniform(-6, 3) if r < 0.85 else 10.0 ** r2.uniform(-8.5, -7.5)
            v = [r2.gauss(0, 1) * 10.0 ** r2.choice([0, 0, 0, -1, -3, -8]) for _ in range(2 * nv)]
            if r2.random() < 0.3:  # a purely real or purely imaginary component
                v[r2.randrange(2 * nv)] = 0.0
            nrm = math.sqrt(sum(x * x for x in v)) or 1.0
            cells.append([x / nrm * mag for x in v])
    if rng.random() < 0.5:
        t = 10.0 ** r2.uniform(-6, 100) if r2.random() < 0.5 else r2.uniform(0.1, 10)
        targets = [t] * ncell
        const = True
    else:
        targets = [0.0 if r2.random() < 0.1 else (r2.uniform(0.001, 50) if r2.random() < 0.7 else 10.0 ** r2.uniform(-6, 100)) for _ in range(ncell)]
        const = False
    return dict(kind="cbits", mesh=ms, nvdim=nv, cells=[Qs(v) for v in cells], targets=Qs(targets), const=const)


def cases(rng, tier):
    N = 1 if tier == "quick" else 6
    # small exhaustive scope: every (nvdim, norm-spec kind family) at least once on a 1-d two-cell mesh is covered by the
    # random stream below; the explicit stream makes sure each mechanism appears even for unlucky seeds
    for nv in (1, 2, 3, 4):
        for _ in range(40 * N):
            yield gen_prog(rng, tier, nv=nv)
    for _ in range(900 * N):
        yield gen_prog(rng, tier)
    for _ in range(250 * N):
        yield gen_generic(rng, tier)
    for _ in range(200 * N):
        yield gen_prog(rng, tier, malformed=True)
    for _ in range(100 * N):
        yield gen_cplx(rng, tier)
    for _ in range(120 * N):
        yield gen_bits(rng, tier)
    for _ in range(60 * N):
        yield gen_cbits(rng, tier)
    for _ in range(150 * N):
        yield gen_dictprog(rng, tier)


# ------------------------------------------------------------------ specs -> python objects
def py_dleaf(l):
    if l["k"] == "const":
        return fl(l["v"])
    if l["k"] == "arr":
        return np.array([fl(x) for x in l["data"]], dtype=float).reshape(l["shape"])
    terms = l["terms"]
    return lambda p: poly_eval_float(terms, p)


def mesh_with_subs(ms, subs):
    if not subs:
        return fieldio.build_mesh(ms)
    lo, hi = box_of(ms)
    cell = [(b - a) / k for a, b, k in zip(lo, hi, ms["n"])]
    kw = {"dims": ms["dims"]} if ms.get("dims") else {}
    sr = {}
    for name, k1, k2 in subs:
        sr[name] = df.Region(p1=[fl(Q(a + k * c)) for a, k, c in zip(lo, k1, cell)],
                             p2=[fl(Q(a + k * c)) for a, k, c in zip(lo, k2, cell)], **kw)
    return fieldio.build_mesh(ms, subregions=sr)


def py_nspec(s):
    if s is None:
        return None
    if s["k"] == "dict":
        d = {name: py_dleaf(l) for name, l in s["items"]}
        if s["default"] is not None:
            d["default"] = py_dleaf(s["default"])
        return d
    if s["k"] == "const":
        x = fl(s["v"])
        if s.get("py") == "int" and x == int(x) and abs(x) < 2 ** 62:
            return int(x)
        if s.get("py") == "npfloat":
            return np.float64(x)
        return x
    if s["k"] == "arr":
        a = np.array([fl(x) for x in s["data"]], dtype=float).reshape(s["shape"])
        return a.tolist() if s.get("as") == "list" else a
    if s["k"] == "field":
        hm = fieldio.build_mesh(s["mesh"])
        nv = s["nvdim"]
        a = np.array([[fl(x) for x in row] for row in s["data"]], dtype=float).reshape(*s["mesh"]["n"], nv)
        return df.Field(hm, nvdim=nv, value=a)
    terms = s["terms"]
    if s.get("ret") == "int-where-whole":
        def fn(p):
            v = poly_eval_float(terms, p)
            return int(v) if float(v).is_integer() and abs(v) < 2 ** 53 else v
        return fn
    return lambda p: poly_eval_float(terms, p)


def py_vspec(s, nv):
    if s["k"] == "scalar":
        return fl(s["v"])
    if s["k"] == "vec":
        return tuple(fl(x) for x in s["v"])
    if s["k"] == "arr":
        return np.array([[fl(x) for x in row] for row in s["data"]], dtype=float).reshape(*s["shape"], -1)
    comps = s["comps"]
    return lambda p: tuple(poly_eval_float(ts, p) for ts in comps)


def py_valid(s):
    if s["k"] == "none":
        return None
    if s["k"] == "all":
        return bool(s["v"])
    if s["k"] == "norm":
        return "norm"
    return np.array(s["data"], dtype=bool).reshape(s["shape"])


def targets_of(s, ms):
    """per-cell targets (Fractions, C order of the cells) computed independently of the library; None if unknown"""
    n = list(ms["n"])
    ncell = int(np.prod(n))
    if s["k"] == "const":
        return [fr(s["v"])] * ncell
    if s["k"] == "poly":
        return [poly_eval_frac(s["terms"], p) for p in centres_frac(ms)]
    if s["k"] == "field":
        return field_targets(s, ms)[0]
    if s["k"] == "dict":
        return dict_targets(s, ms)
    a = np.array([fr(x) for x in s["data"]], dtype=object).reshape(s["shape"])
    try:
        if list(a.shape) == n:
            b = a
        else:
            if a.shape[-1] != 1:
                return None
            b = np.broadcast_to(a, (*n, 1))[..., 0]
    except ValueError:
        return None
    return list(b.reshape(-1))


def dict_targets(s, ms):
    """norm given as a dictionary: per cell the value of the first subregion (order of mesh.subregions) that is a key
    and contains the cell - a number, the array entry at the cell's index inside the subregion, the callable at the
    cell centre - else the default; None (no demand, the assignment must be refused) if some cell gets nothing or an
    array leaf has the wrong shape"""
    n = list(ms["n"])
    items = {name: l for name, l in s["items"]}
    cs = centres_frac(ms)
    out = []
    for name, l in s["items"]:
        if l["k"] == "arr":
            k1, k2 = next((a, b) for nm, a, b in s["subs"] if nm == name)
            shape = [b - a for a, b in zip(k1, k2)]
            if l["shape"] not in (shape, shape + [1]):
                return None

    def leaf(l, idx, k1, pos):
        if l["k"] == "const":
            return fr(l["v"])
        if l["k"] == "poly":
            return poly_eval_frac(l["terms"], pos)
        a = np.array([fr(x) for x in l["data"]], dtype=object).reshape(l["shape"])
        j = tuple(i - a0 for i, a0 in zip(idx, k1))
        return a[j + (0,)] if len(l["shape"]) == len(n) + 1 else a[j]

    for idx, pos in zip(np.ndindex(*n), cs):
        t = None
        for name, k1, k2 in s["subs"]:
            if name in items and all(a <= i < b for a, i, b in zip(k1, idx, k2)):
                t = leaf(items[name], idx, k1, pos)
                break
        else:
            if s["default"] is None:
                return None
            t = leaf(s["default"], idx, [0] * len(n), pos)
        out.append(t)
    return out


def field_targets(s, ms):
    """norm given as a Field: per receiving cell the value of the norm field's cell that contains the receiving cell's
    centre, computed in exact arithmetic from the two mesh specs.  Returns (targets, tie): targets[k] is None where the
    centre lies exactly on a face between two cells of the norm field (which neighbour is 'nearest' is not for the
    property to say); tie[k] tells that this happened."""
    if s["nvdim"] != 1:
        return None, None
    hs = s["mesh"]
    lo, hi = box_of(hs)
    nh = hs["n"]
    ch = [(b - a) / k for a, b, k in zip(lo, hi, nh)]
    vals = np.array([fr(row[0]) for row in s["data"]], dtype=object).reshape(nh)
    out, ties = [], []
    for p in centres_frac(ms):
        idx, tie = [], False
        for a in range(len(nh)):
            q = (p[a] - lo[a]) / ch[a]
            if q.denominator == 1 and 0 < q < nh[a]:
                tie = True
            idx.append(min(max(math.floor(q), 0), nh[a] - 1))
        ties.append(tie)
        out.append(None if tie else vals[tuple(idx)])
    return out, ties


# ------------------------------------------------------------------ observation + oracle
def real_view(a, nv):
    """(cells, components) as a real 2-d array; a complex component is the pair (re, im): array.view(float)"""
    a = np.asarray(a)
    if np.iscomplexobj(a):
        return np.ascontiguousarray(a.reshape(-1, nv)).view(float).reshape(-1, 2 * nv)
    return np.asarray(a, dtype=float).reshape(-1, nv)


def rows(f):
    return [[Fraction(float(x)) for x in row] for row in real_view(f.array, f.nvdim).tolist()]


def view_json(f):
    """driver JSON of a field; a complex field is sent as the real field with twice as many components that
    array.view(float) shows (labels and mapping do not enter C15's operations and are left out)"""
    if not np.iscomplexobj(f.array):
        return fieldio.field_json(f)
    return dict(mesh=fieldio.mesh_json(f.mesh), nvdim=2 * int(f.nvdim),
                data=[Qs(row) for row in real_view(f.array, f.nvdim).tolist()],
                valid=[bool(v) for v in np.asarray(f.valid).reshape(-1).tolist()], vdims=None, vmap=[], unit=f.unit)


def snap(f):
    o = f.orientation
    if np.iscomplexobj(f.array) and not np.iscomplexobj(o.array):
        raise core.MachineryError("orientation of a complex field is not complex")
    return dict(field=view_json(f), norm=fieldio.field_json(f.norm), orientation=view_json(o))


def sq(v):
    return sum((x * x for x in v), Fraction(0))


def check_rescaled(name, pre, post, targets, fail, tol=None):
    """the property's promise for a norm assignment, cell by cell, in exact arithmetic on the outputs.  tol: allowed
    relative error of the squared length (16u for the 1-4 components the property ranges over; the streams with more
    components pass the proved bound plus slack)"""
    tol = 16 * U if tol is None else tol
    for k, (v, w) in enumerate(zip(pre, post)):
        t = None if targets is None else targets[k]
        if all(x == 0 for x in v):
            if any(x != 0 for x in w):
                fail(f"{name}: zero cell {k} became {[float(x) for x in w]}")
                return
            continue
        if t is None:
            continue
        if t == 0:
            if any(x != 0 for x in w):
                fail(f"{name}: cell {k} with target norm 0 is {[float(x) for x in w]}")
                return
            continue
        lw = sq(w)
        if abs(lw - t * t) > tol * t * t:
            fail(f"{name}: cell {k} was {[float(x) for x in v]}, target norm {float(t)}, result {[float(x) for x in w]} has squared length {float(lw)}")
            return
        for a in range(len(v)):
            for b in range(a + 1, len(v)):
                x, y = w[a] * v[b], w[b] * v[a]
                if abs(x - y) > 16 * U * max(abs(x), abs(y)):
                    fail(f"{name}: cell {k} direction changed: {[float(x) for x in v]} -> {[float(x) for x in w]}")
                    return
        dot = sum((x * y for x, y in zip(v, w)), Fraction(0))
        if t > 0 and dot <= 0:
            fail(f"{name}: cell {k} points the wrong way: {[float(x) for x in v]} -> {[float(x) for x in w]} for target {float(t)}")
            return


def check_derived(name, f, fail, tagset=None, norm_tol=None):
    """norm getter and orientation of the live field `f`.  norm_tol: allowed relative error of the squared norm (8u for
    1-4 real components; more components / complex parts pass the proved bound)"""
    norm_tol = 8 * U if norm_tol is None else norm_tol
    v = rows(f)
    nv = f.nvdim
    nf = f.norm
    if not (nf.nvdim == 1 and nf.mesh == f.mesh and nf.unit == f.unit and nf.array.shape == (*f.mesh.n, 1)
            and np.array_equal(nf.valid, f.valid) and nf.valid.dtype == bool):
        fail(f"{name}: norm is not a one-component field on the same mesh with the same unit and validity")
        return
    x = [Fraction(float(a)) for a in nf.array.reshape(-1).tolist()]
    for k in range(len(v)):
        l2 = sq(v[k])
        if x[k] < 0 or abs(x[k] * x[k] - l2) > norm_tol * l2:
            fail(f"{name}: norm at cell {k} is {float(x[k])} for vector {[float(a) for a in v[k]]}")
            return
        if len(v[k]) == 1 and x[k] != abs(v[k][0]):
            fail(f"{name}: scalar norm at cell {k} is {float(x[k])}, |value| is {float(abs(v[k][0]))}")
            return
    of = f.orientation
    # labels: demanded only where the field has some (the getter hands vdims=None to the constructor, which re-applies
    # the default labels to an unlabelled vector field; the property does not speak about labels - recorded as a tag)
    if not (of.nvdim == nv and of.mesh == f.mesh and np.array_equal(of.valid, f.valid)
            and (f.vdims is None or list(of.vdims or []) == list(f.vdims)) and of.vdim_mapping == f.vdim_mapping):
        fail(f"{name}: orientation changed mesh, component count, labels, mapping or validity")
        return
    if tagset is not None and f.vdims is None and of.vdims is not None:
        tagset.add("observation:orientation-of-unlabelled-vector-field-has-default-labels")
    o = rows(of)
    for k in range(len(v)):
        l2 = sq(v[k])
        above = l2 > ATOL * ATOL * (1 + 64 * U)
        below = l2 < ATOL * ATOL * (1 - 64 * U)
        if exact_len(v[k]):  # exact norm: no band
            above, below = l2 > ATOL * ATOL, l2 <= ATOL * ATOL
        if tagset is not None:
            tagset.add("orient:zero-vector" if l2 == 0 else "orient:below-threshold" if below else "orient:above" if above else "orient:band")
            if l2 != 0 and exact_len(v[k]) and abs(l2 - ATOL * ATOL) <= ATOL * ATOL / 2 ** 40:
                tagset.add("orient:within-1e-12-of-threshold-exact")
            if above and all(abs(a) <= ATOL for a in v[k]):
                tagset.add("orient:every-component-at-or-below-threshold-vector-above")
        if below:
            if any(a != 0 for a in o[k]):
                fail(f"{name}: orientation at cell {k} (length {math.sqrt(float(l2))} <= 1e-8) is {[float(a) for a in o[k]]}, not zero")
                return
        elif above:
            if abs(sq(o[k]) - 1) > 16 * U:
                fail(f"{name}: orientation at cell {k} has squared length {float(sq(o[k]))}")
                return
        if above or l2 == 0:
            for a, b in zip(o[k], v[k]):
                if abs(a * x[k] - b) > 8 * U * abs(b):
                    fail(f"{name}: orientation*norm at cell {k} gives {float(a * x[k])}, field has {float(b)}")
                    return


def nspec_tags(s, ms):
    if s is not None and s["k"] == "field":
        if s["nvdim"] != 1:
            return ["norm-field:vector"]
        lo, hi = box_of(ms)
        hlo, hhi = box_of(s["mesh"])
        same = (lo, hi, list(ms["n"])) == (hlo, hhi, list(s["mesh"]["n"]))
        ties = field_targets(s, ms)[1]
        return ["norm-field:" + ("same-mesh" if same else "other-mesh")] + (["norm-field:centre-on-face"] if any(ties) else [])
    if s is not None and s["k"] == "dict":
        t = dict_targets(s, ms)
        return ["norm-dict", f"norm-dict:items={len(s['items'])}/subs={len(s['subs'])}",
                "norm-dict:default=" + (s["default"]["k"] if s["default"] else "None"),
                "norm-dict:" + ("well-formed" if t is not None else "some-cell-without-value-or-bad-leaf")] + \
               ["norm-dict-leaf:" + l["k"] for _, l in s["items"]]
    if s is None or s["k"] != "arr":
        return []
    n = list(ms["n"])
    shp = "n" if s["shape"] == n else "col" if s["shape"] == n + [1] else "one" if s["shape"] == [1] else "other"
    return ["norm-arr-shape:" + shp + ("/list" if s.get("as") == "list" else "")]


def cell_tags(pre_rows, targets):
    """which per-cell situations a norm assignment met"""
    out = set()
    for k, v in enumerate(pre_rows):
        z = all(x == 0 for x in v)
        t = None if targets is None else targets[k]
        out.add("cell:zero" if z else "cell:nonzero")
        if not z and t is not None:
            out.add("target:zero" if t == 0 else "target:neg" if t < 0 else "target:pos")
        if not z:
            l2 = sq(v)
            out.add("len:<=1e-8" if l2 <= ATOL * ATOL else "len:<1e-6" if l2 < Fraction(1, 10 ** 12) else
                    "len:>1e100" if l2 > Fraction(10) ** 200 else "len:mid")
    return sorted(out)


def cplx_value(case):
    nv = case["nvdim"]
    a = np.array([[fl(x) for x in row] for row in case["value"]], dtype=float).reshape(-1, 2 * nv)
    return np.ascontiguousarray(a).view(complex).reshape(*case["mesh"]["n"], nv)


def run_impl(case):
    obs = {"oracle": [], "tags": [], "snaps": [], "pre": [], "err_at": None}
    fail = obs["oracle"].append
    ms, nv = case["mesh"], case["nvdim"]
    mesh = mesh_with_subs(ms, case.get("subs"))
    obs["mesh"] = fieldio.mesh_json(mesh)
    tags = obs["tags"]
    if case.get("kind") == "cplx":
        return run_impl_cplx(case, obs, mesh)
    if case.get("kind") == "bits":
        return run_impl_bits(case, obs, mesh)
    if case.get("kind") == "cbits":
        return run_impl_cbits(case, obs, mesh)
    tags.append("generic" if case.get("generic") else ("malformed:" + case["bad"] if case.get("bad") else "exact"))
    tags += [f"nvdim:{nv}", f"ndim:{len(ms['n'])}", "ctor-norm:" + (case["norm"]["k"] if case["norm"] else "None"),
             "ctor-valid:" + case["valid"]["k"], "value:" + case["value"]["k"]]
    kw = {}
    if "vdims" in case:
        kw["vdims"] = case["vdims"]
        tags.append("ctor-vdims:" + ("None" if case["vdims"] is None else "removed" if case["vdims"] == [] else "custom"))
    if "vmap" in case:
        kw["vdim_mapping"] = None if case["vmap"] is None else {k: v for k, v in case["vmap"]}
        tags.append("ctor-vmap:" + ("None" if case["vmap"] is None else "empty" if case["vmap"] == [] else "dict"))
    try:
        f = df.Field(mesh, nvdim=nv, value=py_vspec(case["value"], nv), norm=py_nspec(case["norm"]),
                     valid=py_valid(case["valid"]), unit=case["unit"], **kw)
    except (TypeError, ValueError, IndexError, KeyError) as e:
        obs["err_at"] = -1
        obs["err"] = type(e).__name__
        tags.append("ctor:err")
        return obs
    obs["snaps"].append(snap(f))
    # ---- constructor order: values, then norm, then validity
    plain = df.Field(mesh, nvdim=nv, value=py_vspec(case["value"], nv))
    pre, post = rows(plain), rows(f)
    obs["nonzero"] = any(any(x != 0 for x in v) for v in pre)
    obs["normset"] = case["norm"] is not None
    tagset = set(nspec_tags(case["norm"], ms))
    if case["norm"] is not None:
        check_rescaled("Field(..., norm=)", pre, post, targets_of(case["norm"], ms), fail)
        tagset.update(cell_tags(pre, targets_of(case["norm"], ms)))
    elif pre != post:
        fail("Field(...) without norm does not hold the plain values")
    vk = case["valid"]["k"]
    val = [bool(b) for b in np.asarray(f.valid).reshape(-1).tolist()]
    if vk == "norm":
        for k, w in enumerate(post):
            l2 = sq(w)
            if (l2 > ATOL * ATOL * (1 + 64 * U) and not val[k]) or (l2 < ATOL * ATOL * (1 - 64 * U) and val[k]):
                fail(f"valid='norm' in the constructor: cell {k} with final length {math.sqrt(float(l2))} has valid={val[k]}")
                break
    elif vk == "arr":
        if val != [bool(b) for b in case["valid"]["data"]]:
            fail("constructor validity differs from the mask passed")
    elif val != [not (vk == "all" and not case["valid"]["v"])] * len(val):
        fail("constructor validity is not uniformly the value passed")
    if f.unit != case["unit"] or f.nvdim != nv or f.mesh != mesh:
        fail("constructor changed unit, nvdim or mesh")
    check_derived("after constructor", f, fail, tagset)
    # ---- steps
    for si, st in enumerate(case["steps"]):
        pre_json = fieldio.field_json(f)
        pre_rows = rows(f)
        pre_valid = np.asarray(f.valid).copy()
        meta = (f.unit, f.nvdim, list(f.vdims or []), dict(f.vdim_mapping))
        tags.append("step:" + st["k"] + (":" + (st["spec"]["k"] if st.get("spec") else "None") if st["k"] != "update" else ":" + st["value"]["k"]))
        try:
            if st["k"] == "set_norm":
                f.norm = py_nspec(st["spec"])
            elif st["k"] == "update":
                f.update_field_values(py_vspec(st["value"], nv))
            else:
                f.valid = py_valid(st["spec"])
        except (TypeError, ValueError, IndexError, KeyError) as e:
            obs["pre"].append(pre_json)
            obs["err_at"] = si
            obs["err"] = type(e).__name__
            tags.append("step:err")
            obs["state_after_rejection_changed"] = rows(f) != pre_rows
            if obs["state_after_rejection_changed"]:
                tags.append("observation:rejected-norm-left-field-normalised")
            if st["k"] == "set_norm" and st.get("spec") and st["spec"]["k"] == "dict":
                tags.append("step:err:norm-dict")
            tags += sorted(tagset)
            return obs
        obs["pre"].append(pre_json)
        obs["snaps"].append(snap(f))
        post_rows = rows(f)
        name = f"step {si} ({st['k']})"
        if (f.unit, f.nvdim, list(f.vdims or []), dict(f.vdim_mapping)) != meta or f.mesh != mesh:
            fail(f"{name}: unit, component count, labels, mapping or mesh changed")
        if st["k"] == "set_norm":
            if st["spec"] is None:
                if post_rows != pre_rows:
                    fail(f"{name}: norm = None changed the array")
            else:
                obs["normset"] = True
                check_rescaled(name, pre_rows, post_rows, targets_of(st["spec"], ms), fail)
                tagset.update(nspec_tags(st["spec"], ms))
                tagset.update(cell_tags(pre_rows, targets_of(st["spec"], ms)))
            if not np.array_equal(f.valid, pre_valid):
                fail(f"{name}: setting the norm changed the validity")
        elif st["k"] == "update":
            fresh = df.Field(mesh, nvdim=nv, value=py_vspec(st["value"], nv))
            if not np.array_equal(fresh.array, f.array):
                k = next(i for i, (a, b) in enumerate(zip(rows(fresh), post_rows)) if a != b)
                fail(f"{name}: update_field_values after a norm does not store the plain values (cell {k}: {[float(x) for x in post_rows[k]]} "
                     f"instead of {[float(x) for x in rows(fresh)[k]]})")
            if not np.array_equal(f.valid, pre_valid):
                fail(f"{name}: update_field_values changed the validity")
            obs["nonzero"] = obs["nonzero"] or any(any(x != 0 for x in v) for v in post_rows)
        else:
            if post_rows != pre_rows:
                fail(f"{name}: assigning valid changed the array")
            if st["spec"]["k"] == "norm":
                val = [bool(b) for b in np.asarray(f.valid).reshape(-1).tolist()]
                for k, w in enumerate(post_rows):
                    l2 = sq(w)
                    if (l2 > ATOL * ATOL * (1 + 64 * U) and not val[k]) or (l2 < ATOL * ATOL * (1 - 64 * U) and val[k]):
                        fail(f"{name}: valid='norm': cell {k} with length {math.sqrt(float(l2))} has valid={val[k]}")
                        break
        check_derived(f"after {name}", f, fail, tagset)
    tags += sorted(tagset)
    return obs


def bits_mismatch(obs, outs, strict):
    """implementation vs the rounded kernel run with binary64 rounding (fl64 / sqrt64).  strict: every output number
    must be identical (used for the evidence statistic only).  Otherwise the usual comparator applies - setter 16u,
    norm 4u, orientation 8u per component relative to the model's number, no demand on the orientation of a cell whose
    length is within 64u of the threshold - so that a numerically harmless re-ordering of the library's arithmetic is
    not an alarm."""
    def differs(x, y, rel):
        fx, fy = F(x), F(y)
        return fx != fy and (strict or abs(fx - fy) > rel * abs(fy))

    for k, out in enumerate(outs):
        if differs(obs["norm0"][k], out["norm"], 4 * U):
            return f"bits: norm of cell {k}: impl {float(F(obs['norm0'][k]))!r} vs model {float(F(out['norm']))!r}"
        near = abs(F(out["norm"]) - ATOL) <= 64 * U * ATOL
        if not (near and not strict) and any(differs(x, y, 8 * U) for x, y in zip(obs["orient0"][k], out["orient"])):
            return (f"bits: orientation of cell {k}: impl {[float(F(x)) for x in obs['orient0'][k]]} vs model "
                    f"{[float(F(x)) for x in out['orient']]}")
        if any(differs(x, y, 16 * U) for x, y in zip(obs["set1"][k], out["set"])):
            return (f"bits: cell {k} after the norm assignment: impl {[float(F(x)) for x in obs['set1'][k]]} vs model "
                    f"{[float(F(x)) for x in out['set']]}")
    return None


def run_impl_bits(case, obs, mesh):
    """norm getter, orientation and one norm assignment on arbitrary binary64 cells; every output number is recorded exactly"""
    fail = obs["oracle"].append
    ms, nv = case["mesh"], case["nvdim"]
    n = list(ms["n"])
    a = np.array([[fl(x) for x in row] for row in case["cells"]], dtype=float).reshape(*n, nv)
    f = df.Field(mesh, nvdim=nv, value=a)
    pre = rows(f)
    tagset = set()
    check_derived("bits: fresh field", f, fail, tagset, norm_tol=max(8, nv + 6) * U)
    obs["norm0"] = Qs(f.norm.array.reshape(-1).tolist())
    obs["orient0"] = [Qs(r) for r in f.orientation.array.reshape(-1, nv).tolist()]
    ts = [fl(x) for x in case["targets"]]
    f.norm = ts[0] if case["const"] else np.array(ts, dtype=float).reshape(n)
    post = rows(f)
    obs["set1"] = [Qs(r) for r in f.array.reshape(-1, nv).tolist()]
    targets = [fr(x) for x in case["targets"]]
    check_rescaled("bits: norm assignment", pre, post, targets, fail, tol=max(16, nv + 12) * U)
    tagset.update(cell_tags(pre, targets))
    obs["nonzero"] = any(any(x != 0 for x in v) for v in pre)
    obs["normset"] = True
    # evidence statistic (not a verdict): is the implementation bit for bit the rounded kernel with binary64 rounding?
    ref = core.driver([dict(op="fl_cells", cells=case["cells"], targets=case["targets"], atol=Q(ATOL))], PID)[0]["ok"]
    ident = bits_mismatch(obs, ref, strict=True) is None
    obs["tags"] += ["bits", "bits:" + ("bit-identical-to-fl64-kernel" if ident else "NOT-bit-identical-to-fl64-kernel"),
                    f"nvdim:{nv}", "bits-target:" + ("const" if case["const"] else "array")] + sorted(tagset)
    return obs


def cbits_verdict(obs, outs, strict):
    """the complex kernel has two legitimate variants (NumPy's SIMD loop forms |z|^2 with a fused multiply-add where the
    machine has one): a mismatch is a mismatch with BOTH.  Returns (text or None, name of the variant that matched)"""
    whys = {}
    for variant in ("fused", "plain"):
        why = bits_mismatch(obs, [o[variant] for o in outs], strict)
        if why is None:
            return None, variant
        whys[variant] = why
    return "complex " + whys["fused"], None


def run_impl_cbits(case, obs, mesh):
    """norm getter, orientation and one norm assignment on arbitrary complex binary64 cells (dtype=complex); every
    output number is recorded exactly, arrays in the (re, im) view"""
    fail = obs["oracle"].append
    ms, nv = case["mesh"], case["nvdim"]
    n = list(ms["n"])
    a = np.array([[fl(x) for x in row] for row in case["cells"]], dtype=float).reshape(-1, 2 * nv)
    a = np.ascontiguousarray(a).view(complex).reshape(*n, nv)
    f = df.Field(mesh, nvdim=nv, value=a)
    if not np.iscomplexobj(f.array) or not np.array_equal(f.array, a):
        fail("Field(mesh, value=<complex array>) does not hold the complex values")
        return obs
    pre = rows(f)
    tagset = set()
    check_derived("cbits: fresh complex field", f, fail, tagset, norm_tol=(nv + 7) * U)
    obs["norm0"] = Qs(f.norm.array.reshape(-1).tolist())
    obs["orient0"] = [Qs(r) for r in real_view(f.orientation.array, nv).tolist()]
    ts = [fl(x) for x in case["targets"]]
    f.norm = ts[0] if case["const"] else np.array(ts, dtype=float).reshape(n)
    if not np.iscomplexobj(f.array):
        fail("cbits: the field is no longer complex after a norm assignment")
        return obs
    post = rows(f)
    obs["set1"] = [Qs(r) for r in real_view(f.array, nv).tolist()]
    targets = [fr(x) for x in case["targets"]]
    check_rescaled("cbits: norm assignment", pre, post, targets, fail, tol=max(16, nv + 13) * U)
    tagset.update(cell_tags(pre, targets))
    obs["nonzero"] = any(any(x != 0 for x in v) for v in pre)
    obs["normset"] = True
    ref = core.driver([dict(op="cfl_cells", cells=case["cells"], targets=case["targets"], atol=Q(ATOL))], PID)[0]["ok"]
    why, variant = cbits_verdict(obs, ref, strict=True)
    obs["tags"] += ["cbits", "cbits:" + (f"bit-identical-to-{variant}-complex-kernel" if why is None else "NOT-bit-identical-to-complex-kernel"),
                    f"nvdim:{nv}-complex", "bits-target:" + ("const" if case["const"] else "array")] + sorted(tagset)
    return obs


def run_impl_cplx(case, obs, mesh):
    """complex fields: same observations and the same per-cell oracle, on the (re, im) view of the arrays"""
    fail = obs["oracle"].append
    tags = obs["tags"]
    ms, nv = case["mesh"], case["nvdim"]
    tags += ["complex", f"nvdim:{nv}-complex", f"ndim:{len(ms['n'])}", "ctor-norm:" + (case["norm"]["k"] if case["norm"] else "None"),
             "ctor-valid:" + case["valid"]["k"]]
    a = cplx_value(case)
    plain = df.Field(mesh, nvdim=nv, value=a)
    if not np.iscomplexobj(plain.array) or not np.array_equal(plain.array, a):
        fail("Field(mesh, value=<complex array>) does not hold the complex values")
        return obs
    obs["plain"] = dict(view_json(plain), unit=case["unit"])  # the unit is a constructor argument, not part of the values
    try:
        f = df.Field(mesh, nvdim=nv, value=a, norm=py_nspec(case["norm"]), valid=py_valid(case["valid"]), unit=case["unit"])
    except (TypeError, ValueError, IndexError, KeyError) as e:
        obs["err_at"] = -1
        obs["err"] = type(e).__name__
        tags.append("ctor:err")
        return obs
    obs["snaps"].append(snap(f))
    pre, post = rows(plain), rows(f)
    obs["nonzero"] = any(any(x != 0 for x in v) for v in pre)
    obs["normset"] = case["norm"] is not None
    tagset = set(nspec_tags(case["norm"], ms))
    if case["norm"] is not None:
        check_rescaled("complex Field(..., norm=)", pre, post, targets_of(case["norm"], ms), fail)
        tagset.update(cell_tags(pre, targets_of(case["norm"], ms)))
    elif pre != post:
        fail("complex Field(...) without norm does not hold the plain values")
    if f.unit != case["unit"] or f.nvdim != nv or f.mesh != mesh:
        fail("constructor changed unit, nvdim or mesh")
    check_derived("after constructor (complex)", f, fail, tagset)
    for si, st in enumerate(case["steps"]):
        pre_json = view_json(f)
        pre_rows = rows(f)
        pre_valid = np.asarray(f.valid).copy()
        tags.append("step:" + st["k"] + ":" + (st["spec"]["k"] if st.get("spec") else "None"))
        try:
            if st["k"] == "set_norm":
                f.norm = py_nspec(st["spec"])
            else:
                f.valid = py_valid(st["spec"])
        except (TypeError, ValueError, IndexError, KeyError) as e:
            obs["pre"].append(pre_json)
            obs["err_at"] = si
            obs["err"] = type(e).__name__
            tags.append("step:err")
            tags += sorted(tagset)
            return obs
        obs["pre"].append(pre_json)
        obs["snaps"].append(snap(f))
        post_rows = rows(f)
        name = f"step {si} ({st['k']}, complex)"
        if not np.iscomplexobj(f.array):
            fail(f"{name}: the field is no longer complex")
        if st["k"] == "set_norm":
            obs["normset"] = True
            check_rescaled(name, pre_rows, post_rows, targets_of(st["spec"], ms), fail)
            tagset.update(nspec_tags(st["spec"], ms))
            tagset.update(cell_tags(pre_rows, targets_of(st["spec"], ms)))
            if not np.array_equal(f.valid, pre_valid):
                fail(f"{name}: setting the norm changed the validity")
        elif post_rows != pre_rows:
            fail(f"{name}: assigning valid changed the array")
        check_derived(f"after {name}", f, fail, tagset)
    tags += sorted(tagset)
    return obs


# ------------------------------------------------------------------ model side
def drv_nspec(s):
    if s is None:
        return None
    if s["k"] == "field":
        return dict(k="field", field=fieldio.field_json(py_nspec(s)))
    return {k: v for k, v in s.items() if k not in ("as", "py", "subs")}


def drv_step(st):
    if st["k"] == "set_norm":
        return dict(k="set_norm", spec=drv_nspec(st["spec"]))
    if st["k"] == "update":
        return dict(k="update", value=st["value"])
    return dict(k="set_valid", spec=st["spec"])


def model_requests(case, obs):
    if "mesh" not in obs:  # the adapter crashed: reported through the oracle channel by core
        return []
    if case.get("kind") == "bits":
        return [dict(op="fl_cells", cells=case["cells"], targets=case["targets"], atol=Q(ATOL))] if "set1" in obs else []
    if case.get("kind") == "cbits":
        return [dict(op="cfl_cells", cells=case["cells"], targets=case["targets"], atol=Q(ATOL))] if "set1" in obs else []
    if case.get("kind") == "cplx":
        if "plain" not in obs:
            return []
        # the constructor as values -> norm -> validity on the (re, im) view of the plain field
        steps0 = ([dict(k="set_norm", spec=drv_nspec(case["norm"]))] if case["norm"] else []) + [dict(k="set_valid", spec=case["valid"])]
        reqs = [dict(op="field_prog", field=obs["plain"], atol=Q(ATOL), steps=steps0)]
        for si, pre in enumerate(obs["pre"]):
            reqs.append(dict(op="field_prog", field=pre, atol=Q(ATOL), steps=[drv_step(case["steps"][si])]))
        return reqs
    reqs = [dict(op="ctor_prog", mesh=obs["mesh"], nvdim=case["nvdim"], value=case["value"], norm=drv_nspec(case["norm"]),
                 valid=case["valid"], unit=case["unit"], atol=Q(ATOL), steps=[], vdims=case.get("vdims"), vmap=case.get("vmap"))]
    for si, pre in enumerate(obs["pre"]):
        reqs.append(dict(op="field_prog", field=pre, atol=Q(ATOL), steps=[drv_step(case["steps"][si])]))
    return reqs


def cmp_meta(name, a, b, dis, labels=True):
    for key in ("n",):
        if a["mesh"][key] != b["mesh"][key]:
            dis.append(f"{name}: mesh {key} impl {a['mesh'][key]} vs model {b['mesh'][key]}")
            return False
    for key in ("pmin", "pmax"):
        if [F(x) for x in a["mesh"]["region"][key]] != [F(x) for x in b["mesh"]["region"][key]]:
            dis.append(f"{name}: region {key} impl {a['mesh']['region'][key]} vs model {b['mesh']['region'][key]}")
            return False
    for key in ("dims", "units"):
        if a["mesh"]["region"][key] != b["mesh"]["region"][key]:
            dis.append(f"{name}: region {key} differs")
    if a["nvdim"] != b["nvdim"]:
        dis.append(f"{name}: nvdim impl {a['nvdim']} vs model {b['nvdim']}")
        return False
    if labels and a["vdims"] != b["vdims"]:
        dis.append(f"{name}: vdims impl {a['vdims']} vs model {b['vdims']}")
    if labels and sorted(map(tuple, a["vmap"])) != sorted(map(tuple, b["vmap"])):
        dis.append(f"{name}: vdim_mapping impl {a['vmap']} vs model {b['vmap']}")
    if a["unit"] != b["unit"]:
        dis.append(f"{name}: unit impl {a['unit']} vs model {b['unit']}")
    if a["valid"] != b["valid"]:
        k = next((i for i, (x, y) in enumerate(zip(a["valid"], b["valid"])) if x != y), -1)
        dis.append(f"{name}: validity differs (first at flat cell {k}: impl {a['valid'][k] if k >= 0 else '?'})")
    if len(a["data"]) != len(b["data"]):
        dis.append(f"{name}: cell count impl {len(a['data'])} vs model {len(b['data'])}")
        return False
    return True


def cmp_data(name, a, b, dis, rel_of, skip=None):
    """a: impl field json, b: model field json; rel_of(k) = allowed relative error per component at cell k (0 = exact)"""
    for k, (ra, rb) in enumerate(zip(a["data"], b["data"])):
        if skip is not None and skip(k):
            continue
        if len(ra) != len(rb):
            dis.append(f"{name}: component count at cell {k}")
            return
        rel = rel_of(k)
        for c, (x, y) in enumerate(zip(ra, rb)):
            fx, fy = F(x), F(y)
            if fx != fy and abs(fx - fy) > rel * abs(fy):
                dis.append(f"{name}: value at flat cell {k} comp {c}: impl {float(fx)!r} vs model {float(fy)!r} (allowed rel {float(rel):.1e})")
                return


def exact_len(v):
    """the implementation's norm of the cell vector v is exact under any sane algorithm: at most one non-zero
    component (sqrt(fl(x^2)) == |x| in binary64, and scaled algorithms return |x| as well)"""
    return sum(1 for x in v if x != 0) <= 1


def info_of(cells):
    return [(sq(v), exact_len(v)) for v in cells]


def cell_info(field_json):
    """per cell: (squared length, norm computed exactly by the implementation)"""
    return info_of([[F(x) for x in row] for row in field_json["data"]])


def cmp_snap(name, impl, model, dis, rounded, labels=True):
    """impl/model: dict(field, norm, orientation).  rounded: the field itself went through the setter's division and
    multiplication (allowed 16u per component against the exact model); otherwise it must equal the model exactly.
    Tolerances are deliberately a few times the derived rounding bounds (setter <= 5u, norm <= 3u, orientation <= 4u)
    so that a numerically harmless re-ordering of the arithmetic is not an alarm; zeros are always exact because
    the bounds are relative per component."""
    if not cmp_meta(name + " field", impl["field"], model["field"], dis):
        return
    frel = 16 * U if rounded else Fraction(0)
    cmp_data(name + " field", impl["field"], model["field"], dis, lambda k: frel)
    info = cell_info(impl["field"])
    if cmp_meta(name + " norm", impl["norm"], model["norm"], dis):
        # the model's norm is computed from the MODEL's field; where that differs by rounding from the implementation's
        # field the norm inherits the relative error
        cmp_data(name + " norm", impl["norm"], model["norm"], dis,
                 lambda k: frel + (Fraction(0) if info[k][1] else 4 * U))
    if "err" in model["orientation"]:
        dis.append(f"{name}: Field.orientation: impl returned a field vs model (the getter's constructor call) {model['orientation']}")
    elif cmp_meta(name + " orientation", impl["orientation"], model["orientation"], dis, labels=labels):
        def near(k):  # boundary comparator: length within rounding of the threshold -> either outcome
            l2, single = info[k]
            return (rounded or not single) and abs(l2 - ATOL * ATOL) <= (64 * U + 4 * frel) * ATOL * ATOL
        cmp_data(name + " orientation", impl["orientation"], model["orientation"], dis,
                 lambda k: 2 * frel + (2 * U if info[k][1] else 8 * U), skip=near)


def compare(case, obs, rs):
    dis = []
    if not rs:
        return dis
    r0 = rs[0]
    if case.get("kind") == "bits":
        why = bits_mismatch(obs, r0["ok"], strict=False)
        if why:
            dis.append(why)
        return dis
    if case.get("kind") == "cbits":
        why, _ = cbits_verdict(obs, r0["ok"], strict=False)
        if why:
            dis.append(why)
        return dis
    if case.get("kind") == "cplx":
        outs = r0["ok"]["steps"]
        bad = any("ok" not in o for o in outs)
        if obs["err_at"] == -1:
            if not bad:
                dis.append(f"complex constructor: impl raised {obs.get('err')} vs model ok")
            return dis
        if bad:
            dis.append(f"complex constructor: impl ok vs model {outs[-1]}")
            return dis
        cmp_snap("complex constructor", obs["snaps"][0], outs[-1]["ok"], dis, case["norm"] is not None, labels=False)
    elif obs["err_at"] == -1:
        if "err" not in r0:
            dis.append(f"constructor: impl raised {obs.get('err')} vs model ok")
        return dis
    elif "ok" not in r0:
        dis.append(f"constructor: impl ok vs model {r0}")
        return dis
    else:
        cmp_snap("constructor", obs["snaps"][0], r0["ok"]["init"], dis, case["norm"] is not None)
    for si, r in enumerate(rs[1:]):
        st = case["steps"][si]
        out = r["ok"]["steps"][0]
        name = f"step {si} ({st['k']})"
        if obs["err_at"] == si:
            if "err" not in out:
                dis.append(f"{name}: impl raised {obs.get('err')} vs model ok")
            break
        if "ok" not in out:
            dis.append(f"{name}: impl ok vs model {out}")
            break
        cmp_snap(name, obs["snaps"][si + 1], out["ok"], dis, st["k"] == "set_norm" and st["spec"] is not None,
                 labels=case.get("kind") != "cplx")  # a complex field goes to the model as its (re, im) view: other component count, so other default labels
    return dis


def nontrivial(case, obs):
    return bool(obs.get("nonzero")) and bool(obs.get("normset")) and obs.get("err_at") != -1


def known(case, text):
    return None


def search(case, rng):
    for _ in range(200):
        c = gen_prog(rng, "quick", nv=case.get("nvdim") or None)
        yield c
