"""C01 — mesh cells tile the region; index<->coordinate maps are mutually inverse."""
import itertools
import keyword
from fractions import Fraction

import numpy as np

from . import core
from .core import Q, Qs, F, Fs

import discretisedfield as df

PID = "C01"
RULE = ("meshes drawn from two regimes: 'exact' (dyadic corners/cells, 1-4 dims, every float op exact -> "
        "implementation must EQUAL the rational model) and 'tol' (scales 1e-12..1e6, offsets up to 1e3 edges, "
        "thirds/tenths -> 2^-40 relative bound; indices by the PROVED band: computed and exact index may differ only as "
        "the two cells sharing an interior face the point is within 16*u*q cells of - theorem point2index_fl_band proves "
        "5*u*q for the code's operation sequence); per mesh: all indices, "
        "iteration, cells, vertices, coordinate field (code-shaped reshape/broadcast model), index2point on every index "
        "and on out-of-range ones, point2index on centres, vertices, interior, cell and region faces approached to within "
        "0, 1, 2, 3, 64 ulp from both sides at every scale (near-face), face +- {1/2, 0.999, 1.001, 3} tolerance and "
        "outside points, constructor by cell size (exact divisor, 1e-6 off, 10 % off, too large). non-trivial = at least "
        "2 cells and at least one probe point not on a cell centre; distinct by hash of the canonical case")
TRUSTED = ["correspondence harness harness/c01.py + driver JSON glue",
           "binary64 arithmetic of NumPy obeys the standard model (tolerance regime)"]
ASSUMPTIONS = ["theorems are about exact rational arithmetic or about an abstract rounding fl with |fl x - x| <= u|x| "
               "(binary64 = C15.fl64, u = 2^-53, exponent range not modelled); IEEE binary64 as executed by NumPy is assumed "
               "to satisfy that model on the scales the property quantifies over",
               "fidelity of the binary64 model (filled in by each run)"]
UNPROVED = [
    "rounded arithmetic covers Mesh.cell, point2index, index2point, cells, vertices and Region.__contains__ (theorems "
    "quotient_fl_err, point2index_fl_exact/_band/_tol/_rejects, contains_fl_sandwich, roundtrip_fl_code, cells_fl_err, "
    "vertices_fl_err, cells_fl_roundtrip, *_binary64) under the standard model of rounding; the outcome of the containment "
    "test is bracketed - accepted inside (1-4u) x tolerance, refused outside (1+5u) x tolerance - and not determined by a "
    "theorem inside that bracket (relative width 9u): the harness probes the threshold at (1 +- 1e-3) only",
    "coordinate_field in rounded arithmetic copies the numbers of Mesh.cells (cells_fl_err, cells_fl_roundtrip apply to "
    "them); its reshape/broadcast is proved in exact arithmetic only (coord_field_refines); dV, volume, cells, vertices in "
    "rounded arithmetic have explicit bounds (dV_fl_err, volume_fl_err, volume_tiles_fl, dV_binary64, cells_fl_err, "
    "vertices_fl_err) for the evaluation order NumPy uses now - the harness compares them with the looser 2^-40 bound so "
    "that another evaluation order is no alarm",
    "Mesh(cell=...) in rounded arithmetic (np.remainder / np.round on floats): by_cell_ok_iff is exact arithmetic; the "
    "harness stays clear of the 0.1 % threshold (cells exact, 1e-6 off, 10 % off, far off) because no property pins it",
    "non-finite coordinates (inf, nan) are outside rational arithmetic: judged by the oracle on the implementation alone",
    "binary64 overflow / underflow: C15.fl64 has an unbounded exponent; the property's scales (1e-12 .. 1e6) stay far from both",
]
_FID = {"agree": 0, "differ": 0, "band": 0, "band5": 0, "cell_agree": 0, "cell_differ": 0, "lin_agree": 0, "lin_differ": 0, "vol_agree": 0, "vol_differ": 0}
# dimension names: single letters, multi-character, mixed case, non-ASCII - all plain identifiers
NAMES = ["x", "y", "z", "a", "b", "c", "u", "v", "w", "t", "theta", "r1", "Zz", "\u00e9", "x0", "len"]
# names Region and Mesh accept although they are not plain identifiers: Mesh.cells / vertices / coordinate_field build a
# namedtuple from them and raise (open finding D126); everything else on such a mesh must still hold
NONIDENT = ["class", "in", "lambda", "_x", "1a", "a b", "x.1", ""]


def _plain(name):
    return isinstance(name, str) and name.isidentifier() and not keyword.iskeyword(name) and not name.startswith("_")
U64 = Fraction(1, 2 ** 53)   # unit roundoff of binary64
BAND = 16                    # harness band in units of u*q; Props/C01.point2index_fl_band proves 5 for the code as it is


def gen_mesh(rng, regime):
    ndim = rng.choice([1, 2, 2, 3, 3, 4])
    n = [rng.choice([1, 2, 3, 4, 5, 7]) for _ in range(ndim)]
    while np.prod(n) > 300:
        n[rng.randrange(ndim)] = 1
    if regime == "exact":
        cell = [Fraction(rng.choice([1, 3, 5]), 2 ** rng.randint(0, 4)) for _ in range(ndim)]
        pmin = [Fraction(rng.randint(-200, 200), 2 ** rng.randint(0, 3)) for _ in range(ndim)]
        pmax = [a + k * c for a, k, c in zip(pmin, n, cell)]
        pmin_f, pmax_f = [float(x) for x in pmin], [float(x) for x in pmax]
    else:
        scale = 10.0 ** rng.randint(-12, 6)
        edge = [scale * rng.choice([1.0, 1 / 3, 0.7, 2.5, 10.0]) * rng.uniform(0.5, 2) for _ in range(ndim)]
        off = rng.choice([0.0, 1.0, -1.0, 17.3, -1000.0, 1000.0])
        pmin_f = [off * e + rng.uniform(-1, 1) * e for e in edge]
        pmax_f = [a + e for a, e in zip(pmin_f, edge)]
    if regime == "big":
        # many cells along an axis: indices are sampled, not enumerated
        ndim = rng.choice([1, 1, 2])
        n = [rng.choice([100, 500, 1000, 3000, 50000, 200000]) for _ in range(ndim)]
        if ndim == 2:
            n[rng.randrange(2)] = rng.choice([1, 2, 4])
        cell = [Fraction(rng.choice([1, 3, 5]), 2 ** rng.randint(0, 4)) for _ in range(ndim)]
        pmin = [Fraction(rng.randint(-200, 200), 2 ** rng.randint(0, 3)) for _ in range(ndim)]
        pmax = [a + k * c for a, k, c in zip(pmin, n, cell)]
        pmin_f, pmax_f = [float(x) for x in pmin], [float(x) for x in pmax]
    swap = [rng.random() < 0.3 for _ in range(ndim)]
    p1 = [b if s else a for a, b, s in zip(pmin_f, pmax_f, swap)]
    p2 = [a if s else b for a, b, s in zip(pmin_f, pmax_f, swap)]
    dims = rng.sample(NAMES, ndim) if rng.random() < 0.5 else None
    # boundary conditions have no say in the lattice: periodic directions (a subset of the single-letter axis names) and
    # the two words are generated so that every index / containment question is also asked on such meshes
    dd = dims or (["x", "y", "z"][:ndim] if ndim <= 3 else [])
    r = rng.random()
    bc = "".join(d for d in dd if len(d) == 1 and rng.random() < 0.6) if r < 0.3 else (rng.choice(["neumann", "dirichlet"]) if r < 0.4 else "")
    return dict(regime=regime, p1=p1, p2=p2, n=n, dims=dims, bc=bc)


def cases(rng, tier):
    nm = 120 if tier == "quick" else 1500
    for k in range(nm):
        c = gen_mesh(rng, ("exact", "tol", "exact", "tol", "big")[k % 5])
        c["sub"] = rng.getrandbits(32)
        yield c
    # constructor by cell size far from the origin (offsets of 1e9 ... 1e15 edge lengths): the tolerant containment
    # test no longer notices a cell that is far larger than the edge there (finding D101)
    for k in range(24 if tier == "quick" else 200):
        nd = rng.choice([1, 1, 2, 3])
        off = [rng.choice([-1, 1]) * float(2 ** rng.randint(30, 50)) for _ in range(nd)]
        edge = [float(rng.choice([1, 2, 3, 4, 6])) for _ in range(nd)]
        yield dict(regime="farcell", p1=off, p2=[o + e for o, e in zip(off, edge)], n=[1] * nd, dims=None,
                   factors=[rng.choice([1000.0, 4096.0, 3.0, 1.5, 1.0, 0.5, 1e6]) for _ in range(nd)], sub=rng.getrandbits(32))
    # corner points given as Python ints, edges so long that their product exceeds 2**63 (volume and cell volume are
    # products of the edge lengths: integer arithmetic must not wrap around; finding D124)
    for k in range(16 if tier == "quick" else 150):
        nd = rng.choice([2, 3, 3, 4])
        n = [rng.randint(1, 4) for _ in range(nd)]
        lim = {2: 10 ** 10, 3: 5 * 10 ** 6, 4: 2 * 10 ** 5}[nd]
        edge = [nn * rng.randint(lim // 50, lim) for nn in n]
        p1 = [rng.randint(-lim, lim) for _ in range(nd)]
        yield dict(regime="tol", stream="intbig", p1=p1, p2=[a + e for a, e in zip(p1, edge)], n=n,
                   dims=rng.sample(NAMES, nd) if rng.random() < 0.3 else None, sub=rng.getrandbits(32))
    # dimension names that are no plain identifiers (finding D126: cells / vertices / coordinate_field raise; the rest holds)
    for k in range(8 if tier == "quick" else 40):
        c = gen_mesh(rng, "exact")
        nd = len(c["n"])
        dims = rng.sample(NAMES, nd)
        for ax in rng.sample(range(nd), rng.randint(1, nd)):
            dims[ax] = NONIDENT[(k + ax) % len(NONIDENT)]
        if len(set(dims)) == nd:
            c.update(dims=dims, stream="nonident", sub=rng.getrandbits(32), bc="")
            yield c
    # corner points given as small Python ints with cells that are not whole numbers (two or four cells per unit, or
    # thirds): centres, vertices and the coordinate field are non-integers although the corners are integer-typed
    for k in range(14 if tier == "quick" else 120):
        nd = rng.choice([1, 2, 3, 3])
        ie = [rng.randint(1, 4) for _ in range(nd)]
        exact = k % 2 == 0
        n = [e * rng.choice([1, 2, 4]) if exact else rng.choice([1, 3, 5, 7]) for e in ie]
        p1 = [rng.randint(-9, 9) for _ in range(nd)]
        yield dict(regime="exact" if exact else "tol", stream="intfrac", p1=p1, p2=[a + e for a, e in zip(p1, ie)], n=n,
                   dims=None, sub=rng.getrandbits(32))
    # malformed stream
    yield dict(regime="exact", p1=[0.0, 0.0], p2=[1.0, 0.0], n=[1, 1], dims=None, sub=1)   # zero edge
    yield dict(regime="exact", p1=[0.0, 0.0], p2=[1.0, 1.0], n=[1, 0], dims=None, sub=2)   # zero count
    yield dict(regime="exact", p1=[0.0, 0.0], p2=[1.0, 1.0], n=[1, 1, 1], dims=None, sub=3)  # wrong length
    yield dict(regime="exact", p1=[0.0, 0.0], p2=[1.0, 1.0], n=[2, 2], dims=["x", "x"], sub=4)  # duplicate dims


def _err(fn):
    try:
        return ("ok", fn())
    except Exception as e:  # canonicalised: the property says "rejected", not how
        return ("err", type(e).__name__)


def mesh_json(m):
    return dict(region=dict(pmin=Qs(m.region.pmin), pmax=Qs(m.region.pmax), dims=list(m.region.dims),
                            units=list(m.region.units), tol=Q(m.region.tolerance_factor)),
                n=[int(k) for k in m.n], bc=m.bc)


def probe_points(m, rng, regime):
    """points with a tag saying what the property demands of them"""
    pts = []
    ndim = m.region.ndim
    pmin, pmax, cell, n = m.region.pmin, m.region.pmax, m.cell, m.n
    edges = pmax - pmin
    tol = float(np.min(edges)) * m.region.tolerance_factor
    for _ in range(6):
        pts.append(("interior", [float(a + rng.random() * e) for a, e in zip(pmin, edges)]))
    # vertices (cell faces): lower face inclusive
    for _ in range(6):
        j = [rng.randint(0, int(k)) for k in n]
        pts.append(("vertex", [float(a + jj * c) if jj < k else float(b) for a, b, jj, c, k in zip(pmin, pmax, j, cell, n)]))
    pts.append(("vertex", [float(x) for x in pmin]))
    pts.append(("vertex", [float(x) for x in pmax]))
    # tolerance band around faces of the region
    for ax in range(ndim):
        base = [float(a + 0.5 * e) for a, e in zip(pmin, edges)]
        for side, sgn in (("lo", -1), ("hi", +1)):
            face = float(pmin[ax]) if side == "lo" else float(pmax[ax])
            for mult, tag in ((0.5, "band-in"), (0.999, "band-in"), (1.001, "band-out"), (3.0, "band-out")):
                p = list(base)
                # absolute + relative part of np.isclose
                p[ax] = face + sgn * mult * (tol + m.region.tolerance_factor * abs(face))
                if p[ax] != face:
                    pts.append((tag, p))
        p = list(base)
        p[ax] = float(pmax[ax] + 0.37 * edges[ax])
        pts.append(("outside", p))
        p = list(base)
        p[ax] = float(pmin[ax] - 2.0 * edges[ax])
        pts.append(("outside", p))
    # cell faces approached to within a few units in the last place, at whatever scale and offset the mesh has: here
    # rounding decides the floor (theorems point2index_fl_exact / point2index_fl_band: the computed index is the exact
    # one unless the point is within relative distance 5u of an interior face, and then the neighbour across that face)
    for ax in range(ndim):
        k = int(n[ax])
        for j in {0, k, rng.randint(0, k), rng.randint(0, k), min(k, 1), max(0, k - 1)}:
            base = [float(a + rng.random() * e) for a, e in zip(pmin, edges)]
            face = float(pmin[ax] + j * cell[ax]) if j < k else float(pmax[ax])
            if rng.random() < 0.5:
                face = float(pmin[ax] + (float(pmax[ax]) - float(pmin[ax])) * j / k) if j < k else face
            for ul in (-64, -3, -2, -1, 0, 1, 2, 3, 64):
                x = face
                for _ in range(abs(ul)):
                    x = float(np.nextafter(x, np.inf if ul > 0 else -np.inf))
                q = list(base)
                q[ax] = x
                pts.append(("near-face", q))
    if regime == "big":
        for _ in range(40):
            i = [rng.choice([k - 1, rng.randrange(k), min(k - 1, 10 ** rng.randint(0, 5))]) for k in n]
            fr = rng.choice([0.5, 0.9, 0.99, 0.999, 0.9999, 0.99999, 0.25, 1e-3, 1e-5])
            pts.append(("interior", [float(a + (ii + fr) * c) for a, ii, c in zip(pmin, i, cell)]))
    pts.append(("wrong-length", [0.0] * (ndim + 1)))
    return pts


def run_farcell(case):
    obs = {"oracle": [], "tags": ["regime:farcell", f"ndim:{len(case['p1'])}"]}
    r = df.Region(p1=case["p1"], p2=case["p2"])
    obs["region_state"] = dict(pmin=Qs(r.pmin), pmax=Qs(r.pmax), dims=list(r.dims), units=list(r.units))
    c = [float(e) * f for e, f in zip(r.edges, case["factors"])]
    st, mm = _err(lambda: df.Mesh(region=r, cell=c))
    obs["far"] = dict(cell=Qs(c), st=st, n=([int(k) for k in mm.n] if st == "ok" else None))
    obs["tags"].append("farcell:" + st)
    if st == "ok":
        n = np.asarray(mm.n)
        if not (n >= 1).all() or not np.all(np.isfinite(mm.cell)):
            obs["oracle"].append(f"Mesh(cell={c}) on edges {r.edges.tolist()} at offset {case['p1']} accepted with n={n.tolist()}, "
                                 f"cell={mm.cell.tolist()}")
        elif any(f > 1.001 for f in case["factors"]):
            obs["oracle"].append(f"cell {c} larger than the edges {r.edges.tolist()} accepted (n={n.tolist()})")
    elif all(f == 1.0 or f == 0.5 for f in case["factors"]):
        obs["oracle"].append(f"mesh by commensurate cell {c} on edges {r.edges.tolist()} refused at offset {case['p1']}")
    return obs


def run_impl(case):
    if case["regime"] == "farcell":
        return run_farcell(case)
    rng = __import__("random").Random(case["sub"])
    obs = {"oracle": [], "tags": [f"regime:{case['regime']}", f"ndim:{len(case['p1'])}", f"stream:{case.get('stream', 'base')}"]}
    kw = {} if case["dims"] is None else {"dims": case["dims"]}
    st, r = _err(lambda: df.Region(p1=case["p1"], p2=case["p2"], **kw))
    obs["region"] = st
    if st == "err":
        obs["tags"].append("region-rejected")
        return obs
    st2, r2 = _err(lambda: df.Region(p1=case["p2"], p2=case["p1"], **kw))
    if st2 != "ok" or not (np.array_equal(r.pmin, r2.pmin) and np.array_equal(r.pmax, r2.pmax)):
        obs["oracle"].append("corner order changes the region")
    obs["region_state"] = dict(pmin=Qs(r.pmin), pmax=Qs(r.pmax), dims=list(r.dims), units=list(r.units))
    st, m = _err(lambda: df.Mesh(region=r, n=case["n"], bc=case.get("bc", "")))
    obs["tags"].append("bc:" + ("periodic" if case.get("bc") and case["bc"] not in ("neumann", "dirichlet") else (case.get("bc") or "none")))
    obs["mesh"] = st
    if st == "err":
        obs["tags"].append("mesh-rejected")
        return obs
    obs["mesh_json"] = mesh_json(m)
    n = [int(k) for k in m.n]
    ndim = len(n)
    obs["tags"].append("cells:" + ("1" if len(m) == 1 else "2-20" if len(m) <= 20 else ">20"))
    obs["cell"] = Qs(m.cell)
    obs["len"] = len(m)
    obs["dV"] = Q(m.dV)
    obs["volume"] = Q(m.region.volume)
    obs["volume_is_int"] = isinstance(m.region.volume, int)
    if abs(float(m.region.volume) - len(m) * float(m.dV)) > 1e-9 * abs(len(m) * float(m.dV)):
        obs["oracle"].append(f"the cells do not tile the region: volume {m.region.volume!r} != len * dV = {len(m) * float(m.dV)!r}")
    big = len(m) > 400
    obs["big"] = big
    if not big:
        idxs = [tuple(int(x) for x in i) for i in m.indices]
        obs["iter"] = [Qs(p) for p in m]
        got = {}
        for what, fn in (("cells", lambda: [Qs(getattr(m.cells, d)) for d in m.region.dims]),
                         ("vertices", lambda: [Qs(getattr(m.vertices, d)) for d in m.region.dims]),
                         ("coordinate_field", lambda: [Qs(m.coordinate_field().array[i]) for i in idxs])):
            st_, val = _err(fn)
            got[what] = val if st_ == "ok" else None
            if st_ != "ok":
                obs["oracle"].append(f"Mesh.{what} raises {val} on a mesh with dimension names {list(m.region.dims)}: "
                                     f"this description of the lattice is not available")
                obs["tags"].append("lattice-view-raises:" + what)
        obs["cells"], obs["vertices"], obs["coord_field"] = got["cells"], got["vertices"], got["coordinate_field"]
        # ---- oracle on the implementation alone
        exp = [tuple(reversed(t)) for t in itertools.product(*[range(k) for k in reversed(n)])]
        if idxs != exp or len(idxs) != len(m) or len(set(idxs)) != len(idxs):
            obs["oracle"].append("indices are not the first-dimension-fastest enumeration of all cells")
    else:
        # sampled indices: ends, around powers of ten, random
        idxs = set()
        for _ in range(60):
            idxs.add(tuple(rng.choice([0, k - 1, rng.randrange(k), min(k - 1, 10 ** rng.randint(0, 5) + rng.randint(0, 3)),
                                       max(0, k - 1 - rng.randint(0, 3))]) for k in n))
        idxs = sorted(idxs)
        cells_ax = [getattr(m.cells, d) for d in m.region.dims]
        verts_ax = [getattr(m.vertices, d) for d in m.region.dims]
        obs["cells_at"] = [[Q(cells_ax[ax][i[ax]]) for ax in range(ndim)] for i in idxs]
        obs["verts_at"] = [[Q(verts_ax[ax][i[ax]]) for ax in range(ndim)] for i in idxs]
        obs["ax_len"] = [[len(c) for c in cells_ax], [len(v) for v in verts_ax]]
    obs["indices"] = [list(i) for i in idxs]
    obs["i2p"] = [Qs(m.index2point(i)) for i in idxs]
    for i in idxs:
        c = m.index2point(i)
        if tuple(m.point2index(c)) != i:
            obs["oracle"].append(f"round trip index->centre->index fails at {i}: {m.point2index(c)}")
            break
    bad_idx = []
    for ax in range(ndim):
        for v in (-1, n[ax], n[ax] + 3):
            j = [0] * ndim
            j[ax] = v
            bad_idx.append(j)
    bad_idx.append([0] * (ndim + 1))
    obs["bad_idx"] = bad_idx
    obs["bad_idx_res"] = [_err(lambda j=j: m.index2point(j))[0] for j in bad_idx]
    if any(s == "ok" for s in obs["bad_idx_res"]):
        obs["oracle"].append("out-of-range index accepted by index2point")
    pts = probe_points(m, rng, case["regime"])
    obs["pts"] = [(t, Qs(p)) for t, p in pts]
    res = []
    cell = m.cell
    atol = float(np.min(m.region.edges)) * m.region.tolerance_factor
    for tag, p in pts:
        st, i = _err(lambda p=p: m.point2index(p))
        inreg = bool(p in m.region) if tag != "wrong-length" else False
        res.append(dict(st=st, idx=(list(i) if st == "ok" else None), inreg=inreg))
        if tag in ("interior", "vertex", "band-in", "near-face"):
            if st != "ok":
                obs["oracle"].append(f"point of the region ({tag}) rejected: {p}")
            else:
                for ax in range(ndim):
                    lo = m.region.pmin[ax] + i[ax] * cell[ax]
                    hi = lo + cell[ax]
                    slack = 4 * (atol + m.region.tolerance_factor * abs(p[ax])) + 4e-16 * (abs(p[ax]) + abs(lo))
                    if not (0 <= i[ax] < n[ax]) or p[ax] < lo - slack or p[ax] > hi + slack:
                        obs["oracle"].append(f"cell {i} does not contain point {p} (axis {ax}, {tag})")
                        break
        elif tag in ("outside", "band-out", "wrong-length"):
            if st == "ok":
                obs["oracle"].append(f"point outside the region ({tag}) accepted: {p} -> {i}")
    obs["p2i"] = res
    # non-finite coordinates are outside every region
    for bad in (float("inf"), float("-inf"), float("nan")):
        for ax in range(ndim):
            q = [float(a + 0.5 * e) for a, e in zip(m.region.pmin, m.region.edges)]
            q[ax] = bad
            try:
                inside = bool(q in m.region)
            except Exception:
                inside = False
            stq, iq = _err(lambda q=q: m.point2index(q))
            if inside or stq == "ok":
                obs["oracle"].append(f"point with a non-finite coordinate accepted: {q} in region={inside}, point2index -> {iq if stq == 'ok' else stq}")
    # ---- constructor by cell size
    byc = []
    for kind, fac in (("exact", 1.0), ("off1e-6", 1 + 1e-6), ("off-1e-6", 1 - 1e-6), ("off10pc", 1.1), ("too-large", None),
                      ("nc1", 1.37), ("nc2", 0.7), ("nc3", 0.913)):
        if fac is None:
            c = [float(e) * 1.5 for e in m.region.edges]
        else:
            c = [float(x) * fac for x in cell]
        st, mm = _err(lambda c=c: df.Mesh(region=r, cell=c))
        byc.append(dict(kind=kind, cell=Qs(c), st=st, n=([int(k) for k in mm.n] if st == "ok" else None)))
        if kind == "exact" and (st != "ok" or [int(k) for k in mm.n] != n):
            obs["oracle"].append(f"mesh by commensurate cell ({kind}) gives {st} {byc[-1]['n']}, expected n={n}")
        if kind == "too-large" and st == "ok":
            obs["oracle"].append("cell larger than the region accepted")
        if kind.startswith("nc") and st == "ok":
            # accepted although some edge is clearly not a whole number of cells (remainder between 10 % and 90 % of a cell)
            for e, cc in zip(m.region.edges, c):
                q = Fraction(float(e)) / Fraction(cc)
                fr = q - (q.numerator // q.denominator)
                if Fraction(1, 10) < fr < Fraction(9, 10):
                    obs["oracle"].append(f"Mesh(cell={c}) accepted although edge {float(e)} is {float(q):.4f} cells (n={byc[-1]['n']})")
                    break
    obs["bycell"] = byc
    return obs


def model_requests(case, obs):
    if case["regime"] == "farcell":
        return [dict(op="mesh_mk_cell", region=dict(obs["region_state"], tol=Q(1e-12)), cell=obs["far"]["cell"])]
    reqs = [dict(op="region_mk", p1=Qs(case["p1"]), p2=Qs(case["p2"]), dims=case["dims"])]
    if obs.get("region") != "ok":
        return reqs
    reg = dict(obs["region_state"], tol=Q(1e-12))
    reqs.append(dict(op="mesh_mk_n", region=reg, n=case["n"]))
    if obs.get("mesh") != "ok":
        return reqs
    mj = obs["mesh_json"]
    if obs["big"]:
        reqs.append(dict(op="mesh_info_big", mesh=mj, idxs=obs["indices"]))
    else:
        reqs.append(dict(op="mesh_info", mesh=mj))
    for i in obs["indices"]:
        reqs.append(dict(op="index2point", mesh=mj, index=i))
    for j in obs["bad_idx"]:
        reqs.append(dict(op="index2point", mesh=mj, index=j))
    for tag, p in obs["pts"]:
        reqs.append(dict(op="point2index", mesh=mj, p=p))
        reqs.append(dict(op="region_contains", region=mj["region"], p=p))
        if tag != "wrong-length":
            reqs.append(dict(op="point2index_fl", mesh=mj, p=p))
    for b in obs["bycell"]:
        reqs.append(dict(op="mesh_mk_cell", region=mj["region"], cell=b["cell"]))
    return reqs


def _cmp_list(name, impl, model, exact, dis, scale=0.0):
    if len(impl) != len(model):
        dis.append(f"{name}: length {len(impl)} vs model {len(model)}")
        return
    for k, (a, b) in enumerate(zip(impl, model)):
        ok = (F(a) == F(b)) if exact else core.close(float(F(a)), b, rel=2**-40, scale=scale)
        if not ok:
            dis.append(f"{name}[{k}]: impl {a} vs model {b}")
            return


def compare(case, obs, rs):
    dis = []
    if case["regime"] == "farcell":
        r, b = rs[0], obs["far"]
        if ("ok" in r) != (b["st"] == "ok"):
            dis.append(f"Mesh(cell={b['cell']}) far from the origin: impl {b['st']} vs model {r}")
        elif "ok" in r and r["ok"]["n"] != b["n"]:
            dis.append(f"Mesh(cell=...) far from the origin: n impl {b['n']} vs model {r['ok']['n']}")
        return dis
    exact = case["regime"] in ("exact", "big")
    fid = _FID
    it = iter(rs)
    r = next(it)
    if ("ok" in r) != (obs["region"] == "ok"):
        dis.append(f"Region(p1,p2): impl {obs['region']} vs model {r}")
        return dis
    if obs["region"] != "ok":
        return dis
    ms = r["ok"]
    st = obs["region_state"]
    if ms["pmin"] != st["pmin"] or ms["pmax"] != st["pmax"] or ms["dims"] != st["dims"] or ms["units"] != st["units"]:
        dis.append(f"region state: impl {st} vs model {ms}")
    r = next(it)
    if ("ok" in r) != (obs["mesh"] == "ok"):
        dis.append(f"Mesh(region,n): impl {obs['mesh']} vs model {r}")
        return dis
    if obs["mesh"] != "ok":
        return dis
    info = next(it)
    pm = obs["mesh_json"]["region"]
    scale = max(abs(float(F(x))) for x in pm["pmin"] + pm["pmax"])
    _cmp_list("cell", obs["cell"], info["cell"], exact, dis, scale=0.0)
    fid["cell_agree" if obs["cell"] == info["cell_fl"] else "cell_differ"] += 1
    fid["vol_agree" if obs["dV"] == info["dV_fl"] and (obs.get("volume_is_int") or obs["volume"] == info["volume_fl"])
        else "vol_differ"] += 1
    if obs.get("volume_is_int") and F(obs["volume"]) != F(info["volume"]):
        # integer corner points: the code returns a Python integer, which claims exactness (fix 0ec4b24a, theorem volume_int)
        dis.append(f"volume of an integer-cornered region: impl {obs['volume']} vs model {info['volume']} (exact integers)")
    for key in ("dV", "volume"):  # products of up to four floats: a few ulp, never exact in the "big" regime
        ok = core.close(float(F(obs[key])), info[key], rel=2**-40, scale=0.0)
        if not ok:
            dis.append(f"{key}: impl {obs[key]} vs model {info[key]}")
    if obs["len"] != info["len"]:
        dis.append(f"len: impl {obs['len']} vs model {info['len']}")
    if obs["big"]:
        if obs["ax_len"] != info["ax_len"]:
            dis.append(f"lengths of cells/vertices lists: impl {obs['ax_len']} vs model {info['ax_len']}")
        for k, i in enumerate(obs["indices"]):
            _cmp_list(f"cells at {i}", obs["cells_at"][k], info["cells_at"][k], exact, dis, scale=scale)
            _cmp_list(f"vertices at {i}", obs["verts_at"][k], info["verts_at"][k], exact, dis, scale=scale)
    else:
        if obs["indices"] != info["indices"]:
            dis.append("indices: iteration order differs from model")
        if not info["indices_spec"]:
            dis.append("model: code-shaped indices differ from spec enumeration")
        if not info["coord_spec"]:
            dis.append("model: code-shaped coordinate field (reshape + broadcast) differs from its spec")
        for name in ("cells", "vertices"):
            if obs[name] is None:      # the accessor raised: reported by the oracle (see run_impl)
                continue
            fid["lin_agree" if obs[name] == info[name + "_fl"] else "lin_differ"] += 1
            if len(obs[name]) != len(info[name]):
                dis.append(f"{name}: {len(obs[name])} axes vs model {len(info[name])}")
            for ax, (a, b) in enumerate(zip(obs[name], info[name])):
                _cmp_list(f"{name}[{ax}]", a, b, exact, dis, scale=scale)
        if len(obs["iter"]) != len(info["iter"]):
            dis.append(f"iter: {len(obs['iter'])} points vs model {len(info['iter'])}")
        for k, (a, b) in enumerate(zip(obs["iter"], info["iter"])):
            _cmp_list(f"iter[{k}]", a, b, exact, dis, scale=scale)
            if obs["coord_field"] is not None:
                _cmp_list(f"coordinate_field[{k}]", obs["coord_field"][k], info["coord"][k], exact, dis, scale=scale)
    for k, a in enumerate(obs["i2p"]):
        r = next(it)
        if "ok" not in r:
            dis.append(f"index2point({obs['indices'][k]}): impl ok vs model {r}")
        else:
            _cmp_list(f"index2point({obs['indices'][k]})", a, r["ok"], exact, dis, scale=scale)
    for j, s in zip(obs["bad_idx"], obs["bad_idx_res"]):
        r = next(it)
        if ("ok" in r) != (s == "ok"):
            dis.append(f"index2point({j}): impl {s} vs model {r}")
    for (tag, p), res in zip(obs["pts"], obs["p2i"]):
        r = next(it)
        rc = next(it)
        rf = next(it) if tag != "wrong-length" else None
        if rf is not None:
            # fidelity of the binary64 model (every operation of point2index / __contains__ rounded by C15.fl64): recorded,
            # not demanded - another evaluation order is no defect as long as the proved band below is respected
            same = ("ok" in rf) == (res["st"] == "ok") and rf.get("ok") == res["idx"] and rf["inreg"] == res["inreg"]
            fid["agree" if same else "differ"] += 1
        if tag != "wrong-length" and rc["ok"] != res["inreg"]:
            dis.append(f"point in region {p} ({tag}): impl {res['inreg']} vs model {rc['ok']}")
        if ("ok" in r) != (res["st"] == "ok"):
            dis.append(f"point2index({p}) ({tag}): impl {res['st']} vs model {r}")
        elif "ok" in r and r["ok"] != res["idx"]:
            # boundary comparator = the band of theorem point2index_fl_band: computed and exact index may differ only
            # when they are the two cells sharing an interior face j and the point is within BAND*u*q cells of that face
            # (q = exact (x - pmin)/cell; proved constant 5 for the code's operation sequence, BAND = 16 granted)
            okb = False
            if not exact or tag == "near-face":   # a point moved by a few ulp off a dyadic face is not a dyadic input
                okb = True
                for ax, (a, b) in enumerate(zip(res["idx"], r["ok"])):
                    if a == b:
                        continue
                    q = F(r["q"][ax])
                    j = max(a, b)
                    if not (abs(a - b) == 1 and abs(q - j) <= BAND * U64 * abs(q)):
                        okb = False
                    elif abs(q - j) <= 5 * U64 * abs(q):
                        fid["band5"] += 1
            if not okb:
                dis.append(f"point2index({p}) ({tag}): impl {res['idx']} vs model {r['ok']} (exact quotient {[float(F(x)) for x in r['q']]})")
            else:
                fid["band"] += 1
    ASSUMPTIONS[-1] = (f"fidelity of the binary64 model in this run (recorded, not demanded): point2index / 'in region' computed with "
                       f"every operation rounded by C15.fl64 agreed bit for bit with the implementation on {fid['agree']} of "
                       f"{fid['agree'] + fid['differ']} probe points, Mesh.cell on {fid['cell_agree']} of "
                       f"{fid['cell_agree'] + fid['cell_differ']} meshes, Mesh.cells / Mesh.vertices (linspaceFl) on {fid['lin_agree']} of "
                       f"{fid['lin_agree'] + fid['lin_differ']} lists of lists, dV / volume (prodFl) on {fid['vol_agree']} of "
                       f"{fid['vol_agree'] + fid['vol_differ']} meshes; {fid['band']} probe points got the neighbouring cell of the "
                       f"exact index ({fid['band5']} axis-wise inside the proved band 5*u*q, the others inside the granted 16*u*q)")
    for b in obs["bycell"]:
        r = next(it)
        if ("ok" in r) != (b["st"] == "ok"):
            # incidental 0.1 % threshold: only a disagreement when clearly away from it
            cells = Fs(b["cell"])
            edges = [F(y) - F(x) for x, y in zip(pm["pmin"], pm["pmax"])]
            tol = min(cells) / 1000
            near = False
            for e, c in zip(edges, cells):
                rem = e - (e / c).__floor__() * c
                if min(abs(rem - tol), abs(rem - (c - tol))) < c * Fraction(1, 10**6):
                    near = True
            if any(abs(e - c) < Fraction(1, 10**9) * e for e, c in zip(edges, cells)):
                near = True
            if not near:
                dis.append(f"Mesh(cell={b['cell']}) ({b['kind']}): impl {b['st']} vs model {r}")
        elif "ok" in r and r["ok"]["n"] != b["n"]:
            dis.append(f"Mesh(cell=...) n ({b['kind']}): impl {b['n']} vs model {r['ok']['n']}")
    return dis


def nontrivial(case, obs):
    if case["regime"] == "farcell":
        return True
    return obs.get("mesh") == "ok" and obs.get("len", 0) >= 2


def known(case, text):
    # D126: exactly the failures of the three namedtuple-based views on a mesh with a non-identifier dimension name
    dims = case.get("dims") or []
    if any(not _plain(d) for d in dims) and text.startswith(("Mesh.cells raises", "Mesh.vertices raises",
                                                            "Mesh.coordinate_field raises")):
        return "D126"
    return None


def search(case, rng):
    for _ in range(200):
        c = gen_mesh(rng, case["regime"])
        c["sub"] = rng.getrandbits(32)
        yield c
