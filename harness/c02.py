"""C02 — a field holds exactly the value its specification assigns to every cell."""
import itertools
import math
import os
import random
import warnings
from fractions import Fraction

import numpy as np

from . import core, fieldio
from .core import Q, Qs, F

import discretisedfield as df

PID = "C02"
RULE = ("kinds: 'init' (exact regime: dyadic meshes 1-4 dims with 0-3 aligned, possibly overlapping/touching/nested "
        "subregions; nvdim 1-4; dtype float/int/complex/bool; custom or default component labels; value = scalar, zero "
        "scalar, vector, per-cell array (*n,nvdim) or n, polynomial callable (coefficient table sent to the model), "
        "dictionary over subregions with any leaf kind and default absent/constant/array/callable/field, or a source field "
        "on a coarser/finer/shifted mesh) -> the constructor (array AND labels), 14-20 sample points incl. faces and outside "
        "points, every component, list(field), 3 lines + one with fewer than 2 points (points, values, distances and the WHOLE "
        "data frame: column names in order and every column's content, also where a coordinate column is overwritten), a "
        "history update_field_values(valid) OR array setter(valid, any specification incl. dictionaries) / rejected assignment / "
        "array setter(original array) step by step and in one go must EQUAL the rational model; for a third of the cases a "
        "SESSION of 4-7 statements over two field objects on one discretisation (same mesh object / equal mesh) and one or two "
        "caller-owned arrays - assignments through setter / update_field_values / constructor from a field object, a field's "
        ".array, a caller's array or a plain value, mixed with in-place writes into every array - after every statement the "
        "arrays of ALL objects must equal the store model (and on the real code alone: a statement changes only the array it "
        "addresses); 'kinds' (0/1-valued specifications of every form x value kind bool/int/float/complex x requested dtype or "
        "none: dtype kind of the array stored by constructor / update_field_values / setter = model); 'init' label variants (12 %: wrong count, duplicates, attribute names, empty list, "
        "long names, a mesh dimension named like 'r' or a value column); 'malformed' (wrong shape / component count / type "
        "through constructor, update_field_values and the array setter: rejected and state unchanged; incl. ONE component "
        "for a vector field in every form - constant 1-tuple / 1-list, per-cell array (*n, 1) or (*n), source field with "
        "nvdim 1, function returning a scalar / 1-tuple / 1-list / 1-array / [[x]] - and functions returning 0, 1..nvdim-1, "
        "nvdim+1, nvdim+2, 2 nvdim numbers as tuple / list / array / nested (1,k) / (k,1) / tuple of 1-element arrays, "
        "None or a string (vector fields), as the whole value, as a subregion entry and as the 'default' of a dictionary "
        "(function or source field with another component count); functions returning nvdim numbers in a nested shape are "
        "compared with the model, not judged); 'tol' (arbitrary binary64 meshes, length scales 1e-12..1e9, some with "
        "300-2500 cells along one axis: 2^-36 relative bound on continuous outputs); 'near' (point look-up on arbitrary "
        "binary64 meshes: 1-4 dims, length scales 1e-12..1e9 and 2^-40..2^30, round decimal cell sizes such as 1e-9 / "
        "2.5e-10, offsets 0 / centred / up to 1e6 edge lengths, corners in any order, up to 6000 cells along one axis, "
        "float / int / complex / bool, nvdim 1-3, every cell holding its own value; 36-60 sample points per field at "
        "relative distances 1e-1 .. 1e-15 of a cell from a cell face, on either side, also near several faces at once, "
        "next to the region's faces inside / outside within a third of the region tolerance / outside beyond 3 x the "
        "tolerance, given as tuple / list / ndarray / numpy floats / bare number (1d); 3 lines whose points all lie at such "
        "distances from faces). Exact regime: 4 more sample points at 2^-10 .. 2^-36 of a cell from a face (binary64 is "
        "exact there: equality with the model). Oracle on the real code alone: per-cell re-evaluation of the "
        "specification at mesh.index2point(i) with explicit first-match over mesh.subregions, containing-cell test for "
        "samples, for EVERY reported line point and for source fields (exact rationals; a point closer than "
        "2^-49 (|q|+1) cells to a face, q = its position in cells, may go to either neighbour: that is the rounding of "
        "floor((p - pmin) / cell) in binary64, four roundings, nothing else is granted), column/iteration/line definitions, "
        "nvdim value columns per line. "
        "non-trivial = accepted field with >= 2 cells whose array is not constant, or a rejected malformed specification")
TRUSTED = ["harness/c02.py, harness/fieldio.py + driver JSON glue (Gaussian rationals, polynomial coefficient tables)",
           "NumPy broadcasting in np.full / slice assignment, xarray .sel(method='nearest') (nearest centre, ties to the "
           "larger index), pandas data frame columns: modelled by contract and exercised by the correspondence run",
           "Line 'r' column uses sqrt: compared squared",
           "the attribute table of Field (dir(field)) is handed to the model as the list of names the vdims setter refuses",
           "driver glue of the session op (pokeobj / fillobj are resolved to the address the object holds at that moment) and of "
           "the fast source-field path (fieldFastOk test, result handed on as a per-cell array)"]
ASSUMPTIONS = ["values are representable in the requested dtype (integers for int, 0/1 for bool): dtype casting itself is NumPy's",
               "reading of 'wrong shape': NumPy cannot broadcast it to (*n, nvdim) or its last axis is not nvdim; arrays that "
               "NumPy broadcasts (e.g. shape (n_y, nvdim), or a non-zero scalar 'default' for nvdim > 1) are accepted by the code, "
               "followed by the model and only compared, not judged (tag obs:broadcast-accepted)",
               "no NaN among the specified values (NaN is the code's sentinel for 'not yet assigned'); dictionaries are not nested; "
               "a source field uses the same dimension names as the target mesh",
               "exact-regime inputs (dyadic geometry, small dyadic values, degree <= 2): every binary64 operation on the code path is exact",
               "tolerance regime: binary64 as executed by NumPy obeys the standard model |fl(x) - x| <= 2^-53 |x| (no overflow / "
               "underflow at the generated scales); the look-up band 2^-49 (|q|+1) cells is 4 x the resulting bound on "
               "(p - pmin) / cell; sample points outside the region are generated clear of the region's comparison tolerance "
               "(<= 1/3 or >= 3 times atol + rtol |x|), whose exact value is C01's subject",
               "a function returning None / a string for a SCALAR field is not in the default malformed stream (NumPy casts it: "
               "NaN / False / True are stored; flag VERIF_C02_NONE=1 turns the stream on)"]
UNPROVED = ["dtype: WHICH KIND of array is stored (bool / int / float / complex) is modelled and proved for every form of specification "
            "and a requested / not requested dtype (leafKind / specKind / updKind: kind_requested, kind_not_requested_update, "
            "kind_setter_vs_update; 'kinds' stream: constructor, update_field_values and setter against the model). Outside the "
            "model: the CASTING of the values (ASSUMPTION 'representable'; complex values given without dtype=complex to a function "
            "or a dictionary lose their imaginary part or are refused by NumPy), dtypes other than those four kinds; that the "
            "setter keeps a bool / int kind when no dtype is requested (cell-shaped array of a scalar field, source field) is "
            "compared leniently: a library that widens to float there is not reported (tag setter-narrow-kind)",
            "the label check `hasattr(self, c)` of the vdims setter is modelled by a list of reserved names handed to the model "
            "(dir(field)); non-string labels (TypeError) are not modelled; Line.n / Line.dim and the renaming setters of Line are not modelled",
            "xarray's nearest-neighbour selection, NumPy broadcasting and pandas' column assignment (existing name: overwritten in "
            "place, new name: appended) are modelled by contract; the frame's 'r' column is held squared (sqrt is NumPy's). "
            "Ownership: in the store model every conversion allocates BY DEFINITION (no_aliasing_ever, field_value_is_copied are "
            "invariants of that model); that the CODE allocates (np.full / np.array / xarray's indexing) is established by the "
            "session stream (in-place writes after assignments, all arrays compared statement by statement), not by a theorem about NumPy",
            "the theorems are about exact arithmetic (call_cell_contains / call_tolerance_clips: the sampled row is that of a cell "
            "containing the point, or the boundary cell for a point the tolerance lets through): that binary64 look-up returns that "
            "cell for points down to 2^-49 (|q|+1) cells from a face, at every length scale, offset and mesh size, is established "
            "by the 'near' correspondence stream only; inside that band nothing is claimed. Source fields with thousands of cells "
            "are converted by the driver with the closed formula of the source cell - proved equal to the code-shaped "
            "nearest-centre scan (field_fast_path_equal), no longer oracle-only",
            "acceptance equivalences (asArray_dict_ok_iff, assign_rejected_iff_malformed, new_ok_iff) are stated for nvdim >= 1 and "
            "subregions that are unions of cells (AlignedSub: what Mesh guarantees, C14's subject); line_ok_iff keeps the clause "
            "'every point of the line can be sampled': that it follows from the two end points alone (convexity of the "
            "tolerance-widened box for a tolerance factor < 1) is not proved - line_accepts proves it for end points exactly in the region",
            "finding D42 (open) is proved as a NEGATIVE statement about the code-shaped model (lineData_clash_value_column, "
            "lineData_clash_r): no positive theorem can hold for clashing names until the code changes"]
BUDGET = {"quick": 100, "thorough": 1200}

LABELS = ["a", "b", "c", "d", "e", "mx", "my", "mz", "px", "q1"]
# names for which hasattr(field, name) holds on a field without labels: the vdims setter refuses them as labels
_RESERVED = []


def reserved_names():
    if not _RESERVED:
        m = df.Mesh(p1=(0.0,), p2=(1.0,), n=(1,))
        f = df.Field(m, nvdim=1)
        _RESERVED.extend(sorted(n for n in dir(f) if isinstance(n, str)))
    return _RESERVED


KINDS = ["float", "float", "float", "complex", "int", "bool"]


# --------------------------------------------------------------------------- numbers
def num_c(x):
    """case number ('p/q' or ['re','im']) -> (Fraction, Fraction)"""
    if isinstance(x, (list, tuple)):
        return (Fraction(x[0]), Fraction(x[1]))
    return (Fraction(x), Fraction(0))


def num_py(x, kind):
    re, im = num_c(x)
    if kind == "complex":
        return complex(float(re), float(im))
    if kind == "int":
        return int(re)
    if kind == "bool":
        return bool(re)
    return float(re)


def val_c(v):
    """stored array entry -> (Fraction, Fraction)"""
    if isinstance(v, (complex, np.complexfloating)):
        return (Fraction(float(v.real)), Fraction(float(v.imag)))
    if isinstance(v, (bool, np.bool_)):
        return (Fraction(int(v)), Fraction(0))
    if isinstance(v, (int, np.integer)):
        return (Fraction(int(v)), Fraction(0))
    return (Fraction(float(v)), Fraction(0))


def num_j(c):
    """(Fraction, Fraction) -> driver JSON number"""
    return Q(c[0]) if c[1] == 0 else [Q(c[0]), Q(c[1])]


def resp_c(x):
    """driver JSON number -> (Fraction, Fraction)"""
    if isinstance(x, list):
        return (F(x[0]), F(x[1]))
    return (F(x), Fraction(0))


def finite(v):
    try:
        return bool(np.all(np.isfinite(v)))
    except TypeError:
        return True


def arr_nums(a):
    flat = np.asarray(a).reshape(-1)
    if not finite(flat):
        return None
    return [num_j(val_c(v)) for v in flat.tolist()]


def gen_num(rng, kind, nonzero=False):
    while True:
        if kind == "int":
            v = str(rng.randint(-9, 9))
        elif kind == "bool":
            v = str(rng.randint(0, 1)) if not nonzero else "1"
        elif kind == "complex":
            v = [Q(core.dyadic(rng, -9, 9, 2)), Q(core.dyadic(rng, -9, 9, 2))]
        else:
            v = Q(core.dyadic(rng, -9, 9, 2))
        if not nonzero or num_c(v) != (0, 0):
            return v


def np_dtype(kind):
    return {"float": np.float64, "int": np.int64, "complex": np.complex128, "bool": np.bool_}[kind]


# --------------------------------------------------------------------------- geometry
def mesh_geom(ms):
    """exact (pmin, cell, n) of a mesh spec with float corners"""
    p1 = [Fraction(x) for x in ms["p1"]]
    p2 = [Fraction(x) for x in ms["p2"]]
    pmin = [min(a, b) for a, b in zip(p1, p2)]
    pmax = [max(a, b) for a, b in zip(p1, p2)]
    n = list(ms["n"])
    cell = [(b - a) / k for a, b, k in zip(pmin, pmax, n)]
    return pmin, cell, n


def gen_subs(rng, n, count):
    subs, names = [], rng.sample(["r0", "r1", "r2", "core", "shell"], count)
    for name in names:
        mode = rng.random()
        if subs and mode < 0.15:                      # identical to an earlier one
            k1, k2 = list(subs[-1][1]), list(subs[-1][2])
        elif mode < 0.25:                             # the whole mesh
            k1, k2 = [0] * len(n), list(n)
        else:
            k1, k2 = [], []
            for k in n:
                a = rng.randint(0, k - 1)
                b = rng.randint(a + 1, k)
                if rng.random() < 0.3:
                    a, b = 0, k
                k1.append(a)
                k2.append(b)
            if subs and mode > 0.85:                  # touching an earlier one along one axis
                ax = rng.randrange(len(n))
                if subs[-1][2][ax] < n[ax]:
                    k1[ax] = subs[-1][2][ax]
                    k2[ax] = rng.randint(k1[ax] + 1, n[ax])
        subs.append([name, k1, k2])
    return subs


def build_mesh(ms, subs):
    pmin, cell, n = mesh_geom(ms)
    sr = {}
    kw = {"dims": ms["dims"]} if ms.get("dims") else {}
    for name, k1, k2 in subs:
        sr[name] = df.Region(p1=[float(a + k * c) for a, k, c in zip(pmin, k1, cell)],
                             p2=[float(a + k * c) for a, k, c in zip(pmin, k2, cell)], **kw)
    return fieldio.build_mesh(ms, subregions=sr or None)


def _rand_bc(rng, ndim):
    """periodic directions / one of the two words on a third of the meshes (default axis names x, y, z): sampling, line
    points and face probes are asked on such meshes too - the boundary conditions have no say in them"""
    r = rng.random()
    if r >= 0.35 or ndim > 3:
        return ""
    if r < 0.07:
        return rng.choice(["neumann", "dirichlet"])
    return "".join(d for d in "xyz"[:ndim] if rng.random() < 0.7)


def gen_src(rng, ms, k1, k2, nv, kind, contained=True):
    """source field description on a coarser / finer / shifted mesh containing the box [k1,k2) of mesh ms"""
    pmin, cell, n = mesh_geom(ms)
    p1, p2, ns = [], [], []
    for a in range(len(n)):
        lo_t, hi_t = pmin[a] + k1[a] * cell[a], pmin[a] + k2[a] * cell[a]
        cs = cell[a] * rng.choice([Fraction(1, 2), 1, 1, 2, Fraction(3, 2), 3, Fraction(3, 4)])
        lo = lo_t - rng.randint(0, 3) * cs / 2
        k = max(1, math.ceil((hi_t - lo) / cs)) + rng.choice([0, 0, 1])
        if not contained and a == 0:
            lo = lo_t + cell[a] / 2                    # cuts off half a target cell
            k = max(1, math.ceil((hi_t - lo) / cs))
        p1.append(float(lo))
        p2.append(float(lo + k * cs))
        ns.append(int(k))
    while int(np.prod(ns)) > 150:                       # merge cells along the largest axis
        a = int(np.argmax(ns))
        if ns[a] % 2 == 0:
            ns[a] //= 2
        else:
            ns[a] += 1
            p2[a] = float(Fraction(p2[a]) + (Fraction(p2[a]) - Fraction(p1[a])) / (ns[a] - 1))
            ns[a] //= 2
    size = int(np.prod(ns)) * nv
    data = [gen_num(rng, kind) if kind != "float" else str(rng.randint(-20, 20)) for _ in range(size)]
    return dict(p1=p1, p2=p2, n=ns, nvdim=nv, data=data)


def build_src(sd, dims, kind):
    kw = {"dims": list(dims)}
    r = df.Region(p1=sd["p1"], p2=sd["p2"], **kw)
    m = df.Mesh(region=r, n=sd["n"])
    arr = np.array([num_py(x, kind) for x in sd["data"]], dtype=np_dtype(kind)).reshape(*sd["n"], sd["nvdim"])
    vd = None if sd["nvdim"] <= 3 else [f"s{i}" for i in range(sd["nvdim"])]
    return df.Field(m, nvdim=sd["nvdim"], value=arr, dtype=np_dtype(kind), vdims=vd)


# --------------------------------------------------------------------------- specifications
NESTED_STYLES = ["row", "col", "arrays"]
# VERIF_C02_NONE=1 adds functions returning None / a string for SCALAR fields to the malformed stream.  Off by default:
# the unchanged library accepts them for float / complex / bool (NumPy casts None to NaN resp. False and 'abc' to True;
# the count is right), e.g. Field(mesh, nvdim=1, value=lambda p: None) holds NaN everywhere - reported to the lead as a
# witness; what NumPy casts a returned object to is outside the model (ASSUMPTIONS: dtype casting is NumPy's)
RET_NONE_SCALAR = os.environ.get("VERIF_C02_NONE", "") == "1"


def gen_poly(rng, kind, nv, ndim, ncomp=None):
    comps = []
    for _ in range(nv if ncomp is None else ncomp):
        terms = []
        for _ in range(rng.randint(1, 3)):
            if kind == "bool":
                e = [0] * ndim
                c = str(rng.randint(0, 1))
            elif kind == "int":
                e = [0] * ndim
                if rng.random() < 0.8:
                    e[rng.randrange(ndim)] = 1
                c = str(32 * rng.randint(-3, 3))          # centres are multiples of 1/32: integer values
            else:
                e = [0] * ndim
                for _ in range(rng.randint(0, 2)):
                    e[rng.randrange(ndim)] += 1
                c = gen_num(rng, kind) if kind == "complex" else str(rng.randint(-4, 4))
            terms.append(dict(c=c, e=e))
        if kind == "bool":
            terms = terms[:1]
        comps.append(terms)
    style = rng.choice(["tuple", "list", "array", "scalar"])
    if rng.random() < 0.06:
        style = rng.choice(NESTED_STYLES)
    return dict(k="poly", comps=comps, style=style)


def gen_bad_poly(rng, kind, nv, ndim):
    """a function of position whose return value has the wrong number of components (0, 1 .. nv-1, nv+1, nv+2, 2 nv;
    as scalar / tuple / list / array / nested (1,k) / nested (k,1) / tuple of 1-element arrays), or the wrong type
    (None / str, only where the count is wrong as well: what NumPy casts None / str to is NumPy's business)"""
    cand = [nv + 1, nv + 2, 2 * nv, 0] + list(range(1, nv)) + ([1, 1, 1] if nv > 1 else [])
    k = rng.choice([c for c in cand if c != nv])
    leaf = gen_poly(rng, kind, nv, ndim, ncomp=k)
    if k == 1 and rng.random() < 0.3:
        leaf["comps"] = [[dict(c="0", e=[0] * ndim)]]            # the scalar 0 is special only as a constant
    leaf["style"] = rng.choice(["tuple", "list", "array", "scalar" if k == 1 else "tuple"] + (NESTED_STYLES if k >= 1 else []))
    if (nv > 1 or RET_NONE_SCALAR) and rng.random() < 0.12:
        leaf["comps"], leaf["ret"] = [], rng.choice(["none", "str"])
    return leaf


def gen_leaf(rng, kind, nv, ms, k1, k2, allow_field=True):
    """a well-formed leaf for the box [k1,k2) of mesh ms"""
    n = [b - a for a, b in zip(k1, k2)]
    ndim = len(n)
    opts = ["vec", "vec", "arr", "poly", "poly"]
    if nv == 1:
        opts += ["scalar", "scalar", "arrn"]
    else:
        opts += ["zero"]
    if allow_field:
        opts += ["field"]
    k = rng.choice(opts)
    if k == "scalar":
        return dict(k="scalar", v=gen_num(rng, kind))
    if k == "zero":
        return dict(k="scalar", v="0")
    if k == "vec":
        if nv == 1 and n == [1]:
            return dict(k="scalar", v=gen_num(rng, kind))
        return dict(k="vec", v=[gen_num(rng, kind) for _ in range(nv)])
    if k == "arr":
        return dict(k="arr", shape=n + [nv], data=[gen_num(rng, kind) for _ in range(int(np.prod(n)) * nv)])
    if k == "arrn":
        return dict(k="arr", shape=n, data=[gen_num(rng, kind) for _ in range(int(np.prod(n)))])
    if k == "poly":
        return gen_poly(rng, kind, nv, ndim)
    return dict(k="field", src=gen_src(rng, ms, k1, k2, nv, kind))


def gen_dict(rng, kind, nv, ms, subs, default_mode=None):
    n = ms["n"]
    items = []
    for name, k1, k2 in subs:
        if rng.random() < 0.8:
            items.append([name, gen_leaf(rng, kind, nv, ms, k1, k2, allow_field=rng.random() < 0.5)])
    rng.shuffle(items)                                   # key order of the value dict is irrelevant
    if rng.random() < 0.1:
        items.append(["nosuch", dict(k="scalar", v="0")])
    mode = default_mode or rng.choice(["none", "const", "const", "arr", "poly", "poly", "field"])
    if mode == "none":
        dflt = None
    elif mode == "const":
        if nv == 1:
            dflt = dict(k="scalar", v=gen_num(rng, kind))
        else:
            dflt = dict(k="vec", v=[gen_num(rng, kind) for _ in range(nv)])
    elif mode == "arr":
        dflt = dict(k="arr", shape=list(n) + [nv], data=[gen_num(rng, kind) for _ in range(int(np.prod(n)) * nv)])
    elif mode == "poly":
        dflt = gen_poly(rng, kind, nv, len(n))
    else:
        dflt = dict(k="field", src=gen_src(rng, ms, [0] * len(n), list(n), nv, kind))
    return dict(k="dict", items=items, default=dflt)


def gen_spec(rng, kind, nv, ms, subs):
    n = ms["n"]
    if subs and rng.random() < 0.75:
        return gen_dict(rng, kind, nv, ms, subs)
    if not subs and rng.random() < 0.08:
        return gen_dict(rng, kind, nv, ms, subs, default_mode=rng.choice(["const", "poly"]))
    return gen_leaf(rng, kind, nv, ms, [0] * len(n), list(n))


def gen_bad_leaf(rng, kind, nv, ms):
    """a leaf the property says must be rejected (wrong shape, component count or type)"""
    n = list(ms["n"])
    opts = ["str", "none", "vec", "arr+1", "arrc+1", "poly", "poly", "fieldnv", "fieldout"]
    if nv > 1:
        opts += ["scalar", "scalar", "poly", "arrc1", "vec1"]
        if n[-1] != nv:
            opts += ["arrn"]
    k = rng.choice(opts)
    if k == "vec1":                                        # one component for a vector field (constant)
        return dict(k="vec", v=[gen_num(rng, kind)], **{"as": rng.choice(["tuple", "list"])})
    if k == "arrc1":                                       # per-cell array with a component axis of length 1
        return dict(k="arr", shape=n + [1], data=[gen_num(rng, kind) for _ in range(int(np.prod(n)))])
    if k == "arrn":                                        # per-cell array without component axis
        return dict(k="arr", shape=n, data=[gen_num(rng, kind) for _ in range(int(np.prod(n)))])
    if k in ("str", "none"):
        return dict(k="bad", what=k)
    if k == "scalar":
        return dict(k="scalar", v=gen_num(rng, kind, nonzero=True))
    if k == "vec":
        ln = rng.choice([x for x in (1, 2, 3, 4, 5) if x != nv and not (nv == 1 and [x] == n) and not (x == 1)])
        return dict(k="vec", v=[gen_num(rng, kind) for _ in range(ln)])
    if k == "arr+1":
        sh = list(n)
        sh[rng.randrange(len(n))] += 1
        sh = sh + [nv]
        return dict(k="arr", shape=sh, data=[gen_num(rng, kind) for _ in range(int(np.prod(sh)))])
    if k == "arrc+1":
        sh = n + [nv + 1]
        if nv == 1 and sh == n:                            # cannot happen (lengths differ); kept for clarity
            sh = n + [3]
        return dict(k="arr", shape=sh, data=[gen_num(rng, kind) for _ in range(int(np.prod(sh)))])
    if k == "poly":
        return gen_bad_poly(rng, kind, nv, len(n))
    if k == "fieldnv":
        nvs = rng.choice([nv + 1] + ([1, 1] if nv > 1 else []) + ([nv - 1] if nv > 2 else []))
        return dict(k="field", src=gen_src(rng, ms, [0] * len(n), n, nvs, kind))
    return dict(k="field", src=gen_src(rng, ms, [0] * len(n), n, nv, kind, contained=False))


def gen_obs_leaf(rng, kind, nv, ms):
    """under-specified shapes NumPy broadcasts: compared with the model, not judged"""
    n = list(ms["n"])
    ndim = len(n)
    if ndim >= 2 and rng.random() < 0.6:
        sh = n[rng.randint(1, ndim - 1):] + [nv]
    else:
        sh = [1 if rng.random() < 0.6 else k for k in n] + [nv]
    if sh == n + [nv] or (nv == 1 and sh == n):
        sh = [1] * ndim + [nv]
    return dict(k="arr", shape=sh, data=[gen_num(rng, kind) for _ in range(int(np.prod(sh)))])


# --------------------------------------------------------------------------- building real values
def make_callable(leaf, kind):
    comps, style = leaf["comps"], leaf.get("style", "tuple")
    cs = [[(num_py(t["c"], "complex" if kind == "complex" else "float"), t["e"]) for t in terms] for terms in comps]
    unit = float(leaf.get("unit", 1.0))
    ret = leaf.get("ret")

    def f(p):
        if ret is not None:
            return None if ret == "none" else "abc"
        out = []
        for terms in cs:
            s = 0.0
            for c, e in terms:
                mon = 1.0
                for a, k in enumerate(e):
                    for _ in range(k):
                        mon = mon * (float(p[a]) / unit)
                s = s + c * mon
            out.append(s)
        if style == "scalar" and len(out) == 1:
            return out[0]
        if style == "list":
            return list(out)
        if style == "array":
            return np.array(out)
        if style == "row":                                   # shape (1, k)
            return [list(out)]
        if style == "col":                                   # shape (k, 1)
            return [[x] for x in out]
        if style == "arrays":                                # tuple of 1-element arrays (1d vector fields)
            return tuple(np.array([x]) for x in out)
        return tuple(out)

    return f


def build_leaf(leaf, kind, dims, built):
    """python object for a leaf; source fields that get built are recorded in `built` (id(desc) -> Field)"""
    k = leaf["k"]
    if k == "bad":
        return "abc" if leaf["what"] == "str" else None
    if k == "scalar":
        return num_py(leaf["v"], kind)
    if k == "vec":
        vals = [num_py(x, kind) for x in leaf["v"]]
        return tuple(vals) if leaf.get("as", "tuple") == "tuple" else vals
    if k == "arr":
        return np.array([num_py(x, kind) for x in leaf["data"]], dtype=np_dtype(kind)).reshape(leaf["shape"])
    if k == "poly":
        return make_callable(leaf, kind)
    if k == "field":
        f = build_src(leaf["src"], dims, kind)
        built[id(leaf)] = f
        return f
    raise ValueError(k)


def build_value(spec, kind, dims, built):
    if spec["k"] != "dict":
        return build_leaf(spec, kind, dims, built)
    val = {name: build_leaf(l, kind, dims, built) for name, l in spec["items"]}
    if spec["default"] is not None:
        val["default"] = build_leaf(spec["default"], kind, dims, built)
    return val


# --------------------------------------------------------------------------- driver JSON of a specification
def src_json(f):
    return dict(mesh=fieldio.mesh_json(f.mesh), nvdim=int(f.nvdim), shape=[int(k) for k in f.array.shape],
                data=arr_nums(f.array), vdims=(list(f.vdims) if f.vdims is not None else None))


def leaf_json(leaf, built):
    k = leaf["k"]
    if k == "bad":
        return dict(k="bad")
    if k == "scalar":
        return dict(k="scalar", v=num_j(num_c(leaf["v"])))
    if k == "vec":
        return dict(k="arr", shape=[len(leaf["v"])], data=[num_j(num_c(x)) for x in leaf["v"]])
    if k == "arr":
        return dict(k="arr", shape=leaf["shape"], data=[num_j(num_c(x)) for x in leaf["data"]])
    if k == "poly":
        unit = Fraction(float(leaf.get("unit", 1.0)))

        def sc(c, e):
            c = num_c(c)
            d = unit ** sum(e)
            return num_j((c[0] / d, c[1] / d))

        return dict(k="poly", comps=[[dict(c=sc(t["c"], t["e"]), e=t["e"]) for t in terms] for terms in leaf["comps"]])
    return dict(k="field", src=src_json(built[id(leaf)]))


def spec_json(spec, built):
    if spec["k"] != "dict":
        return leaf_json(spec, built)
    out = dict(k="dict", items=[[name, leaf_json(l, built)] for name, l in spec["items"]])
    if spec["default"] is not None:
        out["default"] = leaf_json(spec["default"], built)
    return out


# --------------------------------------------------------------------------- what the property demands (real code only)
def poly_exact(leaf, p):
    out = []
    unit = Fraction(float(leaf.get("unit", 1.0)))
    p = [x / unit for x in p]
    for terms in leaf["comps"]:
        re = im = Fraction(0)
        for t in terms:
            mon = Fraction(1)
            for a, k in enumerate(t["e"]):
                mon *= p[a] ** k
            c = num_c(t["c"])
            re += c[0] * mon
            im += c[1] * mon
        out.append((re, im))
    return out


def containing_cells(m, p):
    """all multi-indices of cells of mesh m whose closed box contains point p (exact rationals)"""
    per_axis = []
    for a in range(m.region.ndim):
        lo, hi, k = Fraction(float(m.region.pmin[a])), Fraction(float(m.region.pmax[a])), int(m.n[a])
        c = (hi - lo) / k
        q = (p[a] - lo) / c
        j0 = q.numerator // q.denominator
        cand = [j for j in (j0 - 1, j0, j0 + 1) if 0 <= j < k and lo + j * c <= p[a] <= lo + (j + 1) * c]
        per_axis.append(cand)
    return list(itertools.product(*per_axis))


def row_c(arr, idx):
    return [val_c(v) for v in np.asarray(arr[tuple(idx)]).reshape(-1).tolist()]


def leaf_expect(leaf, kind, nv, centre, local, n_local, built, half=None):
    """acceptable rows (lists of (re,im)) for a cell with exact centre `centre` and index `local` within the
    (sub)mesh of shape n_local the leaf is evaluated on; None = nothing demanded (observation class);
    'invalid' = the leaf must be rejected"""
    k = leaf["k"]
    if k == "bad":
        return "invalid"
    if k == "scalar":
        v = num_c(leaf["v"])
        if nv > 1 and v != (0, 0):
            return "invalid"
        return [[v] * nv]
    if k == "vec":
        if nv == 1 and [len(leaf["v"])] == list(n_local):
            return [[num_c(leaf["v"][local[0]])]]
        if len(leaf["v"]) != nv:
            return "invalid"
        return [[num_c(x) for x in leaf["v"]]]
    if k == "arr":
        sh = list(leaf["shape"])
        if nv == 1 and sh == list(n_local):
            flat = int(np.ravel_multi_index(tuple(local), tuple(sh)))
            return [[num_c(leaf["data"][flat])]]
        if sh == list(n_local) + [nv]:
            base = int(np.ravel_multi_index(tuple(local) + (0,), tuple(sh)))
            return [[num_c(x) for x in leaf["data"][base:base + nv]]]
        if not sh or sh[-1] != nv or len(sh) > len(n_local) + 1:
            return "invalid"
        tgt = list(n_local) + [nv]
        off = len(tgt) - len(sh)
        if all(s == 1 or s == tgt[off + i] for i, s in enumerate(sh)):
            return None                                       # NumPy broadcasts it: observation only
        return "invalid"
    if k == "poly":
        if len(leaf["comps"]) != nv or leaf.get("ret"):
            return "invalid"
        if leaf.get("style") in NESTED_STYLES:                # nv numbers in a nested shape: the code flattens them;
            return None                                       # not judged, compared with the model
        return [poly_exact(leaf, centre)]
    src = built[id(leaf)]
    if src.nvdim != nv:
        return "invalid"
    if half is not None:                                      # the (sub)region itself must lie inside the source region
        lo = [Fraction(float(x)) for x in src.mesh.region.pmin]
        hi = [Fraction(float(x)) for x in src.mesh.region.pmax]
        if any(c - h < a - (b - a) / 2**40 or c + h > b + (b - a) / 2**40 for c, h, a, b in zip(centre, half, lo, hi)):
            return "invalid"
    cells = containing_cells(src.mesh, centre)
    if not cells:
        return "invalid"
    return [row_c(src.array, c) for c in cells]


def half_cell(mesh):
    return [(Fraction(float(b)) - Fraction(float(a))) / (2 * int(k)) for a, b, k in zip(mesh.region.pmin, mesh.region.pmax, mesh.n)]


def spec_expect(spec, kind, nv, mesh, subs_idx, idx, built):
    """rows the property allows for cell idx of `mesh`; subs_idx = [(name, k1, k2)] in mesh.subregions order"""
    centre = [Fraction(float(x)) for x in mesh.index2point(idx)]
    n = [int(k) for k in mesh.n]
    if spec["k"] != "dict":
        return leaf_expect(spec, kind, nv, centre, list(idx), n, built, half=half_cell(mesh))
    items = dict((name, l) for name, l in spec["items"])
    for name, k1, k2 in subs_idx:
        if name in items and all(a <= i < b for a, i, b in zip(k1, idx, k2)):
            return leaf_expect(items[name], kind, nv, centre, [i - a for i, a in zip(idx, k1)],
                               [b - a for a, b in zip(k1, k2)], built, half=half_cell(mesh))
    d = spec["default"]
    if d is None:
        return "invalid"
    if d["k"] == "scalar":                                    # np.full broadcasts a scalar default
        v = num_c(d["v"])
        return [[v] * nv] if (nv == 1 or v == (0, 0)) else None
    if d["k"] == "field":                                     # a Field default is called like a function
        src = built[id(d)]
        if src.nvdim != nv:
            return "invalid"
        cells = containing_cells(src.mesh, centre)
        return [row_c(src.array, c) for c in cells] if cells else "invalid"
    return leaf_expect(d, kind, nv, centre, list(idx), n, built)


def subs_index_boxes(mesh):
    """index boxes of mesh.subregions, recomputed from the real mesh (exact rationals)"""
    out = []
    lo = [Fraction(float(x)) for x in mesh.region.pmin]
    hi = [Fraction(float(x)) for x in mesh.region.pmax]
    c = [(b - a) / int(k) for a, b, k in zip(lo, hi, mesh.n)]
    for name, r in mesh.subregions.items():
        k1 = [round((Fraction(float(x)) - a) / cc) for x, a, cc in zip(r.pmin, lo, c)]
        k2 = [round((Fraction(float(x)) - a) / cc) for x, a, cc in zip(r.pmax, lo, c)]
        out.append((name, k1, k2))
    return out


def mesh_order(n):
    """multi-indices with the first index running fastest"""
    return [tuple(reversed(t)) for t in itertools.product(*[range(k) for k in reversed(n)])]


def rows_equal(got, want, exact, scale):
    if len(got) != len(want):
        return False
    for g, w in zip(got, want):
        for x, y in zip(g, w):
            if exact:
                if x != y:
                    return False
            elif abs(x - y) > Fraction(2) ** -36 * max(abs(y), Fraction(scale)):
                return False
    return True


def check_array(spec, kind, nv, mesh, f, built, exact, scale, fail):
    n = [int(k) for k in mesh.n]
    if tuple(f.array.shape) != (*n, nv):
        fail(f"array shape {f.array.shape} is not (*n, nvdim) = {(*n, nv)}")
        return
    boxes = subs_index_boxes(mesh)
    for idx in mesh_order(n):
        want = spec_expect(spec, kind, nv, mesh, boxes, idx, built)
        if want is None:
            continue
        if want == "invalid":
            fail(f"the specification assigns no admissible value to cell {idx} (wrong shape/count/type, or covered by no "
                 f"listed subregion and no default), yet the field was created holding {f.array[idx].tolist()} there")
            return
        got = row_c(f.array, idx)
        if not any(rows_equal(got, w, exact, scale) for w in want):
            fail(f"cell {idx} (centre {mesh.index2point(idx)}) holds {f.array[idx].tolist()}, the specification gives "
                 f"{[[complex(float(a), float(b)) if b else float(a) for a, b in w] for w in want[:3]]}")
            return


def spec_validity(spec, kind, nv, mesh, built):
    """'valid' / 'invalid' / 'obs' for the whole specification"""
    boxes = subs_index_boxes(mesh)
    n = [int(k) for k in mesh.n]
    res = "valid"
    cells = mesh_order(n)
    if spec["k"] == "dict":
        # every listed leaf is converted on its submesh, also where it is hidden behind earlier subregions
        items = dict((name, l) for name, l in spec["items"])
        for name, k1, k2 in boxes:
            if name not in items:
                continue
            for idx in cells:
                if all(a <= i < b for a, i, b in zip(k1, idx, k2)):
                    centre = [Fraction(float(x)) for x in mesh.index2point(idx)]
                    w = leaf_expect(items[name], kind, nv, centre, [i - a for i, a in zip(idx, k1)],
                                    [b - a for a, b in zip(k1, k2)], built, half=half_cell(mesh))
                    if w == "invalid":
                        return "invalid"
                    if w is None:
                        res = "obs"
        d = spec["default"]
        if d is not None:
            if d["k"] == "bad" or (d["k"] == "vec" and len(d["v"]) != nv):
                return "invalid"
            if d["k"] == "arr":
                w = leaf_expect(d, kind, nv, None, [0] * len(n), n, built)
                if w == "invalid":
                    return "invalid"
    for idx in cells:
        w = spec_expect(spec, kind, nv, mesh, boxes, idx, built)
        if w == "invalid":
            return "invalid"
        if w is None:
            res = "obs"
    return res


# --------------------------------------------------------------------------- cases
def gen_vdims(rng, nv):
    if nv == 1:
        return ["s"] if rng.random() < 0.1 else None
    if nv <= 3 and rng.random() < 0.6:
        return None
    return rng.sample(LABELS, nv)


ATTR_LABELS = ["mesh", "array", "norm", "line", "mean", "nvdim", "valid", "vdims", "unit"]


def gen_label_variant(rng, nv, ms):
    """(vdims, mode): label lists the vdims setter refuses or treats specially, and clashes of a value column
    name with a mesh dimension name (finding D42)"""
    mode = rng.choice(["count", "dup", "reserved", "empty", "clash", "clash", "long"])
    if mode == "count":
        k = rng.choice([x for x in (nv - 1, nv + 1, nv + 2) if x >= 1])
        return rng.sample(LABELS, k), mode
    if mode == "dup" and nv >= 2:
        v = rng.sample(LABELS, nv)
        v[rng.randrange(1, nv)] = v[0]
        return v, mode
    if mode == "reserved":
        v = rng.sample(LABELS, nv)
        v[rng.randrange(nv)] = rng.choice(ATTR_LABELS)
        return v, mode
    if mode == "empty":                                  # vdims=[] removes the labels (also of a vector field: fixed finding D45)
        return [], mode
    if mode == "long":
        return [f"{rng.choice(LABELS)}_{i}" for i in range(nv)], "good"
    # clash: rename one mesh dimension to 'r' or to a value column name of this field
    v = rng.sample(LABELS, nv) if (nv > 3 or rng.random() < 0.5) else None
    if v is not None:
        cols = ["v" + l for l in v]
    elif nv == 1:
        cols = ["v"]
    else:
        cols = ["v" + l for l in "xyz"[:nv]]
    ndim = len(ms["n"])
    dims = list(ms.get("dims") or (["x", "y", "z"][:ndim] if ndim <= 3 else [f"x{i}" for i in range(ndim)]))
    name = rng.choice(["r"] + cols)
    if name not in dims:
        dims[rng.randrange(ndim)] = name
    ms["dims"] = dims
    return v, "clash"


def gen_init(rng, tier, force_kind=None):
    ms = fieldio.gen_mesh_spec(rng, max_cells=72 if tier == "quick" else 120, nmax=6, bc_prob=0.3)   # boundary conditions have no say in any value
    subs = gen_subs(rng, ms["n"], rng.choice([0, 1, 2, 2, 3, 3]))
    kind = force_kind or rng.choice(KINDS)
    nv = rng.choice([1, 1, 2, 3, 3, 4])
    if rng.random() < 0.12:
        return gen_labels_case(rng, ms, kind, nv)
    case = dict(kind="init", mesh=ms, subs=subs, dtype=kind, nvdim=nv, vdims=gen_vdims(rng, nv),
                dtype_arg=(kind != "float" or rng.random() < 0.5),
                spec=gen_spec(rng, kind, nv, ms, subs), spec2=gen_spec(rng, kind, nv, ms, subs),
                bad=gen_bad_leaf(rng, kind, nv, ms), via=rng.choice(["update", "setter"]), sub=rng.getrandbits(32))
    # the second assignment goes through update_field_values or through the array setter (any specification, also a
    # dictionary: the setter dispatches like the constructor)
    case["via2"] = rng.choice(["update", "update", "setter"])
    return case


def gen_labels_case(rng, ms, kind, nv):
    """an 'init' case whose point is the component labels: per-cell array value (all entries different where the
    dtype allows), no subregions"""
    n = list(ms["n"])
    vdims, mode = gen_label_variant(rng, nv, ms)
    size = int(np.prod(n)) * nv
    if kind in ("float", "int"):
        vals = rng.sample(range(-3 * size - 5, 3 * size + 5), size)
        data = [str(v) for v in vals]
    else:
        data = [gen_num(rng, kind) for _ in range(size)]
    spec = dict(k="arr", shape=n + [nv], data=data)
    return dict(kind="init", mesh=ms, subs=[], dtype=kind, nvdim=nv, vdims=vdims, vdims_mode=mode, dtype_arg=True,
                spec=spec, spec2=dict(k="scalar", v="0"), bad=dict(k="bad", what="str"), via=rng.choice(["update", "setter"]),
                sub=rng.getrandbits(32))


def gen_malformed(rng, tier):
    ms = fieldio.gen_mesh_spec(rng, max_cells=48, nmax=5, bc_prob=0.3)
    subs = gen_subs(rng, ms["n"], rng.choice([0, 1, 2]))
    kind = rng.choice(KINDS)
    nv = rng.choice([1, 2, 3, 4])
    mode = rng.choice(["leaf", "leaf", "leaf", "dictleaf", "nodefault", "dfltlen", "dfltfunc", "obs"])
    n = ms["n"]
    if mode == "leaf" or (mode in ("dictleaf", "nodefault") and not subs):
        spec = gen_bad_leaf(rng, kind, nv, ms)
        mode = "leaf"
    elif mode == "dictleaf":
        spec = gen_dict(rng, kind, nv, ms, subs, default_mode="const")
        name, k1, k2 = subs[rng.randrange(len(subs))]
        box = dict(ms, n=[b - a for a, b in zip(k1, k2)])
        pmin, cell, _ = mesh_geom(ms)
        box["p1"] = [float(a + k * c) for a, k, c in zip(pmin, k1, cell)]
        box["p2"] = [float(a + k * c) for a, k, c in zip(pmin, k2, cell)]
        bad = gen_bad_leaf(rng, kind, nv, box)
        spec["items"] = [it for it in spec["items"] if it[0] != name] + [[name, bad]]
    elif mode == "nodefault":
        # some cell uncovered, no default
        name, k1, k2 = subs[0]
        if all(a == 0 and b == k for a, b, k in zip(k1, k2, n)):
            k2 = list(k2)
            if n[0] > 1:
                k2[0] = n[0] - 1
                subs[0] = [name, k1, k2]
        spec = gen_dict(rng, kind, nv, ms, subs[:1], default_mode="none")
        subs = subs[:1]
        if not spec["items"] or spec["items"][0][0] == "nosuch":
            spec["items"] = [[name, dict(k="scalar", v="0")]]
    elif mode == "dfltlen":
        spec = gen_dict(rng, kind, nv, ms, subs, default_mode="const")
        spec["default"] = dict(k="vec", v=[gen_num(rng, kind) for _ in range(nv + 1)])
    elif mode == "dfltfunc":
        # the default is a function with the wrong number of components / a wrong return type: rejected as soon as
        # one cell is left to the default (compared with the model also when every cell is covered)
        spec = gen_dict(rng, kind, nv, ms, subs, default_mode="const")
        spec["default"] = gen_bad_poly(rng, kind, nv, len(n))
        if rng.random() < 0.3:                               # a source field with another component count as default
            nvs = rng.choice([nv + 1] + ([1, 1] if nv > 1 else []))
            spec["default"] = dict(k="field", src=gen_src(rng, ms, [0] * len(n), list(n), nvs, kind))
    else:
        if rng.random() < 0.6 or nv == 1:
            spec = gen_obs_leaf(rng, kind, nv, ms)
        else:
            spec = gen_dict(rng, kind, nv, ms, subs, default_mode="const")
            spec["default"] = dict(k="scalar", v=gen_num(rng, kind, nonzero=True))
    return dict(kind="malformed", mode=mode, mesh=ms, subs=subs, dtype=kind, nvdim=nv, vdims=None, dtype_arg=True,
                spec=spec, via=rng.choice(["ctor", "update", "setter"]),
                base=gen_leaf(rng, kind, nv, ms, [0] * len(n), list(n), allow_field=False), sub=rng.getrandbits(32))


def gen_tol(rng, tier, big=False):
    ndim = rng.choice([1, 2, 2, 3])
    n = [rng.randint(1, 5) for _ in range(ndim)]
    if big:                                                  # several hundred to thousands of cells along one axis
        ndim = rng.choice([1, 1, 2])
        n = [rng.randint(1, 2) for _ in range(ndim)]
        n[rng.randrange(ndim)] = rng.randint(300, 2500)
    scale = rng.choice([1e-12, 1e-10, 1e-9, 1e-9, 1e-6, 1e-3, 1.0, 10.0, 1e3, 1e6, 1e9])
    edge = [scale * rng.choice([1.0, 1 / 3, 0.7, 2.5]) * rng.uniform(0.5, 2) for _ in range(ndim)]
    pmin = [rng.choice([0.0, 1.0, -1.0, 17.3]) * e + rng.uniform(-1, 1) * e for e in edge]
    ms = dict(p1=pmin, p2=[a + e for a, e in zip(pmin, edge)], n=n, dims=None, bc=_rand_bc(rng, ndim))
    subs = gen_subs(rng, n, rng.choice([0, 1, 2]))
    nv = rng.choice([1, 2, 3])
    kind = rng.choice(["float", "float", "complex"])
    # geometry-free leaves + polynomials in the scaled coordinates
    def leaf(k1, k2):
        nn = [b - a for a, b in zip(k1, k2)]
        k = rng.choice(["vec", "arr", "poly", "poly"])
        if k == "vec":
            return dict(k="vec", v=[gen_num(rng, kind) for _ in range(nv)]) if not (nv == 1 and nn == [1]) else dict(k="scalar", v="1")
        if k == "arr":
            return dict(k="arr", shape=nn + [nv], data=[gen_num(rng, kind) for _ in range(int(np.prod(nn)) * nv)])
        p = gen_poly(rng, kind, nv, ndim)
        p["unit"] = scale                                  # coordinates are divided by `unit` before use
        return p
    if subs and rng.random() < 0.7:
        items = [[name, leaf(k1, k2)] for name, k1, k2 in subs if rng.random() < 0.8]
        spec = dict(k="dict", items=items, default=leaf([0] * ndim, n) if rng.random() < 0.85 else None)
        if spec["default"] and spec["default"]["k"] == "arr" and rng.random() < 0.5:
            spec["default"] = leaf([0] * ndim, n)
    elif rng.random() < 0.25:
        ratio = rng.choice([1, 3])
        up = rng.random() < 0.5
        spec = dict(k="field", tol_src=dict(ratio=ratio, up=up, nvdim=nv, seed=rng.getrandbits(30)))
    else:
        spec = leaf([0] * ndim, n)
    return dict(kind="tol", mesh=ms, subs=subs, dtype=kind, nvdim=nv, vdims=None, dtype_arg=True, spec=spec,
                scale=scale, big=big, sub=rng.getrandbits(32))


OFFSETS = [0.0, 0.0, 1.0, -1.0, -0.5, 17.3, -17.3, 1e3, -1e3, 1e6, -1e6]


def gen_near(rng, tier, big=False):
    """point look-up on arbitrary binary64 meshes: length scales 1e-12 .. 1e9, offsets up to 1e6 edge lengths, 1-4
    dimensions, up to several thousand cells along one axis, every dtype; every cell holds its own value (cell ids),
    sample points and lines close to cell faces and region boundaries (see near_points)"""
    if big:
        ndim = rng.choice([1, 1, 2, 3])
        n = [rng.randint(1, 3) for _ in range(ndim)]
        n[rng.randrange(ndim)] = rng.choice([rng.randint(300, 1200), rng.randint(1200, 6000)])
        while int(np.prod(n)) > 7000 and sorted(n)[-2:-1] not in ([], [1]):
            small = [a for a in range(ndim) if 1 < n[a] < max(n)] or [a for a in range(ndim) if n[a] > 1][:1]
            n[small[0]] -= 1
    else:
        ndim = rng.choice([1, 1, 2, 2, 3, 3, 4])
        n = [rng.randint(1, 9) for _ in range(ndim)]
        while int(np.prod(n)) > 240:
            n[rng.randrange(ndim)] = rng.randint(1, 3)
    if rng.random() < 0.75:
        scale = 10.0 ** rng.randint(-12, 9) * rng.choice([1.0, 1.0, 2.5, 1 / 3, 0.7])
    else:
        scale = 2.0 ** rng.randint(-40, 30)
    if rng.random() < 0.3:                                    # cell sizes that are 'round' decimal numbers (1e-9, 2.5e-10, 5 nm)
        cellsz = [scale * rng.choice([1.0, 2.0, 2.5, 5.0, 0.5]) for _ in range(ndim)]
        edge = [c * k for c, k in zip(cellsz, n)]
    else:
        edge = [scale * rng.choice([1.0, 1 / 3, 0.7, 2.5, 10.0]) * rng.uniform(0.5, 2) for _ in range(ndim)]
    off = rng.choice(OFFSETS)
    mode = rng.random()
    if mode < 0.25:
        pmin = [0.0] * ndim
    elif mode < 0.4:
        pmin = [-e / 2 for e in edge]                        # centred on the origin
    elif mode < 0.5:
        pmin = [-e for e in edge]                            # pmax = 0
    else:
        pmin = [off * e + rng.uniform(-1, 1) * e for e in edge]
    pmax = [a + e for a, e in zip(pmin, edge)]
    p1, p2 = list(pmin), list(pmax)
    for a in range(ndim):                                    # corners in any order
        if rng.random() < 0.3:
            p1[a], p2[a] = p2[a], p1[a]
    ms = dict(p1=p1, p2=p2, n=n, dims=None, bc=_rand_bc(rng, ndim))
    return dict(kind="near", mesh=ms, subs=[], dtype=rng.choice(["float", "float", "int", "complex", "bool"]),
                nvdim=rng.choice([1, 1, 2, 3]), vdims=None, dtype_arg=True, spec=dict(k="ids"), scale=scale, big=big,
                offset=(off if mode >= 0.5 else 0.0), sub=rng.getrandbits(32))


def ids_leaf(n, nv, kind):
    """per-cell array in which face neighbours always differ: float / int / complex: cell id (C order) * (component + 1)
    (+ 1/2, + i id); bool: parity of the index sum (+ component)"""
    data = []
    for flat, idx in enumerate(itertools.product(*[range(k) for k in n])):
        for c in range(nv):
            if kind == "bool":
                data.append(str((sum(idx) + c) % 2))
            elif kind == "int":
                data.append(str((flat + 1) * (c + 1)))
            elif kind == "complex":
                data.append([str((flat + 1) * (c + 1)), str(-flat)])
            else:
                data.append(Q(Fraction(2 * (flat + 1) * (c + 1) + 1, 2)))
    return dict(k="arr", shape=list(n) + [nv], data=data)


def cases(rng, tier):
    quick = tier == "quick"
    # regression for the fixed finding D41 (int / bool dictionaries whose default is callable or missing)
    for kind in ("int", "bool"):
        for mode in ("poly", "none"):
            ms = dict(p1=[0.0, 0.0], p2=[4.0, 2.0], n=[4, 2], dims=None, bc="")
            subs = [["r0", [0, 0], [2, 2]]]
            spec = gen_dict(rng, kind, 1, ms, subs, default_mode=mode)
            spec["items"] = [["r0", dict(k="scalar", v="1")]]
            yield dict(kind="init", mesh=ms, subs=subs, dtype=kind, nvdim=1, vdims=None, dtype_arg=True, spec=spec,
                       spec2=dict(k="scalar", v="0"), bad=dict(k="bad", what="str"), via="update", sub=rng.getrandbits(32))
    for k in range(600 if quick else 6000):
        yield gen_init(rng, tier)
        if k % 3 == 0:
            yield gen_malformed(rng, tier)
        if k % 4 == 0:
            yield gen_tol(rng, tier, big=(k % 80 == 40))
        if k % 5 == 0:
            yield gen_near(rng, tier, big=(k % 50 == 25))
        if k % 5 == 1:
            yield gen_kinds(rng)


def search(case, rng):
    for _ in range(200):
        c = gen_init(rng, "quick", force_kind=case.get("dtype"))
        yield c


# --------------------------------------------------------------------------- running the real code
def _err(fn):
    try:
        return "ok", fn()
    except Exception as e:  # canonicalised: the property says "rejected", not how
        return "err", type(e).__name__


def make_field(mesh, case, value):
    kw = dict(nvdim=case["nvdim"], value=value)
    if case.get("dtype_arg", True):
        kw["dtype"] = np_dtype(case["dtype"])
    if case.get("vdims") is not None:
        kw["vdims"] = list(case["vdims"])
    return df.Field(mesh, **kw)


def vf_json(f, mesh_j=None):
    return dict(mesh=mesh_j or fieldio.mesh_json(f.mesh), nvdim=int(f.nvdim), shape=[int(k) for k in f.array.shape],
                data=arr_nums(f.array), vdims=(list(f.vdims) if f.vdims is not None else None))


def exact_cell(pmin, cell, n, p):
    """index of the cell containing p (lower faces inclusive, the last cell closed), None if outside"""
    idx = []
    for a, c, k, x in zip(pmin, cell, n, p):
        if x < a or x > a + k * c:
            return None
        j = (x - a) / c
        j = j.numerator // j.denominator
        idx.append(min(j, k - 1))
    return tuple(idx)


# rounding band of the look-up floor((p - pmin) / cell) in binary64 (four roundings: the subtraction, the edge length, the
# cell size, the quotient; each <= 2^-53 relative): the quotient q carries an error <= 2^-51 |q|.  A point closer than
# 2^-49 (|q| + 1) cells to a face may be attributed to either neighbour; everywhere else the containing cell is demanded.
BAND = Fraction(1, 2**49)
REL = [Fraction(1, 10**k) for k in range(1, 16)]


def allowed_cells(pmin, cell, n, p):
    """multi-indices the look-up may return for point p: the cell containing p, plus the neighbour across a face that
    is closer than the rounding band; points outside (accepted within the region's tolerance) go to the boundary cell"""
    per_axis = []
    for a, c, k, x in zip(pmin, cell, n, p):
        q = (x - a) / c
        j = q.numerator // q.denominator
        band = BAND * (abs(q) + 1)
        cand = {j}
        if q - j <= band:
            cand.add(j - 1)
        if (j + 1) - q <= band:
            cand.add(j + 1)
        per_axis.append(sorted({min(max(i, 0), k - 1) for i in cand}))
    return list(itertools.product(*per_axis))


def face_dist(pmin, cell, p):
    ds = []
    for a, c, x in zip(pmin, cell, p):
        q = (Fraction(x) - a) / c
        fr = q - (q.numerator // q.denominator)
        ds.append(min(fr, 1 - fr))
    return min(ds)


def region_tol(pmin, pmax, tolf, x):
    """what Region.__contains__ adds to a face when it compares coordinate x with it (np.isclose: atol + rtol |x|)"""
    return min(b - a for a, b in zip(pmin, pmax)) * tolf + tolf * abs(x)


def near_points(rng, pmin, pmax, cell, n, tolf, count, dyadic):
    """points at relative distances 1e-1 .. 1e-15 of a cell (exact regime: 2^-10 .. 2^-36) from a cell face, on either
    side of it, for interior faces and for the faces of the region (both sides: just inside, outside within the region's
    tolerance, outside beyond it - never near the tolerance threshold itself); some near several faces at once (edges,
    corners).  Returns [(tag, [float])]"""
    ndim = len(n)
    out = []
    for _ in range(count):
        idx = [rng.randrange(k) if rng.random() < 0.6 else rng.choice([0, k - 1]) for k in n]
        p = []
        for a in range(ndim):
            t = Fraction(rng.randint(1, 15), 16) if dyadic else Fraction(rng.uniform(0.05, 0.95))
            p.append(pmin[a] + (idx[a] + t) * cell[a])
        ax = rng.randrange(ndim)
        for a in [ax] + [b for b in range(ndim) if b != ax and rng.random() < 0.25]:
            upper = rng.random() < 0.5
            face = pmin[a] + (idx[a] + (1 if upper else 0)) * cell[a]
            if dyadic:
                d = Fraction(1, 2 ** rng.choice([10, 20, 30, 36]))
            else:
                d = rng.choice(REL) * (1 if rng.random() < 0.4 else Fraction(rng.uniform(1, 9.99)))
            into_cell = rng.random() < 0.5
            sgn = (-1 if upper else 1) * (1 if into_cell else -1)
            x = face + sgn * d * cell[a]
            if x < pmin[a] or x > pmax[a]:
                if dyadic:
                    x = face - sgn * d * cell[a]
                else:
                    tol = region_tol(pmin, pmax, tolf, face)
                    dist = d * cell[a]
                    if tol / 4 < dist < 4 * tol:
                        dist = tol / 8 if rng.random() < 0.5 else 8 * tol
                    x = face + sgn * dist
            p[a] = x
        pf = [float(x) for x in p]
        tag = "near"
        for a, x in enumerate(pf):
            x = Fraction(x)
            dist = max(pmin[a] - x, x - pmax[a])
            if dist > 0:
                tol = region_tol(pmin, pmax, tolf, x)
                if dist >= 3 * tol:
                    tag = "near-outside"
                elif dist > tol / 3:
                    tag = None                                 # too close to the tolerance threshold (no property pins it here)
                    break
                elif tag == "near":
                    tag = "near-intol"
        if tag is not None:
            out.append((tag, pf))
    return out


def point_form(rng, p):
    form = rng.choice(["tuple", "list", "array", "npfloat", "scalar" if len(p) == 1 else "tuple"])
    if form == "scalar":
        return form, p[0]
    if form == "list":
        return form, list(p)
    if form == "array":
        return form, np.array(p)
    if form == "npfloat":
        return form, tuple(np.float64(x) for x in p)
    return "tuple", tuple(p)


def probe(f, case, rng, fail, exact=True, nnear=0):
    """sample points, components, iteration and lines of field f; oracle on the real code alone"""
    mesh = f.mesh
    pmin = [Fraction(float(x)) for x in mesh.region.pmin]
    pmax = [Fraction(float(x)) for x in mesh.region.pmax]
    n = [int(k) for k in mesh.n]
    ndim = len(n)
    cell = [(b - a) / k for a, b, k in zip(pmin, pmax, n)]
    nv = f.nvdim
    out = {}
    # ---- points
    pts = []
    for _ in range(4):
        idx = [rng.randrange(k) for k in n]
        pts.append(("centre", [float(x) for x in mesh.index2point(idx)]))
    if exact:
        for _ in range(4):
            pts.append(("face", [float(a + rng.randint(0, k) * c) for a, c, k in zip(pmin, cell, n)]))
        pts.append(("face", [float(x) for x in pmin]))
        pts.append(("face", [float(x) for x in pmax]))
    for _ in range(4):
        fr = [rng.choice([Fraction(1, 4), Fraction(1, 2), Fraction(3, 4), Fraction(1, 8)]) for _ in n]
        pts.append(("interior", [float(a + (rng.randrange(k) + t) * c) for a, c, k, t in zip(pmin, cell, n, fr)]))
    ax = rng.randrange(ndim)
    q = [float(a + c / 2) for a, c in zip(pmin, cell)]
    q[ax] = float(pmax[ax] + cell[ax])
    pts.append(("outside", q))
    q = [float(a + c / 2) for a, c in zip(pmin, cell)]
    q[ax] = float(pmin[ax] - cell[ax] / 2)
    pts.append(("outside", q))
    pts.append(("outside", [float(pmin[0])] * (ndim + 1)))
    tolf = Fraction(float(mesh.region.tolerance_factor))
    pts += near_points(rng, pmin, pmax, cell, n, tolf, nnear, dyadic=exact)
    calls = []
    for tag, p in pts:
        form, arg = point_form(rng, p) if tag.startswith("near") else ("list", p)
        st, v = _err(lambda arg=arg: f(arg))
        row = [val_c(x) for x in np.asarray(v).reshape(-1).tolist()] if st == "ok" else None
        calls.append(dict(tag=tag, p=Qs(p), st=st, row=[num_j(c) for c in row] if row is not None else None))
        if tag.startswith("near"):
            # rows of the cells the look-up may return (rounding band); the model is compared where that is one cell
            # (exact regime: always - dyadic points, no rounding)
            cand = allowed_cells(pmin, cell, n, [Fraction(x) for x in p])
            calls[-1]["clear"] = exact or len(cand) == 1
            calls[-1]["form"] = form
            if tag == "near-outside":                        # acceptance is compared with the model (region tolerance)
                if st == "ok" and (len(row) != nv or row not in [row_c(f.array, c) for c in cand]):
                    fail(f"field({p}) [{form}] just outside the region is accepted and returns {np.asarray(v).tolist()}, "
                         f"not the value of the adjacent cell {cand}")
                continue
            if st != "ok":
                if tag == "near":
                    fail(f"sampling at a point of the region ({tag}, {form}) {p} raised {v}")
                continue
            if len(row) != nv or row not in [row_c(f.array, c) for c in cand]:
                fail(f"field({p}) [{form}] = {np.asarray(v).tolist()} is not the stored value "
                     f"{[f.array[c].tolist() for c in cand]} of the cell {cand} containing the point "
                     f"(distance to the nearest face in cells: {float(face_dist(pmin, cell, p)):.3g})")
            continue
        if tag == "outside":
            if st == "ok":
                fail(f"sampling outside the region accepted: {p}")
            continue
        if st != "ok":
            fail(f"sampling at a point of the region ({tag}) {p} raised {v}")
            continue
        ec = exact_cell(pmin, cell, n, [Fraction(x) for x in p])
        if ec is None or len(row) != nv or row != row_c(f.array, ec):
            fail(f"field({p}) = {np.asarray(v).tolist()} is not the stored value {f.array[ec].tolist() if ec else None} of the "
                 f"cell {ec} containing the point")
    out["calls"] = calls
    # ---- components
    labels = list(f.vdims) if f.vdims is not None else []
    comps = []
    for k, lab in enumerate(labels + ["nosuchlabel"]):
        st, g = _err(lambda lab=lab: getattr(f, lab))
        if lab == "nosuchlabel":
            if st == "ok":
                fail("unknown component label accepted")
            comps.append(dict(label=lab, st=st))
            continue
        if st != "ok":
            fail(f"component {lab} raised {g}")
            comps.append(dict(label=lab, st=st))
            continue
        comps.append(dict(label=lab, st=st, shape=[int(x) for x in g.array.shape], data=arr_nums(g.array)))
        if g.nvdim != 1 or tuple(g.array.shape) != (*n, 1) or not np.array_equal(g.array[..., 0], f.array[..., k]) or g.mesh != f.mesh:
            fail(f"component {lab} is not column {k} of the array on the same mesh")
    out["comps"] = comps
    # ---- iteration
    rows = [[val_c(x) for x in np.asarray(v).reshape(-1).tolist()] for v in f]
    out["iter"] = [[num_j(c) for c in r] for r in rows]
    want = [row_c(f.array, idx) for idx in mesh_order(n)]
    if rows != want:
        fail("iteration does not yield the cells' values in mesh order (first index fastest)")
    # ---- lines
    lines = []
    for trial in range(3):
        m = rng.choice([1, 2, 3, 4, 5, 8])
        a0 = [rng.randint(0, 4 * k) for k in n]
        st_ = [rng.randint(-(a // m), (4 * k - a) // m) for a, k in zip(a0, n)]
        if trial == 0:                                        # axis parallel
            keep = rng.randrange(ndim)
            st_ = [s if i == keep else 0 for i, s in enumerate(st_)]
        p1 = [a + x * c / 4 for a, x, c in zip(pmin, a0, cell)]
        p2 = [x + m * s * c / 4 for x, s, c in zip(p1, st_, cell)]
        bad = trial == 2 and rng.random() < 0.5
        if bad:
            p2[ax] = pmax[ax] + cell[ax]
        if not exact:
            p1 = [a + Fraction(rng.random()) * (b - a) for a, b in zip(pmin, pmax)]
            p2 = [a + Fraction(rng.random()) * (b - a) for a, b in zip(pmin, pmax)] if not bad else p2
            m = rng.randint(1, 9)
            if trial == 1 or (nnear > 8 and not bad):
                # every point of the line at the same small distance (1e-1 .. 1e-15 of a cell) from cell faces:
                # p1 = pmin + (i + t) cell, p2 = p1 + m s cell with whole steps s per axis
                i1 = [rng.randrange(k) for k in n]
                m = rng.randint(1, 8)
                stp = [rng.randint(-(i // m), (k - 1 - i) // m) for i, k in zip(i1, n)]
                t = []
                for _ in n:
                    d = rng.choice(REL) * (1 if rng.random() < 0.4 else Fraction(rng.uniform(1, 9.99)))
                    t.append(rng.choice([d, 1 - d, 1 - d, Fraction(rng.uniform(0.05, 0.95))]))
                p1 = [a + (i + tt) * c for a, i, tt, c in zip(pmin, i1, t, cell)]
                p2 = [x + m * s_ * c for x, s_, c in zip(p1, stp, cell)]
        p1f, p2f = [float(x) for x in p1], [float(x) for x in p2]
        st, ln = _err(lambda: f.line(p1=p1f, p2=p2f, n=m + 1))
        rec = dict(p1=Qs(p1f), p2=Qs(p2f), n=m + 1, st=st, bad=bad)
        if bad:
            if st == "ok":
                fail(f"line with an end point outside the region accepted: {p2f}")
            lines.append(rec)
            continue
        if st != "ok":
            fail(f"line {p1f} -> {p2f} with {m + 1} points raised {ln}")
            lines.append(rec)
            continue
        data = ln.data
        rec["frame"] = [[str(c), [num_j(val_c(x)) for x in data[c].tolist()]] for c in data.columns]
        cols = ["r"] + list(mesh.region.dims) + list(ln.value_columns)
        if len(set(cols)) != len(cols):
            clash = sorted(c for c in set(cols) if cols.count(c) > 1)
            fail(f"line data frame: coordinate column(s) {clash} overwritten by the distance/value column of the same name "
                 f"(dims {list(mesh.region.dims)}, value columns {list(ln.value_columns)}): the points of the line are lost")
            rec["st"] = "collision"
            lines.append(rec)
            continue
        P = data[list(mesh.region.dims)].to_numpy()
        Vv = data[list(ln.value_columns)].to_numpy()
        r = data["r"].to_numpy()
        rec["points"] = [Qs(row) for row in P.tolist()]
        rec["values"] = [[num_j(val_c(x)) for x in row] for row in Vv.tolist()]
        rec["r"] = Qs(r.tolist())
        lines.append(rec)
        if len(P) != m + 1 or Vv.shape != (m + 1, nv):
            fail(f"line returns {len(P)} points x {Vv.shape[1:]} values, requested {m + 1} x {nv}")
            continue
        PF = [[Fraction(x) for x in row] for row in P.tolist()]
        span = max([abs(b - a) for a, b in zip(pmin, pmax)] + [abs(x) for x in pmin + pmax])
        tolp = 0 if exact else Fraction(2) ** -44 * span

        def near(u, v):
            return all(abs(x - y) <= tolp for x, y in zip(u, v))

        if not near(PF[0], [Fraction(x) for x in p1f]) or not near(PF[-1], [Fraction(x) for x in p2f]):
            fail(f"line does not run from p1 to p2 inclusive: first {P[0].tolist()} last {P[-1].tolist()} for {p1f} -> {p2f}")
        d0 = [(Fraction(b) - Fraction(a)) / m for a, b in zip(p1f, p2f)]
        for j in range(m + 1):
            if not near(PF[j], [Fraction(a) + j * d for a, d in zip(p1f, d0)]):
                fail(f"line points are not equidistant: point {j} is {P[j].tolist()} on {p1f} -> {p2f} with {m + 1} points")
                break
        for j in range(m + 1):
            sv = np.asarray(f(tuple(P[j].tolist()))).reshape(-1)
            if [val_c(x) for x in sv.tolist()] != [val_c(x) for x in Vv[j].tolist()]:
                fail(f"line value {j} {Vv[j].tolist()} is not the field sampled at that point {sv.tolist()}")
                break
            cand = allowed_cells(pmin, cell, n, PF[j])
            if [val_c(x) for x in Vv[j].tolist()] not in [row_c(f.array, c) for c in cand]:
                fail(f"line value {j} {Vv[j].tolist()} at point {P[j].tolist()} is not the stored value "
                     f"{[f.array[c].tolist() for c in cand]} of the cell {cand} containing that point")
                break
            d2 = sum((a - b) ** 2 for a, b in zip(PF[j], PF[0]))
            rj = Fraction(float(r[j]))
            if abs(rj * rj - d2) > Fraction(2) ** -48 * max(d2, Fraction(1, 10**300)):
                fail(f"line distance {j}: r = {r[j]} but the point is sqrt({float(d2)}) from p1")
                break
    # ---- fewer than two points: the property demands nothing, the outcome is compared with the model
    k = rng.choice([0, 1])
    q1 = [float(a + c / 2) for a, c in zip(pmin, cell)]
    q2 = [float(b - c / 2) for b, c in zip(pmax, cell)] if rng.random() < 0.5 else q1
    with np.errstate(all="ignore"):
        with warnings.catch_warnings():
            warnings.simplefilter("ignore")
            st, ln = _err(lambda: f.line(p1=q1, p2=q2, n=k))
    lines.append(dict(p1=Qs(q1), p2=Qs(q2), n=k, st=st, bad=False, short=True))
    out["lines"] = lines
    return out


def fn_tags(where, leaf, nv):
    if leaf["k"] != "poly":
        return []
    k = len(leaf["comps"])
    if leaf.get("ret"):
        return [f"fn:{where}:returns-{leaf['ret']}"]
    cnt = "right" if k == nv else "0" if k == 0 else "1-for-more" if k == 1 else "fewer" if k < nv else "more"
    return [f"fn:{where}:count-{cnt}", f"fn:style-{leaf.get('style', 'tuple')}:count-{'right' if k == nv else 'wrong'}"]


def tol_tags(case, mesh):
    sc = float(np.min(mesh.cell))
    edges = [float(b) - float(a) for a, b in zip(mesh.region.pmin, mesh.region.pmax)]
    far = max(max(abs(float(a)), abs(float(b))) / e for a, b, e in zip(mesh.region.pmin, mesh.region.pmax, edges))
    nmax = int(max(mesh.n))
    return [f"cell-decade:1e{math.floor(math.log10(sc))}",
            "offset/edge:" + ("<=1" if far <= 1 else "<=30" if far <= 30 else "<=3e3" if far <= 3e3 else ">3e3"),
            "nmax:" + ("<10" if nmax < 10 else "<300" if nmax < 300 else "<1200" if nmax < 1200 else ">=1200")]


def tol_source(case, mesh, rng2):
    ts = case["spec"]["tol_src"]
    ns = [int(k) * ts["ratio"] for k in mesh.n]
    sm = df.Mesh(region=mesh.region, n=ns)
    arr = np.array([float(rng2.randint(-20, 20)) for _ in range(int(np.prod(ns)) * ts["nvdim"])]).reshape(*ns, ts["nvdim"])
    if case["dtype"] == "complex":
        arr = arr * (1 + 2j)
    return df.Field(sm, nvdim=ts["nvdim"], value=arr, dtype=np_dtype(case["dtype"]))


# --------------------------------------------------------------------------- sessions (ownership) and value kinds
def gen_session_prog(rng, kind, nv, ms):
    """a short program over two field objects on one discretisation and one array owned by the caller: assignments
    through setter / update_field_values / constructor whose source is another field object, a field's .array, the
    caller's array or a plain value, mixed with in-place writes into every array"""
    n = list(ms["n"])
    nobj, prog = 2, []

    nbuf = 2 if nv == 1 else 1                              # scalar fields: a second caller array of the cells' shape `n`

    def idx(b=0):
        return [rng.randrange(k) for k in n] + ([rng.randrange(nv)] if b == 0 else [])

    def src():
        r = rng.random()
        if r < 0.4:
            return dict(obj=rng.randrange(nobj))
        if r < 0.6:
            return dict(objarr=rng.randrange(nobj))
        if r < 0.8:
            return dict(buf=rng.randrange(nbuf))
        if r < 0.86:
            return dict(leaf=dict(k="bad", what="str"))
        return dict(leaf=gen_leaf(rng, kind, nv, ms, [0] * len(n), n, allow_field=False))

    for _ in range(rng.randint(4, 7)):
        r = rng.random()
        if r < 0.45:
            op = rng.choice(["set", "set", "upd", "upd", "new"])
            if op == "new" and nobj >= 4:
                op = "set"
            prog.append(dict(op=op, i=rng.randrange(nobj), src=src()))
            if op == "new":
                nobj += 1                                   # (a rejected constructor adds no object: see run_session)
        elif r < 0.7:
            prog.append(dict(op="pokeobj", i=rng.randrange(nobj), j=idx(), v=gen_num(rng, kind)))
        elif r < 0.8:
            prog.append(dict(op="fillobj", i=rng.randrange(nobj), v=gen_num(rng, kind)))
        elif r < 0.93:
            b = rng.randrange(nbuf)
            prog.append(dict(op="pokebuf", b=b, j=idx(b), v=gen_num(rng, kind)))
        else:
            prog.append(dict(op="fillbuf", b=rng.randrange(nbuf), v=gen_num(rng, kind)))
    return prog


def run_session(case, mesh, kind, nv, rng, fail, obs):
    """runs a session program on real objects; after every statement the arrays of ALL objects and of the caller's array
    are recorded (compared with the store model) and the ownership oracle is applied: a statement changes the array of
    the object it addresses and nothing else"""
    dt = np_dtype(kind)
    shape = tuple(int(k) for k in mesh.n) + (nv,)
    size = int(np.prod(shape))

    def rnd_arr():
        return np.array([num_py(gen_num(rng, kind), kind) for _ in range(size)], dtype=dt).reshape(shape)

    same_obj = rng.random() < 0.5
    gm = mesh if same_obj else df.Mesh(region=df.Region(p1=mesh.region.pmin, p2=mesh.region.pmax,
                                                         dims=list(mesh.region.dims)), n=mesh.n)
    vd = None if nv <= 3 else [f"c{i}" for i in range(nv)]
    objs = [df.Field(mesh, nvdim=nv, value=rnd_arr(), dtype=dt, vdims=vd), df.Field(gm, nvdim=nv, value=rnd_arr(), dtype=dt, vdims=vd)]
    bufs = [rnd_arr()]
    if nv == 1:
        bufs.append(rnd_arr()[..., 0].copy())
    ms = dict(case["mesh"], n=[int(k) for k in mesh.n])
    prog = gen_session_prog(rng, kind, nv, ms)
    mjs = [obs["mesh_json"], fieldio.mesh_json(gm)]
    sess = dict(fields=[vf_json(o, mj) for o, mj in zip(objs, mjs)],
                bufs=[dict(shape=list(b.shape), data=arr_nums(b)) for b in bufs], prog=[], states=[])
    dims = list(mesh.region.dims)
    for c in prog:
        c = dict(c)
        if c["op"] in ("set", "upd", "new", "pokeobj", "fillobj") and c["i"] >= len(objs):
            c["i"] = len(objs) - 1                              # an earlier constructor call was rejected
        before = [o.array.copy() for o in objs] + [b.copy() for b in bufs]
        target = None                                           # position in `before` of the one array allowed to change
        if c["op"] in ("set", "upd", "new"):
            sj = dict(c["src"])
            if "obj" in sj:
                sj["obj"] = min(sj["obj"], len(objs) - 1)
                val = objs[sj["obj"]]
            elif "objarr" in sj:
                sj["objarr"] = min(sj["objarr"], len(objs) - 1)
                val = objs[sj["objarr"]].array
            elif "buf" in sj:
                val = bufs[sj["buf"]]
            else:
                built = {}
                val = build_leaf(sj["leaf"], kind, dims, built)
                sj = dict(spec=leaf_json(sj["leaf"], built))
            c["src"] = sj
            o = objs[c["i"]]
            if c["op"] == "set":
                st, e = _err(lambda: setattr(o, "array", val))
                target = c["i"]
            elif c["op"] == "upd":
                st, e = _err(lambda: o.update_field_values(val))
                target = c["i"]
            else:
                st, e = _err(lambda: df.Field(o.mesh, nvdim=nv, value=val, dtype=dt, vdims=o.vdims))
                if st == "ok":
                    objs.append(e)
                    mjs.append(mjs[c["i"]])
            if st != "ok":
                target = None
        elif c["op"] == "pokeobj":
            st, e = _err(lambda: objs[c["i"]].array.__setitem__(tuple(c["j"]), num_py(c["v"], kind)))
            target = c["i"]
        elif c["op"] == "fillobj":
            st, e = _err(lambda: objs[c["i"]].array.__setitem__(Ellipsis, num_py(c["v"], kind)))
            target = c["i"]
        elif c["op"] == "pokebuf":
            st, e = _err(lambda: bufs[c["b"]].__setitem__(tuple(c["j"]), num_py(c["v"], kind)))
            target = len(objs) + c["b"]
        else:
            st, e = _err(lambda: bufs[c["b"]].__setitem__(Ellipsis, num_py(c["v"], kind)))
            target = len(objs) + c["b"]
        if "v" in c:
            c["v"] = num_j(num_c(c["v"]))
        sess["prog"].append(c)
        nb = len(before) - len(bufs)                            # number of objects before the statement
        after = [o.array for o in objs[:nb]] + list(bufs)
        for k, (x, y) in enumerate(zip(before, after)):
            if k != target and not (x.shape == y.shape and np.array_equal(x, y)):
                who = f"field object {k}" if k < nb else "the caller's array"
                fail(f"session statement {c['op']} (target {'object ' + str(c.get('i')) if 'i' in c else 'caller array'}) changed "
                     f"the array of {who}: arrays are shared between objects")
        sess["states"].append(dict(accepted=(st == "ok"), objs=[dict(shape=list(o.array.shape), data=arr_nums(o.array)) for o in objs],
                                   bufs=[dict(shape=list(b.shape), data=arr_nums(b)) for b in bufs]))
        obs["tags"].append(f"session:{c['op']}" + (":" + next(iter(c["src"])) if "src" in c else "") + ":" + st)
    obs["session"] = sess


KIND_CHAR = {"b": "bool", "i": "int", "u": "int", "f": "float", "c": "complex"}
KINDS4 = ["bool", "int", "float", "complex"]


def gen_kinds(rng):
    """which dtype the stored array gets: value kind x requested dtype (or none) x form of the specification x path"""
    ndim = rng.choice([1, 2, 2, 3])
    n = [rng.randint(1, 3) for _ in range(ndim)]
    ms = dict(p1=[0.0] * ndim, p2=[float(k) for k in n], n=n, dims=None, bc="")
    subs = gen_subs(rng, n, rng.choice([0, 1, 2]))
    nv = rng.choice([1, 1, 2, 3])
    vk = rng.choice(KINDS4)
    form = rng.choice(["scalar", "vec", "arr", "arrcell", "poly", "dict", "field"])
    req = rng.choice([None, None, None] + KINDS4)
    if vk == "complex" and req in ("bool", "int", "float"):
        # complex values for a real dtype are outside the ASSUMPTION 'representable': NumPy casts complex ARRAYS with a
        # warning but refuses a sequence of Python complex numbers (np.array((1+0j,), dtype=float) raises TypeError)
        req = rng.choice([None, "complex"])
    if vk == "complex" and form == "dict":
        req = "complex"                                      # "dtype must be specified by the user for complex values"
    one = lambda: str(rng.randint(0, 1))
    cells = int(np.prod(n))
    if form == "scalar":
        spec = dict(k="scalar", v=(one() if nv == 1 else "0"))
    elif form == "vec":
        spec = dict(k="vec", v=[one() for _ in range(nv)], **{"as": rng.choice(["tuple", "list"])})
    elif form == "arrcell" and nv == 1:
        spec = dict(k="arr", shape=list(n), data=[one() for _ in range(cells)])
    elif form in ("arr", "arrcell"):
        spec = dict(k="arr", shape=list(n) + [nv], data=[one() for _ in range(cells * nv)])
    elif form == "poly":
        spec = dict(k="poly", comps=[[dict(c=one(), e=[0] * ndim)] for _ in range(nv)], style=rng.choice(["tuple", "list", "array"]))
    elif form == "dict":
        items = [[name, (dict(k="scalar", v=(one() if nv == 1 else "0")) if rng.random() < 0.5 else
                         dict(k="vec", v=[one() for _ in range(nv)]))] for name, k1, k2 in subs if rng.random() < 0.8]
        dm = rng.choice(["const", "poly", "field"])
        if dm == "const":
            dflt = dict(k="vec", v=[one() for _ in range(nv)]) if nv > 1 or n != [1] else dict(k="scalar", v=one())
        elif dm == "poly":
            dflt = dict(k="poly", comps=[[dict(c=one(), e=[0] * ndim)] for _ in range(nv)])
        else:
            dflt = dict(k="field", src=dict(p1=ms["p1"], p2=ms["p2"], n=list(n), nvdim=nv, data=[one() for _ in range(cells * nv)]))
        spec = dict(k="dict", items=items, default=dflt)
    else:
        spec = dict(k="field", src=dict(p1=ms["p1"], p2=ms["p2"], n=list(n), nvdim=nv, data=[one() for _ in range(cells * nv)]))
    return dict(kind="kinds", mesh=ms, subs=subs, dtype=vk, req=req, nvdim=nv, vdims=None, spec=spec, sub=rng.getrandbits(32))


def run_kinds(case, obs):
    vk, req, nv = case["dtype"], case["req"], case["nvdim"]
    obs["tags"] += [f"valuekind:{vk}", f"requested:{req}", "form:" + case["spec"]["k"]]
    st, mesh = _err(lambda: build_mesh(case["mesh"], case["subs"]))
    if st != "ok":
        obs["skip"] = True
        return obs
    obs["mesh_json"] = fieldio.mesh_json(mesh)
    dims = list(mesh.region.dims)
    built = {}
    value = build_value(case["spec"], vk, dims, built)
    obs["spec_json"] = spec_json(case["spec"], built)
    kw = {} if req is None else {"dtype": np_dtype(req)}
    out = {}
    with warnings.catch_warnings():
        warnings.simplefilter("ignore")                       # complex -> real casts warn (values have no imaginary part)
        for path in ("ctor", "upd", "set"):
            if path == "ctor":
                st, f = _err(lambda: df.Field(mesh, nvdim=nv, value=value, **kw))
            else:
                f = df.Field(mesh, nvdim=nv, **kw)
                if path == "upd":
                    st, e = _err(lambda: f.update_field_values(value))
                else:
                    st, e = _err(lambda: setattr(f, "array", value))
            out[path] = KIND_CHAR.get(f.array.dtype.kind, f.array.dtype.kind) if st == "ok" else "err"
            obs["tags"].append(f"kind:{path}:{out[path]}")
            if st != "ok":
                obs["oracle"].append(f"well-formed 0/1-valued specification rejected ({path}, dtype={req}, value kind {vk}): "
                                     f"{describe(case['spec'])}")
    obs["kinds"] = out
    if req is None and vk in ("bool", "int") and out["set"] != "err" and out["upd"] != "err":
        narrow = (case["spec"]["k"] == "field" or
                  (case["spec"]["k"] in ("arr", "vec") and nv == 1 and
                   list(case["spec"].get("shape", [len(case["spec"].get("v", []))])) == [int(q) for q in mesh.n]))
        if narrow:
            obs["tags"].append("setter-narrow-kind:" + ("as-model" if out["set"] == vk else "widened"))
    obs["nontrivial"] = req is None or req != vk
    return obs


def run_impl(case):
    rng = random.Random(case["sub"])
    kind, nv = case["dtype"], case["nvdim"]
    obs = {"oracle": [], "tags": [f"kind:{case['kind']}", f"dtype:{kind}", f"nvdim:{nv}", f"ndim:{len(case['mesh']['n'])}",
                                  f"subs:{len(case['subs'])}"]}
    fail = obs["oracle"].append
    if case["kind"] == "kinds":
        return run_kinds(case, obs)
    exact = case["kind"] not in ("tol", "near")
    st, mesh = _err(lambda: build_mesh(case["mesh"], case["subs"]) if exact else None)
    if not exact:
        base = fieldio.build_mesh(case["mesh"])
        sr = {}
        for name, k1, k2 in case["subs"]:
            vs = [getattr(base.vertices, d) for d in base.region.dims]
            sr[name] = df.Region(p1=[float(v[k]) for v, k in zip(vs, k1)], p2=[float(v[k]) for v, k in zip(vs, k2)])
        st, mesh = _err(lambda: fieldio.build_mesh(case["mesh"], subregions=sr or None))
    if st != "ok":
        obs["tags"].append("mesh-rejected")          # subregion acceptance is C14's business
        obs["skip"] = True
        return obs
    obs["mesh_json"] = fieldio.mesh_json(mesh)
    dims = list(mesh.region.dims)
    built = {}
    spec = case["spec"]
    if spec["k"] == "ids":
        spec = ids_leaf([int(k) for k in mesh.n], nv, kind)
        obs["tags"].append("spec:ids")
    if case["kind"] in ("tol", "near"):
        obs["tags"] += tol_tags(case, mesh)
    if spec["k"] == "field" and "tol_src" in spec:
        src = tol_source(case, mesh, random.Random(spec["tol_src"]["seed"]))
        built[id(spec)] = src
        value = src
    else:
        value = build_value(spec, kind, dims, built)
    obs["tags"].append("spec:" + spec["k"] + ((":" + (spec["default"]["k"] if spec["default"] else "nodefault")) if spec["k"] == "dict" else ""))
    if spec["k"] == "dict":
        for _, l in spec["items"]:
            obs["tags"].append("dictleaf:" + l["k"])
    leaves = [("leaf", spec)] if spec["k"] != "dict" else \
        [("dictleaf", l) for _, l in spec["items"]] + ([("default", spec["default"])] if spec["default"] else [])
    if case["kind"] == "init":
        leaves.append(("rejected-" + case["via"], case["bad"]))
    for where, l in leaves:
        obs["tags"] += fn_tags(where, l, nv)
    scale = 1.0
    validity = spec_validity(spec, kind, nv, mesh, built)
    obs["validity"] = validity
    obs["tags"].append("validity:" + validity)
    if validity == "obs":
        obs["tags"].append("obs:broadcast-accepted")
    obs["spec_json"] = spec_json(spec, built) if not (spec["k"] == "field" and "tol_src" in spec) else dict(k="field", src=src_json(built[id(spec)]))

    if case["kind"] == "malformed" and case["via"] != "ctor":
        # existing field, then the assignment under test
        bbuilt = {}
        f = make_field(mesh, case, build_value(case["base"], kind, dims, bbuilt))
        obs["before"] = vf_json(f, obs["mesh_json"])
        snap = f.array.copy()
        if case["via"] == "update":
            st, e = _err(lambda: f.update_field_values(value))
        else:
            st, e = _err(lambda: setattr(f, "array", value))
        obs["st"] = st
        obs["after"] = vf_json(f, obs["mesh_json"])
        if validity == "invalid":
            if st == "ok":
                fail(f"specification of the wrong shape, component count or type accepted by {case['via']}: {describe(spec)}")
            elif not (f.array.shape == snap.shape and np.array_equal(f.array, snap) and f.array.dtype == snap.dtype):
                fail(f"rejected assignment ({case['via']}) changed the field")
        elif st == "ok":
            check_array(spec, kind, nv, mesh, f, built, True, scale, fail)
        obs["nontrivial"] = st == "err"
        return obs

    st, f = _err(lambda: make_field(mesh, case, value))
    obs["st"] = st
    lmode = case.get("vdims_mode")
    if lmode:
        obs["tags"].append("labels:" + lmode + (":rejected" if st == "err" else ""))
    if st == "err":
        obs["exc"] = f
        if validity == "valid" and lmode not in ("count", "dup", "reserved"):
            fail(f"well-formed specification rejected ({f}): {describe(spec)}")
        obs["nontrivial"] = case["kind"] == "malformed"
        return obs
    if validity == "invalid" and case["kind"] == "malformed":
        fail(f"specification of the wrong shape, component count or type accepted by the constructor: {describe(spec)}")
    nums = arr_nums(f.array)
    if nums is None:
        fail("the field holds non-finite values although the specification has none")
        obs["skip"] = True
        return obs
    obs["array"] = dict(shape=[int(k) for k in f.array.shape], data=nums)
    obs["vdims"] = list(f.vdims) if f.vdims is not None else None
    if not exact:
        pm = obs["mesh_json"]["region"]
        scale = 1.0
    check_array(spec, kind, nv, mesh, f, built, exact, scale, fail)
    obs["nontrivial"] = len(mesh) >= 2 and len(set(map(str, nums))) > 1
    if case["kind"] == "malformed":
        return obs
    obs["field"] = vf_json(f, obs["mesh_json"])
    obs["probe"] = probe(f, case, rng, fail, exact=exact,
                         nnear={"init": 4, "tol": 6, "near": 60 if case.get("big") else 36}.get(case["kind"], 0))
    for c in obs["probe"]["calls"]:
        if c["tag"].startswith("near"):
            obs["tags"].append(f"{c['tag']}:{c['st']}" + ("" if c.get("clear", True) else ":in-rounding-band"))
            obs["tags"].append("pointform:" + c["form"])
    if case["kind"] in ("tol", "near"):
        return obs
    # ---- a second, valid assignment through update_field_values, then a rejected one
    built2 = {}
    v2 = build_value(case["spec2"], kind, dims, built2)
    val2 = spec_validity(case["spec2"], kind, nv, mesh, built2)
    obs["spec2_json"] = spec_json(case["spec2"], built2)
    snap = f.array.copy()
    via2 = case.get("via2", "update")
    obs["tags"].append("second-assignment:" + via2 + ":" + case["spec2"]["k"])
    if via2 == "setter":
        st2, e2 = _err(lambda: setattr(f, "array", v2))
    else:
        st2, e2 = _err(lambda: f.update_field_values(v2))
    obs["st2"] = st2
    obs["after2"] = vf_json(f, obs["mesh_json"])
    if st2 == "ok":
        check_array(case["spec2"], kind, nv, mesh, f, built2, True, scale, fail)
    else:
        if val2 == "valid":
            fail(f"well-formed specification rejected by {'the array setter' if via2 == 'setter' else 'update_field_values'} ({e2}): {describe(case['spec2'])}")
        if not np.array_equal(f.array, snap):
            fail(f"rejected {'array setter' if via2 == 'setter' else 'update_field_values'} changed the field")
    built3 = {}
    v3 = build_leaf(case["bad"], kind, dims, built3)
    obs["bad_json"] = leaf_json(case["bad"], built3)
    snap = f.array.copy()
    if case["via"] == "update":
        st3, e3 = _err(lambda: f.update_field_values(v3))
    else:
        st3, e3 = _err(lambda: setattr(f, "array", v3))
    obs["st3"] = st3
    obs["after3"] = vf_json(f, obs["mesh_json"])
    if st3 == "ok":
        fail(f"specification of the wrong shape, component count or type accepted by {case['via']}: {describe(case['bad'])}")
    elif not (f.array.shape == snap.shape and np.array_equal(f.array, snap) and f.array.dtype == snap.dtype):
        fail(f"rejected assignment ({case['via']}) changed the field")
    # ---- fourth step of the history: the array the field was created with is assigned back through the setter
    if st3 != "ok" and obs["after2"]["data"] is not None:
        arr0 = np.array([num_py(x if isinstance(x, str) else list(x), kind) for x in obs["array"]["data"]],
                        dtype=np_dtype(kind)).reshape(obs["array"]["shape"])
        st4, e4 = _err(lambda: setattr(f, "array", arr0))
        obs["st4"] = st4
        obs["after4"] = vf_json(f, obs["mesh_json"])
        if st4 != "ok":
            fail(f"array of shape (*n, nvdim) rejected by the array setter ({e4})")
        elif not (tuple(f.array.shape) == tuple(arr0.shape) and np.array_equal(f.array, arr0)):
            fail("the array setter does not store the per-cell array it is given")
    # ---- fifth step: a source field on the SAME discretisation (same mesh object / an equal mesh), assigned through
    # the setter / update_field_values / the constructor; afterwards either field is changed in place and the other
    # one must still hold what was assigned to it (the stored value is the specification's, not a view of the source)
    if st3 != "ok":
        k5 = case["sub"] if "sub" in case else len(mesh)
        same_obj = k5 % 2 == 0
        via5 = ["setter", "update", "ctor"][(k5 // 2) % 3]
        gm = mesh if same_obj else df.Mesh(region=df.Region(p1=mesh.region.pmin, p2=mesh.region.pmax, dims=list(mesh.region.dims)), n=mesh.n)
        base = np.arange(f.array.size).reshape(f.array.shape) % 17 - 8
        g = df.Field(gm, nvdim=f.nvdim, value=base.astype(f.array.dtype), dtype=f.array.dtype, vdims=f.vdims)
        want = np.array(g.array)
        if via5 == "setter":
            st5, e5 = _err(lambda: setattr(f, "array", g))
            h = f
        elif via5 == "update":
            st5, e5 = _err(lambda: f.update_field_values(g))
            h = f
        else:
            st5, h = _err(lambda: df.Field(mesh, nvdim=f.nvdim, value=g, dtype=f.array.dtype, vdims=f.vdims))
            e5 = h
        obs["tags"].append(f"same-mesh-source:{via5}:{'same-object' if same_obj else 'equal-mesh'}:{st5}")
        if st5 != "ok":
            fail(f"a source field on the same mesh was rejected ({via5}): {e5}")
        elif not np.array_equal(h.array, want):
            fail(f"a source field on the same mesh ({via5}) is not taken over cell by cell")
        else:
            g.array[...] = 99
            if not np.array_equal(h.array, want):
                fail(f"after assigning a source field on the same mesh ({via5}), changing the SOURCE in place changed the target: "
                     "the stored values are no longer the specification evaluated at the cell centres")
            g.array[...] = want
            h.array[...] = h.array * 2 + 1
            if not np.array_equal(g.array, want):
                fail(f"after assigning a source field on the same mesh ({via5}), changing the TARGET in place changed the source")
    # ---- sixth step: a session of field objects and a caller-owned array on this mesh (ownership: compared with the
    # store model statement by statement)
    if len(mesh) * nv <= 96 and case["sub"] % 3 == 0:
        run_session(case, mesh, kind, nv, rng, fail, obs)
    return obs


def describe(spec):
    k = spec["k"]
    if k == "dict":
        return "dict{" + ", ".join(f"{n}: {describe(l)}" for n, l in spec["items"]) + \
            (", default: " + describe(spec["default"]) if spec["default"] else "") + "}"
    if k == "scalar":
        return f"scalar {spec['v']}"
    if k == "vec":
        return f"vector of length {len(spec['v'])}"
    if k == "arr":
        return f"array of shape {tuple(spec['shape'])}"
    if k == "poly":
        if spec.get("ret"):
            return f"callable returning {'None' if spec['ret'] == 'none' else 'a string'}"
        return f"callable returning {len(spec['comps'])} values ({spec.get('style', 'tuple')})"
    if k == "ids":
        return "per-cell array of cell ids"
    if k == "field":
        s = spec.get("src")
        return f"field(nvdim={s['nvdim']}, n={s['n']}, {s['p1']}..{s['p2']})" if s else "field"
    return f"{spec.get('what')}"


# --------------------------------------------------------------------------- model side
def model_requests(case, obs):
    if obs.get("skip") or "mesh_json" not in obs:
        return []
    mj, nv = obs["mesh_json"], case["nvdim"]
    reqs = _model_requests(case, obs, mj, nv)
    if case.get("big") and case["spec"]["k"] == "field" and reqs and reqs[0].get("op") == "new":
        # the model's nearest-centre scan is quadratic in the source size: for a source field with thousands of cells the
        # driver computes the source cell by its closed formula (theorem field_fast_path_equal: same result)
        reqs[0]["fast"] = True
    return reqs


def _model_requests(case, obs, mj, nv):
    if case["kind"] == "kinds":
        return [dict(op="kinds", mesh=mj, nvdim=nv, spec=obs["spec_json"], vk=case["dtype"], dtype=case["req"])]
    if case["kind"] == "malformed" and case["via"] != "ctor":
        if obs["before"]["data"] is None:
            return []
        if case["via"] == "update":
            return [dict(op="update", field=obs["before"], spec=obs["spec_json"])]
        if obs["spec_json"]["k"] == "dict":
            return [dict(op="set_spec", field=obs["before"], spec=obs["spec_json"])]
        return [dict(op="set_array", field=obs["before"], leaf=obs["spec_json"])]
    reqs = [dict(op="new", mesh=mj, nvdim=nv, spec=obs["spec_json"],
                 vdims=(list(case["vdims"]) if case.get("vdims") is not None else None), reserved=reserved_names())]
    if obs.get("st") != "ok" or "field" not in obs:
        return reqs
    pr = obs["probe"]
    reqs.append(dict(op="probe", field=obs["field"], calls=[c["p"] for c in pr["calls"]],
                     comps=[c["label"] for c in pr["comps"]], iter=True,
                     lines=[dict(p1=l["p1"], p2=l["p2"], n=l["n"]) for l in pr["lines"]]))
    if case["kind"] == "init":
        via2 = case.get("via2", "update")
        reqs.append(dict(op=("set_spec" if via2 == "setter" else "update"), field=obs["field"], spec=obs["spec2_json"]))
        if obs["after2"]["data"] is not None:
            if case["via"] == "update":
                reqs.append(dict(op="update", field=obs["after2"], spec=obs["bad_json"]))
            else:
                reqs.append(dict(op="set_array", field=obs["after2"], leaf=obs["bad_json"]))
            if "after4" in obs and obs["after4"]["data"] is not None:
                # the whole history in one go: accepted update, rejected assignment, accepted setter
                reqs.append(dict(op="history", field=obs["field"], ops=[
                    (dict(sets=obs["spec2_json"]) if via2 == "setter" else dict(upd=obs["spec2_json"])),
                    (dict(upd=obs["bad_json"]) if case["via"] == "update" else dict(set=obs["bad_json"])),
                    dict(set=dict(k="arr", shape=obs["array"]["shape"], data=obs["array"]["data"]))]))
    if "session" in obs:
        ss = obs["session"]
        if all(f["data"] is not None for f in ss["fields"]):
            reqs.append(dict(op="session", fields=ss["fields"], bufs=ss["bufs"], prog=ss["prog"]))
    return reqs


def cmp_nums(name, impl, model, exact, dis, scale=1.0, rel=2**-36):
    if impl is None:
        dis.append(f"{name}: impl holds non-finite values")
        return False
    if len(impl) != len(model):
        dis.append(f"{name}: {len(impl)} entries vs model {len(model)}")
        return False
    for k, (a, b) in enumerate(zip(impl, model)):
        x, y = resp_c(a), resp_c(b)
        if exact:
            ok = x == y
        else:
            ok = all(abs(u - v) <= Fraction(rel) * max(abs(v), Fraction(scale)) for u, v in zip(x, y))
        if not ok:
            dis.append(f"{name}: entry {k}: impl {a} vs model {b}")
            return False
    return True


def cmp_array(name, impl, model, exact, dis):
    if impl["shape"] != model["shape"]:
        dis.append(f"{name}: shape impl {impl['shape']} vs model {model['shape']}")
        return
    cmp_nums(name, impl["data"], model["data"], exact, dis)


def cmp_after(name, st, after, resp, dis):
    if resp["accepted"] != (st == "ok"):
        dis.append(f"{name}: impl {'accepted' if st == 'ok' else 'rejected'} vs model {'accepted' if resp['accepted'] else 'rejected'}")
        return
    cmp_array(name + " (state after)", dict(shape=after["shape"], data=after["data"]), resp["state"], True, dis)


def compare(case, obs, rs):
    dis = []
    if not rs:
        return dis
    exact = case["kind"] not in ("tol", "near")
    if case["kind"] == "kinds":
        k = obs["kinds"]
        # the setter's single conversion keeps a bool / int kind when no dtype is requested (cell-shaped array of a scalar
        # field, source field): no property pins that quirk, so a library that widens to the kind of the two-pass paths
        # there is not reported (tags setter-narrow-kind:as-model / :widened show what the tree under test does)
        set_ok = k["set"] == rs[0]["set"] or (case["req"] is None and rs[0]["set"] in ("bool", "int") and k["set"] == rs[0]["upd"])
        if k["ctor"] != rs[0]["upd"] or k["upd"] != rs[0]["upd"] or not set_ok:
            dis.append(f"dtype of the stored array (value kind {case['dtype']}, requested {case['req']}, {describe(case['spec'])}): "
                       f"impl constructor {k['ctor']} / update_field_values {k['upd']} / setter {k['set']} vs model "
                       f"{rs[0]['upd']} / {rs[0]['upd']} / {rs[0]['set']}")
        return dis
    if case["kind"] == "malformed" and case["via"] != "ctor":
        cmp_after(f"{case['via']}({describe(case['spec'])})", obs["st"], obs["after"], rs[0], dis)
        return dis
    r = rs[0]
    if ("ok" in r) != (obs["st"] == "ok"):
        dis.append(f"Field(value={describe(case['spec'])}): impl {obs['st']} {obs.get('exc', '')} vs model {'ok' if 'ok' in r else r}")
        return dis
    if obs["st"] != "ok":
        return dis
    cmp_array("Field.array", obs["array"], r["ok"]["array"], exact, dis)
    if obs.get("vdims") != r["ok"]["vdims"]:
        dis.append(f"Field.vdims (given {case.get('vdims')}, nvdim {case['nvdim']}): impl {obs.get('vdims')} vs model {r['ok']['vdims']}")
    if len(rs) < 2:
        return dis
    pr, mp = obs["probe"], rs[1]
    for c, m in zip(pr["calls"], mp["calls"]):
        if ("ok" in m) != (c["st"] == "ok"):
            dis.append(f"field({c['p']}) [{c['tag']}]: impl {c['st']} vs model {m}")
        elif c["st"] == "ok" and c.get("clear", True):
            cmp_nums(f"field({c['p']}) [{c['tag']}]", c["row"], m["ok"], True, dis)
    for c, m in zip(pr["comps"], mp["comps"]):
        if ("ok" in m) != (c["st"] == "ok"):
            dis.append(f"component {c['label']}: impl {c['st']} vs model {m}")
        elif c["st"] == "ok":
            cmp_array(f"component {c['label']}", c, m["ok"], True, dis)
    mit = mp["iter"]
    if len(mit) != len(pr["iter"]):
        dis.append(f"iteration length impl {len(pr['iter'])} vs model {len(mit)}")
    else:
        for k, (a, b) in enumerate(zip(pr["iter"], mit)):
            if "ok" not in b or not cmp_nums(f"iteration item {k}", a, b["ok"], True, dis):
                if "ok" not in b:
                    dis.append(f"iteration item {k}: model {b}")
                break
    for l, m in zip(pr["lines"], mp["lines"]):
        name = f"line({l['p1']} -> {l['p2']}, n={l['n']})"
        if ("ok" in m) != (l["st"] in ("ok", "collision")):
            dis.append(f"{name}: impl {l['st']} vs model {m}")
            continue
        if "frame" in l:
            cmp_frame(name, l["frame"], m["ok"]["frame"], exact, obs, dis)
        if l["st"] == "collision":
            continue
        if ("ok" in m) != (l["st"] == "ok"):
            dis.append(f"{name}: impl {l['st']} vs model {m}")
            continue
        if l["st"] != "ok":
            continue
        mo = m["ok"]
        if len(mo["points"]) != len(l["points"]):
            dis.append(f"{name}: {len(l['points'])} points vs model {len(mo['points'])}")
            continue
        span = max(abs(F(x)) for x in obs["mesh_json"]["region"]["pmin"] + obs["mesh_json"]["region"]["pmax"])
        okp = True
        for j, (a, b) in enumerate(zip(l["points"], mo["points"])):
            if not cmp_nums(f"{name} point {j}", a, b, exact, dis, scale=float(span), rel=2**-44):
                okp = False
                break
        if exact or okp:
            if exact:
                for j, (a, b) in enumerate(zip(l["values"], mo["values"])):
                    if not cmp_nums(f"{name} value {j}", a, b, True, dis):
                        break
            for j, (a, b) in enumerate(zip(l["r"], mo["r2"])):
                rr = F(a)
                # the points carry an absolute rounding error ~ u * |coordinates| (cancellation when p1 and p2 are close):
                # r must lie within tol of sqrt(model r^2); exact regime: tol is only sqrt's own rounding
                tol = Fraction(2) ** -40 * rr + (0 if exact else Fraction(2) ** -44 * span)
                lo_, hi_ = max(rr - tol, 0), rr + tol
                if not (lo_ * lo_ <= F(b) <= hi_ * hi_):
                    dis.append(f"{name} r[{j}]: impl {float(rr)} squared vs model r^2 {b}")
                    break
    if case["kind"] == "init" and len(rs) > 2:
        cmp_after(f"{'array setter' if case.get('via2') == 'setter' else 'update_field_values'}({describe(case['spec2'])})",
                  obs["st2"], obs["after2"], rs[2], dis)
        if len(rs) > 3:
            cmp_after(f"{case['via']}({describe(case['bad'])})", obs["st3"], obs["after3"], rs[3], dis)
        if len(rs) > 4 and "after4" in obs:
            cmp_array("state after the history update / rejected assignment / setter",
                      dict(shape=obs["after4"]["shape"], data=obs["after4"]["data"]), rs[4]["state"], True, dis)
    if "session" in obs and rs and "states" in rs[-1]:
        ss = obs["session"]
        for k, (a, b) in enumerate(zip(ss["states"], rs[-1]["states"])):
            name = f"session statement {k} {ss['prog'][k]}"
            if a["accepted"] != b["accepted"]:
                dis.append(f"{name}: impl {'accepted' if a['accepted'] else 'rejected'} vs model "
                           f"{'accepted' if b['accepted'] else 'rejected'}")
                break
            if len(a["objs"]) != len(b["objs"]):
                dis.append(f"{name}: {len(a['objs'])} field objects vs model {len(b['objs'])}")
                break
            n0 = len(dis)
            for q, (x, y) in enumerate(zip(a["objs"], b["objs"])):
                cmp_array(f"{name}: array of field object {q}", x, y, True, dis)
            for q, (x, y) in enumerate(zip(a["bufs"], b["bufs"])):
                cmp_array(f"{name}: the caller's array {q}", x, y, True, dis)
            if len(dis) > n0:
                break
    return dis


def cmp_frame(name, impl, model, exact, obs, dis):
    """data frame of a line: column names in order, and the content of every column (model-follows-code also where a
    coordinate column is overwritten, finding D42)"""
    if [c[0] for c in impl] != [c[0] for c in model]:
        dis.append(f"{name}: data frame columns impl {[c[0] for c in impl]} vs model {[c[0] for c in model]}")
        return
    span = max(abs(F(x)) for x in obs["mesh_json"]["region"]["pmin"] + obs["mesh_json"]["region"]["pmax"])
    for (col, a), (_, mc) in zip(impl, model):
        kind, b = mc["kind"], mc["data"]
        if len(a) != len(b):
            dis.append(f"{name}: column {col}: {len(a)} rows vs model {len(b)}")
            return
        if kind == "dist2":
            for j, (x, y) in enumerate(zip(a, b)):
                rr = resp_c(x)[0]
                tol = Fraction(2) ** -40 * rr + (0 if exact else Fraction(2) ** -44 * span)
                lo_, hi_ = max(rr - tol, 0), rr + tol
                if resp_c(x)[1] != 0 or not (lo_ * lo_ <= F(y) <= hi_ * hi_):
                    dis.append(f"{name}: column {col} (distance) row {j}: impl {x} squared vs model r^2 {y}")
                    return
        elif kind == "num":
            if not cmp_nums(f"{name}: column {col} (coordinate)", a, b, exact, dis, scale=float(span), rel=2**-44):
                return
        elif exact:
            if not cmp_nums(f"{name}: column {col} (values)", a, b, True, dis):
                return


def nontrivial(case, obs):
    return bool(obs.get("nontrivial"))


def known(case, text):
    """D42 (open): a mesh dimension named like the distance column 'r' or like a value column ('v' for scalar fields,
    'v<label>' otherwise): Line.__init__ overwrites that coordinate column in the data frame"""
    if text.startswith("line data frame: coordinate column"):
        return "D42"
    return None
