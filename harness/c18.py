"""C18 — arbitrary rotations rotate the vectors and resample the positions consistently."""
import itertools
import math
import random
from fractions import Fraction

import numpy as np
from scipy.spatial.transform import Rotation as SciRot

from . import core, fieldio
from .core import Q, Qs, F

import discretisedfield as df

PID = "C18"
RULE = ("scalar and 3-vector fields (affine, uniform, random integer data; renamed dims, permuted component-to-axis mappings, bc, masks) "
        "on anisotropic 3-d meshes, driven through FieldRotator with histories of 1-4 rotate/clear calls; every rotation is a rational "
        "matrix from an integer quaternion (|components| <= 3, or one of the 24 lattice rotations) handed to the real code as quaternion, "
        "matrix, rotation vector, Euler angles (12 sequences), modified Rodrigues parameters or align_vector, and to the model as the exact "
        "matrix; explicit, automatic and malformed n (zero, two or four entries). The property does not depend on units: every mesh is "
        "drawn at a length scale 1, 10^k (k = -12..9), 2^k (k = -40..30) or an arbitrary 3-digit mantissa in 1e-12..1e9 (tags lscale:*; "
        "the model gets the exact binary64 corners), 25 % of them far from the origin (up to 1e6 cells, either side, per axis; offset:far), "
        "values at magnitude 1, 10^k (k = -12..12) or arbitrary in 1e-12..1e12 (vscale:*); ALL tolerances are relative (to the cell, to the "
        "region extent plus a few ulp of the largest coordinate, to the largest stored magnitude) - no absolute floor anywhere. "
        "Compared after every call: ok/err, accumulated rotation (FieldRotator._rotation), "
        "region, n, dims/units/labels/mapping/unit/validity, every cell value to 1e-9 relative (cells within 1e-6 cell of the inside/outside "
        "face skipped; automatic n within 1e-9 of a rounding tie may take either neighbour). Oracle on the real code alone: same centre, "
        "bounding box = hull of the 8 rotated corners, values = Q * trilinear interpolant of the original at the back-rotated centre for "
        "cells at least one cell inside, 0 outside, affine scalar / uniform vector fields reproduced, history == one rotation by the ordered "
        "product from a fresh rotator, clear restores the original object, quarter turns on cubic cells == Field.rotate90, refusals. "
        "Long meshes (kind 'big': 100-4000 cells along one axis, 1-6 across, explicit target n with 100-3000 cells along the longest edge, "
        "half of the rotations about the long axis) against the same oracle on the real code alone (no model run). "
        "Direct probes of the interpolator at nodes, faces, random and outside points (1e-12 relative), and at every relative distance 1e-1 ... 1e-15 "
        "of a cell from a face of the region on either side and from a node (near-face:*): further than 1e-6 cell outside must be 0, inside is "
        "compared with the model, within 1e-6 cell of the face either 0 or the value just inside is accepted. "
        "FieldRotator._rotation compared (1e-12) with the model's "
        "own parameterisations: from_mrp on dyadic vectors, align_vector on exact equal-length pairs, from_euler / from_rotvec with quarter-turn "
        "angles, the quarter-turn matrices of C12's planes, argsort; unknown method names are part of the modelled histories. "
        "Rotations with rational cosine and sine that are NOT quarter turns (second round): products of 1-3 plane rotations by Pythagorean "
        "angles (3-4-5, 5-12-13, 8-15-17, 7-24-25, 20-21-29, ... either sense) about different coordinate axes enter the histories (rot:pyth, "
        "~20 % of the rotations) and are handed to the real code as from_euler with the float angles atan2(sin, cos) (via:eulercs) or in any of "
        "the other forms; FieldRotator._rotation is compared (1e-12) with the model's eulerCS (extrinsic and intrinsic sequences of such "
        "angles), ofAxisAngle (from_rotvec(theta*u) with a rational unit axis u such as (1,2,2)/3, (2,3,6)/7 and a Pythagorean angle) and Rcs "
        "(from_matrix), and the harness' own quaternion product with eulerCS exactly. "
        "Independence of units as a statement about the real code (kind 'homog'): the same field in other units - coordinates s*x + d, values "
        "t*v, all exact in binary64, s = 2^k / 10^k / small odd * 2^k from 1e-9 to 1e6, t of either sign - goes through the same history: "
        "same refusals, same cell counts (automatic ones included, up to a rounding tie), corners s*x + d, values t*v (relative 1e-9), and the "
        "model's own change of units affFld (the object of the theorems rot_homogeneous / history_homogeneous) is compared with the real "
        "code run on the rescaled field; in the exact regime the model history of affFld(f) must coincide with the model history of the field "
        "that was built in the other units. "
        "Automatic cell counts above 2000 cells (strongly elongated cells turned out of their axes: the exact model would need minutes) are "
        "replaced by an explicit n in the modelled streams (n:tamed, about 8 % of the automatic calls); the long-mesh stream keeps them. "
        "non-trivial = a successful rotation that is not a lattice rotation with at least one deep-inside and one outside target cell, "
        "or a refusal")
TRUSTED = ["harness/c18.py, harness/fieldio.py + driver JSON glue",
           "scipy Rotation (from_quat/from_matrix/from_rotvec/from_euler/from_mrp/align_vectors, composition, inv, apply) and "
           "RegularGridInterpolator (linear, fill_value=0) modelled by contract: exact rational matrix product/transposition and "
           "multilinear interpolation on the padded node grid",
           "float conversions of the exact rational rotation to rotation vector / Euler angles / MRP / alignment vectors done in the harness "
           "(math.atan2, scipy as_euler); for the Pythagorean angles: theta = math.atan2(sin, cos) of the exact rational cosine and sine"]
ASSUMPTIONS = ["tolerance regime: scipy computes rotations in binary64, the model exactly; values agree to 1e-9 relative to the largest "
               "magnitude involved, geometry to 1e-9 of the region extent (+ 2^-48 of the largest coordinate for regions far from the origin); "
               "the inside/outside decision of a centre within 1e-6 cell of the padded box faces is not compared; for a region whose "
               "coordinates are C cells from the origin the back-rotated positions carry a rounding error of up to 2^-49 C cells on the "
               "real code: the value tolerance grows by 8x and the skipped band by 4x that amount (C <= 1e6 cells: <= 2e-8 / 1e-8)"]
UNPROVED = ["the automatic cell count is the rounded real cube-root expression: the model decides it exactly by integer cube comparisons "
            "(theorems roundCbrt_spec, rot_metadata_auto: every automatic count is >= 1; rot_lattice_copies_cells: for lattice rotations it is the "
            "permuted count; auto_counts_keep_cell_volume: the un-rounded counts keep the cell volume exactly and the aspect ratio of the rotated "
            "cell's bounding box) but that np.round/** compute the same is observed, not proved",
            "a SEQUENCE of Field.rotate90 calls in different planes equals the single lattice rotation: now an object-level theorem "
            "(rotate90_sequence_is_one_rotation, by induction over any list of T.rotate90F calls: corners, counts, every cell value, and the history of "
            "single rotate calls) for calls about the centre in the copying form on fields with a complete one-to-one mapping; validity, axis names and "
            "units of the two results are NOT the same (the rotator starts a fresh all-valid field with default names: rot_metadata), and sequences with "
            "an explicit reference point or in the in-place form are covered only through C12's own theorems (rotate_consistent, field_compose)",
            "from_rotvec / from_euler are now modelled for EVERY angle with rational cosine and sine (RaxisCS, eulerCS, ofAxisAngle with a rational "
            "unit axis: theorems plane_rotation_laws, pythagorean_angles, euler_rational_sequences, axis_angle_spec) - quarter turns are the special "
            "case; angles with irrational cosine or sine (e.g. pi/3 about a coordinate axis gives sqrt(3)/2) and rotation-vector axes of irrational "
            "length are outside rational arithmetic: such rotations enter model and theorems as the (rational) matrix they are compared with, and "
            "align_vector is modelled for equal-length vectors only (ofAlign; otherwise |i||f| needs a square root)",
            "that scipy's float Rotation/RegularGridInterpolator implement exact matrix algebra / multilinear interpolation up to rounding is the "
            "contract validated by the correspondence run, not proved",
            "independence of the unit of length, of the origin and of the value magnitude is now a theorem about the model for every matrix, every n and "
            "every history (rot_homogeneous, rot_homogeneous_cells, history_homogeneous: s > 0, any shift d, any factor t, refusals included; "
            "rot_superposition: additivity in the data); that binary64 rounding does not break it on the real code is sampled (kind 'homog' and the "
            "lscale/vscale/offset tags of every stream), and meshes with more than 6 cells along an axis or automatic counts above 2000 cells are "
            "checked against the numpy statement of the property only, not against the model",
            "rot_value_complete describes EVERY target cell of the model (zero outside the region enlarged by 1e-9 cell; inside, the eight-cell formula at "
            "the position clamped to the box of the first/last cell centres); on the real code the inside/outside decision within 1e-6 cell of a face "
            "is not compared (boundary comparator), so a centre that lies in the 1e-9-cell sliver outside a face may take either value there",
            "rot_scalar_range (no new extrema) is proved for scalar fields; for 3-vector fields only componentwise before the rotation (origAt_range) - "
            "the bound on the Euclidean norm of the stored vector (convexity of the norm) is not proved"]
BUDGET = {"quick": 85, "thorough": 900}

EULER_SEQS = ["xyz", "zyx", "zxz", "xyx", "yzy", "xzy", "XYZ", "ZYX", "ZXZ", "YXY", "XZX", "YZX"]


# ------------------------------------------------------------------ exact rotations
def quat_matrix(x, y, z, w):
    x, y, z, w = (Fraction(v) for v in (x, y, z, w))
    N = w * w + x * x + y * y + z * z
    return [[(w * w + x * x - y * y - z * z) / N, 2 * (x * y - w * z) / N, 2 * (x * z + w * y) / N],
            [2 * (x * y + w * z) / N, (w * w - x * x + y * y - z * z) / N, 2 * (y * z - w * x) / N],
            [2 * (x * z - w * y) / N, 2 * (y * z + w * x) / N, (w * w - x * x - y * y + z * z) / N]]


def mmul(A, B):
    return [[sum(A[i][k] * B[k][j] for k in range(3)) for j in range(3)] for i in range(3)]


EYE = [[Fraction(int(i == j)) for j in range(3)] for i in range(3)]
LATTICE_QUATS = [q for q in itertools.product([-1, 0, 1], repeat=4)
                 if sum(c * c for c in q) in (1, 2) or all(c != 0 for c in q)]


def qmul(a, b):
    """Hamilton product a*b of quaternions in scipy order [x, y, z, w] (the rotation b is applied first)"""
    ax, ay, az, aw = a
    bx, by, bz, bw = b
    return [aw * bx + ax * bw + ay * bz - az * by,
            aw * by - ax * bz + ay * bw + az * bx,
            aw * bz + ax * by - ay * bx + az * bw,
            aw * bw - ax * bx - ay * by - az * bz]


# half-angle pairs (m, n): the rotation by the angle with cos = (m^2-n^2)/(m^2+n^2), sin = 2mn/(m^2+n^2)
# (2,1): 3-4-5, (3,2): 5-12-13, (4,1): 15-8-17, (4,3): 7-24-25, (5,2): 21-20-29, (3,1): 4-3-5, (1,2): obtuse 3-4-5 ...
PYTH = [(2, 1), (3, 2), (4, 1), (4, 3), (5, 2), (3, 1), (1, 2), (2, 3), (1, 3), (2, -1), (3, -2), (1, -2), (5, -2)]
# rational unit vectors
UNIT_AXES = [(1, 2, 2, 3), (2, 3, 6, 7), (1, 4, 8, 9), (4, 4, 7, 9), (2, 6, 9, 11), (3, 4, 0, 5), (0, 5, 12, 13), (6, 6, 7, 11)]


def pyth_cs(m, n):
    return Fraction(m * m - n * n, m * m + n * n), Fraction(2 * m * n, m * m + n * n)


def gen_pyth_seq(rng, kmin=1, kmax=3):
    """1-3 rotations about coordinate axes by Pythagorean angles, consecutive axes different"""
    k = rng.randint(kmin, kmax)
    axes = [rng.randrange(3)]
    while len(axes) < k:
        a = rng.randrange(3)
        if a != axes[-1]:
            axes.append(a)
    return [(a,) + rng.choice(PYTH) for a in axes]


def pyth_quat(seq):
    """quaternion [x, y, z, w] of the EXTRINSIC sequence: first entry applied first, later ones on the left"""
    q = [0, 0, 0, 1]
    for a, m, n in seq:
        h = [0, 0, 0, m]
        h[a] = n
        q = qmul(h, q)
    return q


def is_lattice(M):
    return all(v in (0, 1, -1) for r in M for v in r)


def mfloat(M):
    return np.array([[float(v) for v in r] for r in M])


def rot_call(quat, method, rng, pyth=None):
    """(method name, args, kwargs) describing the rational rotation `quat` = [x, y, z, w]."""
    x, y, z, w = quat
    v = np.array([x, y, z], dtype=float)
    nv = float(np.linalg.norm(v))
    nq = math.sqrt(x * x + y * y + z * z + w * w)
    M = mfloat(quat_matrix(*quat))
    if method == "rotvec":
        ang = 2 * math.atan2(nv, w)
        rv = (v / nv * ang) if nv else np.zeros(3)
        return "from_rotvec", [rv.tolist()], {}
    if method == "mrp" and (nv or w > 0):
        return "from_mrp", [(v / (nq + w)).tolist()], {}
    if method == "matrix":
        return "from_matrix", [M.tolist()], {}
    if method.startswith("euler:"):
        seq = method.split(":")[1]
        ang = SciRot.from_matrix(M).as_euler(seq)
        return "from_euler", [seq, ang.tolist()], {}
    if method == "eulercs":
        # the rotation as scipy builds it from Euler angles that are NOT quarter turns: extrinsic sequence of rotations
        # about coordinate axes by Pythagorean angles (rational cosine and sine)
        seq = pyth
        if seq is not None:
            return "from_euler", ["".join("xyz"[a] for a, _, _ in seq),
                                  [math.atan2(2 * m * n, m * m - n * n) for _, m, n in seq]], {}
    if method == "align" and nv and w:
        e = [1.0, 0, 0] if (y or z) else [0, 1.0, 0]
        u = np.cross(v, e)
        u = u * rng.choice([1, 2, 0.5])
        fin = M @ u
        return "align_vector", [], {"initial": u.tolist(), "final": fin.tolist()}
    return "from_quat", [[float(x), float(y), float(z), float(w)]], {}


def gen_rot(rng):
    r = rng.random()
    if r < 0.2:
        # products of plane rotations by Pythagorean angles in different planes (3-4-5 about z, then 5-12-13 about x, ...)
        seq = gen_pyth_seq(rng, 1, 2 if rng.random() < 0.8 else 3)
        quat = pyth_quat(seq)
        method = rng.choice(["eulercs", "eulercs", "matrix", "quat", "rotvec", "mrp", "euler:" + rng.choice(EULER_SEQS)])
        return dict(quat=quat, method=method, sub=rng.getrandbits(30), pyth=[list(t) for t in seq])
    if r < 0.4:
        quat = list(rng.choice(LATTICE_QUATS))
    else:
        while True:
            quat = [rng.randint(-3, 3) for _ in range(4)]
            if any(quat):
                break
    method = rng.choice(["quat", "quat", "matrix", "rotvec", "mrp", "align", "euler:" + rng.choice(EULER_SEQS)])
    return dict(quat=quat, method=method, sub=rng.getrandbits(30))


# ------------------------------------------------------------------ fields
def sig3(x):
    """x rounded to 3 significant decimal digits (an 'arbitrary' float such as 2.37e-10)"""
    return float(f"{x:.3g}")


def draw_lscale(rng):
    """length scale of the mesh: the property does not depend on the unit of length"""
    r = rng.random()
    if r < 0.30:
        return 1.0
    if r < 0.62:
        return 10.0 ** rng.randint(-12, 9)
    if r < 0.78:
        return 2.0 ** rng.randint(-40, 30)
    return sig3(10 ** rng.uniform(-12, 9))


def draw_vscale(rng):
    """magnitude of the stored values (1e-12 ... 1e12; A/m-sized, tesla-sized, tiny)"""
    r = rng.random()
    if r < 0.55:
        return 1.0
    if r < 0.85:
        return 10.0 ** rng.randint(-12, 12)
    return sig3(10 ** rng.uniform(-12, 12))


def lbucket(x):
    return "<=1e-9" if x <= 1e-9 else "1e-9..1e-3" if x < 1e-3 else "1e-3..1e3" if x <= 1e3 else "1e3..1e6" if x <= 1e6 else ">1e6"


def gen_field_spec(rng, nmin=1, nmax=5, max_cells=75, cubic=False, scaled=True, n=None):
    while n is None:
        n = [rng.randint(nmin, nmax) for _ in range(3)]
        if int(np.prod(n)) > max_cells:
            n = None
    if cubic:
        c = Fraction(rng.choice([1, 3, 5]), 2 ** rng.randint(0, 2))
        cell = [c, c, c]
    else:
        cell = [Fraction(rng.choice([1, 1, 3, 5]), 2 ** rng.randint(0, 3)) * rng.choice([1, 1, 2, 3]) for _ in range(3)]
    pmin = [Fraction(rng.randint(-40, 40), 2 ** rng.randint(0, 2)) for _ in range(3)]
    ls, vs, offc = 1.0, 1.0, [0, 0, 0]
    if scaled:
        ls, vs = draw_lscale(rng), draw_vscale(rng)
        if rng.random() < 0.25:
            # region far from the origin: up to 1e6 cells away, per axis, either side
            offc = [rng.choice([-1, 1]) * rng.randint(1, 10 ** rng.randint(2, 6)) if rng.random() < 0.8 else 0 for _ in range(3)]
            pmin = [a + k * c for a, k, c in zip(pmin, offc, cell)]
    pmax = [a + k * c for a, k, c in zip(pmin, n, cell)]
    L = Fraction(ls)
    dims = rng.sample(fieldio.NAMES, 3) if rng.random() < 0.4 else None
    dd = dims or ["x", "y", "z"]
    nvdim = rng.choice([1, 3, 3])
    vdims, vmap = None, None
    if nvdim == 3:
        if rng.random() < 0.5:
            vdims = rng.sample(["p", "q", "r", "mx", "my", "mz", "x", "y", "z"], 3)
        if rng.random() < 0.6:
            vv = vdims or ["x", "y", "z"]
            perm = rng.sample(dd, 3)
            vmap = [[a, b] for a, b in zip(vv, perm)]
    bc = ""
    if rng.random() < 0.15:
        bc = "".join(d for d in dd if len(d) == 1 and rng.random() < 0.6)
    return dict(p1=[float(v * L) for v in pmin], p2=[float(v * L) for v in pmax], n=n, dims=dims, bc=bc, nvdim=nvdim,
                vdims=vdims, vmap=vmap, kind=rng.choice(["affine", "uniform", "random", "random"]),
                masked=rng.random() < 0.2, unit=rng.choice([None, None, "A/m"]), sub=rng.getrandbits(30),
                ls=ls, vs=vs, offc=offc)


def scale_tags(spec):
    return ["lscale:" + lbucket(spec.get("ls", 1.0)), "vscale:" + lbucket(spec.get("vs", 1.0)),
            "offset:" + ("far" if any(spec.get("offc", [0])) else "near"), "n0max:" + nbucket(max(spec["n"]))]


def nbucket(k):
    return "<=6" if k <= 6 else "7..99" if k < 100 else "100..999" if k < 1000 else ">=1000"


def pos_eps_of(pmin, pmax, cell):
    """bound (in cells) on the rounding error of a back-rotated target centre: the code subtracts the region centre from
    absolute float coordinates, a few ulp of the largest coordinate"""
    return 2.0 ** -49 * float(max(np.abs(pmin).max(), np.abs(pmax).max())) / float(np.min(cell))


def build_field(spec):
    rng = random.Random(spec["sub"])
    mesh = fieldio.build_mesh(spec)
    nv = spec["nvdim"]
    nd = mesh.region.ndim
    shape = (*[int(k) for k in mesh.n], nv)
    info = {}
    ls, vs = float(spec.get("ls", 1.0)), float(spec.get("vs", 1.0))
    if spec["kind"] == "affine":
        # affine in the position relative to the region centre, in units of the length scale; times the value scale
        a0 = [rng.randint(-9, 9) for _ in range(nv)]
        b = [[rng.randint(-4, 4) for _ in range(nd)] for _ in range(nv)]
        info = dict(a0=a0, b=b)
        cen = np.stack(np.meshgrid(*[np.asarray(c) for c in mesh.cells], indexing="ij"), axis=-1)
        rel = (cen - np.asarray(mesh.region.center, float)) / ls
        arr = np.stack([a0[c] + sum(b[c][a] * rel[..., a] for a in range(nd)) for c in range(nv)], axis=-1) * vs
    elif spec["kind"] == "uniform":
        v = [rng.randint(-9, 9) for _ in range(nv)]
        info = dict(v=[x * vs for x in v])
        arr = np.broadcast_to(np.array(info["v"], dtype=float), shape).copy()
    elif int(np.prod(shape)) > 4000:
        arr = np.random.default_rng(spec["sub"]).integers(-20, 21, size=shape).astype(float) * vs
    else:
        arr = fieldio.gen_int_array(rng, shape, -20, 20) * vs
    kw = {}
    if spec.get("vdims"):
        kw["vdims"] = spec["vdims"]
    if spec.get("vmap") is not None:
        kw["vdim_mapping"] = {a: b for a, b in spec["vmap"]}
    if spec.get("masked"):
        kw["valid"] = fieldio.gen_mask(rng, shape[:-1], 0.7)
    if spec.get("unit"):
        kw["unit"] = spec["unit"]
    f = df.Field(mesh, nvdim=nv, value=arr, **kw)
    return f, info


def field_pos_eps(f):
    return pos_eps_of(np.asarray(f.mesh.region.pmin, float), np.asarray(f.mesh.region.pmax, float), np.asarray(f.mesh.cell, float))


def ord_of(f):
    """component index holding the vector component along spatial axis a"""
    rmap = {v: k for k, v in f.vdim_mapping.items()}
    return [list(f.vdims).index(rmap[d]) for d in f.mesh.region.dims]


# ------------------------------------------------------------------ numpy statement of the property
def centres_of(pmin, pmax, n):
    cell = (np.asarray(pmax, float) - np.asarray(pmin, float)) / np.asarray(n)
    ax = [pmin[a] + (np.arange(n[a]) + 0.5) * cell[a] for a in range(3)]
    return np.stack(np.meshgrid(*ax, indexing="ij"), axis=-1).reshape(-1, 3)


def cell_interp(arr, pmin, cell, n, p):
    """trilinear interpolation between cell centres of arr (n0,n1,n2,nv) at points p (absolute); only valid at
    points at least half a cell inside"""
    u = (p - pmin) / cell - 0.5
    k = np.floor(u).astype(int)
    for a in range(3):
        k[:, a] = np.clip(k[:, a], 0, max(n[a] - 2, 0))
    t = u - k
    out = np.zeros((len(p), arr.shape[-1]))
    for e in itertools.product([0, 1], repeat=3):
        wgt = np.ones(len(p))
        idx = []
        for a in range(3):
            wgt = wgt * (t[:, a] if e[a] else 1 - t[:, a])
            idx.append(np.clip(k[:, a] + e[a], 0, n[a] - 1))
        out += wgt[:, None] * arr[idx[0], idx[1], idx[2]]
    return out


def region_close(r1, r2, tol):
    d = max(np.abs(np.asarray(r1.pmin, float) - np.asarray(r2.pmin, float)).max(),
            np.abs(np.asarray(r1.pmax, float) - np.asarray(r2.pmax, float)).max())
    return bool(d <= tol)


def geom_tol(pmin, pmax):
    """tolerance of a corner coordinate: 1e-9 of the region's extent plus a few ulp of the largest coordinate (regions
    far from the origin); no absolute floor - the property does not depend on the unit of length"""
    pmin, pmax = np.asarray(pmin, float), np.asarray(pmax, float)
    return 1e-9 * float((pmax - pmin).max()) + 2.0 ** -48 * float(max(np.abs(pmin).max(), np.abs(pmax).max()))


def property_oracle(f, info, spec, g, Macc, n_given, fail, tags, label):
    """the property's statements about one successful rotation with exact accumulated matrix Macc"""
    M = mfloat(Macc)
    reg = f.mesh.region
    pmin, pmax = np.asarray(reg.pmin, float), np.asarray(reg.pmax, float)
    cen0 = 0.5 * (pmin + pmax)
    gtol = geom_tol(pmin, pmax)
    gp0, gp1 = np.asarray(g.mesh.region.pmin, float), np.asarray(g.mesh.region.pmax, float)
    if np.abs(0.5 * (gp0 + gp1) - cen0).max() > gtol:
        fail(f"{label}: centre of the rotated region {0.5 * (gp0 + gp1)} differs from the original centre {cen0}")
        return
    corners = np.array([[(pmin, pmax)[s[a]][a] for a in range(3)] for s in itertools.product([0, 1], repeat=3)])
    rc = (M @ (corners - cen0).T).T + cen0
    if np.abs(rc.min(axis=0) - gp0).max() > gtol or np.abs(rc.max(axis=0) - gp1).max() > gtol:
        fail(f"{label}: rotated region [{gp0}, {gp1}] is not the bounding box [{rc.min(axis=0)}, {rc.max(axis=0)}] of the rotated corners")
        return
    n = [int(k) for k in g.mesh.n]
    if n_given is not None and n != list(n_given):
        fail(f"{label}: explicit n={n_given} not used: {n}")
        return
    if g.nvdim != f.nvdim or (list(g.vdims) if g.vdims is not None else None) != (list(f.vdims) if f.vdims is not None else None):
        fail(f"{label}: component count/labels changed: {g.nvdim} {g.vdims}")
        return
    nv = f.nvdim
    cell = np.asarray(f.mesh.cell, float)
    n0 = [int(k) for k in f.mesh.n]
    tgt = centres_of(gp0, gp1, n)
    back = (M.T @ (tgt - cen0).T).T + cen0
    inside1 = np.all((back >= pmin + cell) & (back <= pmax - cell), axis=1)
    out_by = np.max(np.maximum(pmin - back, back - pmax) / cell, axis=1)
    # all tolerances are relative: to the cell (positions), to the largest stored magnitude (values); peps = rounding of
    # the back-rotated position for regions far from the origin (cells)
    peps = pos_eps_of(pmin, pmax, cell)
    band = 1e-6 + 4 * peps
    vtol = 1e-9 + 8 * peps
    outside = out_by > band
    vals = np.asarray(g.array).reshape(-1, nv)
    arr = np.asarray(f.array, float)
    interp = cell_interp(arr, pmin, cell, n0, back)
    if nv == 3:
        o = ord_of(f)
        spatial = interp[:, o]
        rot = (M @ spatial.T).T
        exp = np.zeros_like(rot)
        for a in range(3):
            exp[:, o[a]] = rot[:, a]
    else:
        exp = interp
    vscale = float(np.abs(arr).max()) or 1.0
    bad = np.where(inside1 & (np.abs(vals - exp).max(axis=1) > vtol * vscale))[0]
    if len(bad):
        k = int(bad[0])
        fail(f"{label}: target cell {np.unravel_index(k, n)} (back-rotated centre {back[k]}, at least one cell inside) holds {vals[k]}, "
             f"Q applied to the linear interpolant of the original there is {exp[k]}")
        return
    badz = np.where(outside & (np.abs(vals).max(axis=1) != 0))[0]
    if len(badz):
        k = int(badz[0])
        fail(f"{label}: target cell {np.unravel_index(k, n)} has its back-rotated centre {back[k]} outside the original region but holds {vals[k]}")
        return
    if spec["kind"] == "affine" and nv == 1:
        lin = (info["a0"][0] + ((back - cen0) / float(spec.get("ls", 1.0))) @ np.array(info["b"][0], float)) * float(spec.get("vs", 1.0))
        bad = np.where(inside1 & (np.abs(vals[:, 0] - lin) > vtol * vscale))[0]
        if len(bad):
            fail(f"{label}: affine scalar field not reproduced at target cell {np.unravel_index(int(bad[0]), n)}")
            return
    if spec["kind"] == "uniform":
        v = np.array(info["v"], float)
        if nv == 3:
            o = ord_of(f)
            r = M @ v[o]
            qv = np.zeros(3)
            for a in range(3):
                qv[o[a]] = r[a]
        else:
            qv = v
        inpad = out_by < -band  # strictly inside the region: the interpolant of a constant is that constant
        bad = np.where(inpad & (np.abs(vals - qv).max(axis=1) > vtol * vscale))[0]
        if len(bad):
            fail(f"{label}: uniform field {v} does not become uniform {qv}: cell {np.unravel_index(int(bad[0]), n)} holds {vals[int(bad[0])]}")
            return
    tags.append("deep:%s" % ("0" if not inside1.any() else "1-5" if inside1.sum() <= 5 else ">5"))
    tags.append("outside:%s" % ("0" if not outside.any() else ">0"))
    return dict(deep=int(inside1.sum()), outside=int(outside.sum()), near=out_by, band=band, vtol=vtol, gtol=gtol, vscale=vscale)


def tame_auto_n(spec, ops, pre, rng, limit=2000):
    """the exact model resamples every target cell in rational arithmetic: an automatic cell count of tens of thousands
    of cells (strongly elongated cells turned out of their axes) would take minutes. Where `_calculate_new_n` would
    give more than `limit` cells the call gets an explicit n instead (tag n:tamed; about one automatic call in ten)."""
    e = np.abs(np.asarray(spec["p2"], float) - np.asarray(spec["p1"], float))
    if pre and spec["kind"] != "affine":
        e = e * np.asarray(pre, float)
    c = e / np.asarray(spec["n"], float)
    acc = EYE
    for o in ops:
        if o["t"] == "clear":
            acc = EYE
            continue
        if o.get("bad") == "method":
            continue
        acc = mmul(quat_matrix(*o["rot"]["quat"]), acc)
        if o.get("n") is None and not o.get("bad"):
            A = np.abs(mfloat(acc))
            E, l = A @ e, A @ c
            x = E / (l * (float(np.prod(c)) / float(np.prod(l))) ** (1 / 3))
            if float(np.prod(np.round(x))) > limit:
                o["n"] = [rng.randint(1, 6) for _ in range(3)]
                o["tamed"] = True


# ------------------------------------------------------------------ cases
def cases(rng, tier):
    nh = 280 if tier == "quick" else 2400
    for k in range(nh):
        big = rng.random() < 0.35
        spec = gen_field_spec(rng, nmin=3 if big else rng.choice([1, 2, 3]), nmax=6 if big else 5, max_cells=120 if big else 60)
        ops = []
        for _ in range(rng.choice([1, 1, 2, 2, 3, 4])):
            r = rng.random()
            if r < 0.15:
                ops.append(dict(t="clear"))
            elif r < 0.25:
                bad = rng.choice(["zero", "short", "long", "method"])
                o = dict(t="rotate", rot=gen_rot(rng), bad=bad)
                o["n"] = {"zero": [rng.randint(1, 4), 0, rng.randint(1, 4)], "short": [rng.randint(1, 4)] * 2, "long": [rng.randint(1, 4)] * 4, "method": None}[bad]
                ops.append(o)
            else:
                n = None
                if rng.random() < 0.5:
                    n = [rng.randint(1, 6) for _ in range(3)]
                    while int(np.prod(n)) > 90:
                        n[rng.randrange(3)] -= 1
                ops.append(dict(t="rotate", rot=gen_rot(rng), n=n))
        if all(o["t"] == "clear" or o.get("bad") for o in ops):
            ops.append(dict(t="rotate", rot=gen_rot(rng), n=None))
        # a quarter of the fields: the region OBJECT of the field's mesh is stretched in place before the rotator is made
        # (`field.mesh.region.scale(...)`: cell sizes change without any Mesh method being called)
        pre = rng.choice([[2.0, 1.0, 1.5], [0.5, 2.0, 1.0], [1.0, 1.0, 4.0], [3.0, 0.5, 0.25]]) if rng.random() < 0.25 else None
        tame_auto_n(spec, ops, pre, rng)
        yield dict(kind="hist", field=spec, ops=ops, pre=pre)
    # long meshes (hundreds to thousands of cells along one axis), explicit target resolution of the same order; checked
    # against the property's statement on the real code alone (the exact model is kept for the small meshes above)
    for k in range(14 if tier == "quick" else 120):
        long_axis = rng.randrange(3)
        n0 = [rng.randint(3, 6) if rng.random() < 0.75 else rng.randint(1, 2) for _ in range(3)]
        n0[long_axis] = rng.choice([rng.randint(100, 999), rng.randint(1000, 4000)])
        spec = gen_field_spec(rng, n=n0)
        yield dict(kind="big", field=spec, rot=gen_rot(rng), tn=[rng.randint(2, 10) for _ in range(3)], tlong=rng.randint(300, 3000),
                   along=rng.random() < 0.55)
    # all 24 lattice rotations on cubic cells against Field.rotate90 (quick: a sample)
    lat = {}
    for q in LATTICE_QUATS:
        lat.setdefault(str(quat_matrix(q[0], q[1], q[2], q[3])), q)
    lat = sorted(lat.values())
    for q in (lat * 3 if tier == "thorough" else rng.sample(lat, 12)):
        spec = gen_field_spec(rng, nmin=2, nmax=4, max_cells=48, cubic=True)
        yield dict(kind="quarter", field=spec, quat=list(q), method=rng.choice(["quat", "matrix", "rotvec", "euler:xyz"]))
    for k in range(60 if tier == "quick" else 500):
        spec = gen_field_spec(rng, nmin=1, nmax=4, max_cells=40)
        yield dict(kind="interp", field=spec, sub=rng.getrandbits(30), npts=30, nnear=16)
    # the rational parameterisations the model implements itself: from_mrp with dyadic parameters, from_euler with
    # quarter-turn angles (intrinsic and extrinsic, 1-3 axes), from_rotvec about a coordinate axis, and the
    # quarter-turn matrices of C12's planes given as matrix
    for k in range(110 if tier == "quick" else 900):
        which = rng.choice(["mrp", "mrp", "euler", "euler", "rotvec", "rq", "align", "align", "argsort",
                            "eulercs", "eulercs", "eulercs", "axisangle", "axisangle", "rcs"])
        c = dict(kind="param", which=which)
        if which == "eulercs":
            # from_euler with angles that are NOT quarter turns: rational cosine and sine (Pythagorean angles)
            c.update(seq=[list(t) for t in gen_pyth_seq(rng)], intrinsic=rng.random() < 0.5)
            yield c
            continue
        if which == "axisangle":
            # from_rotvec(theta * u): rational unit axis (signed, permuted), Pythagorean angle
            ax = list(rng.choice(UNIT_AXES))
            u = ax[:3]
            rng.shuffle(u)
            u = [x * rng.choice([-1, 1]) for x in u]
            m, n = rng.choice(PYTH)
            c.update(u=u, den=ax[3], m=m, n=n)
            yield c
            continue
        if which == "rcs":
            pp, qq = rng.sample(range(3), 2)
            m, n = rng.choice(PYTH)
            c.update(p=pp, q=qq, m=m, n=n)
            yield c
            continue
        if which == "argsort":
            c["l"] = rng.sample(range(3), 3) if rng.random() < 0.7 else rng.sample(range(9), rng.randint(1, 5))
            yield c
            continue
        if which == "align":
            # final = (rational rotation) * initial: equal lengths exactly; not parallel
            while True:
                quat = [rng.randint(-3, 3) for _ in range(4)]
                u = [rng.randint(-4, 4) for _ in range(3)]
                if not any(quat[:3]) or not any(u):
                    continue
                M = quat_matrix(*quat)
                fin = [sum(M[i][j] * u[j] for j in range(3)) for i in range(3)]
                cr = [u[1] * fin[2] - u[2] * fin[1], u[2] * fin[0] - u[0] * fin[2], u[0] * fin[1] - u[1] * fin[0]]
                if any(cr):
                    break
            sc = rng.choice([1, 2, Fraction(1, 2)])
            c.update(initial=[[int(x * sc * 2), 2] for x in u],
                     final=[[(x * sc).numerator, (x * sc).denominator] for x in fin])
        elif which == "mrp":
            c["p"] = [[rng.randint(-12, 12), 2 ** rng.randint(0, 3)] for _ in range(3)]
        elif which == "euler":
            m = rng.randint(1, 3)
            axes = [rng.randrange(3)]
            while len(axes) < m:
                a = rng.randrange(3)
                if a != axes[-1]:
                    axes.append(a)
            c.update(axes=axes, ks=[rng.randint(-5, 5) for _ in range(m)], intrinsic=rng.random() < 0.5)
        elif which == "rotvec":
            c.update(a=rng.randrange(3), k=rng.randint(-6, 6))
        else:
            p, q = rng.sample(range(3), 2)
            c.update(p=p, q=q, k=rng.randint(-9, 9))
        yield c
    # independence of the unit of length / of the origin / of the unit of the value, as a statement about the real code:
    # the same field in other units (coordinates s*x + d, values t*v; all exactly representable) through the same history
    for k in range(30 if tier == "quick" else 200):
        spec = gen_field_spec(rng, nmin=2, nmax=4, max_cells=40, scaled=False)
        ops = []
        for _ in range(rng.choice([1, 2, 2, 3])):
            r = rng.random()
            if r < 0.12:
                ops.append(dict(t="clear"))
            else:
                n = [rng.randint(1, 5) for _ in range(3)] if rng.random() < 0.5 else None
                ops.append(dict(t="rotate", rot=gen_rot(rng), n=n))
        if all(o["t"] == "clear" for o in ops):
            ops.append(dict(t="rotate", rot=gen_rot(rng), n=None))
        # s, d, t chosen so that s*x + d and t*v are exact in binary64 (x: small dyadic corners, v: small dyadic values)
        sc = rng.choice([2.0 ** rng.randint(-30, 20), 10.0 ** rng.randint(0, 6), float(rng.choice([3, 5, 7, 12])) * 2.0 ** rng.randint(-30, 4)])
        dd = [float(rng.randint(-50, 50)) * sc * rng.choice([0, 1, 1, 8]) for _ in range(3)]
        tv = rng.choice([1.0, -1.0, 2.0 ** rng.randint(-20, 30), float(rng.randint(-9, 9) or 4) * 10.0 ** rng.randint(0, 8)])
        tame_auto_n(spec, ops, None, rng)
        yield dict(kind="homog", field=spec, ops=ops, s=sc, d=dd, t=tv)
    for k in range(60 if tier == "quick" else 400):
        yield dict(kind="refuse", why=rng.choice(["nvdim", "nvdim", "ndim", "ndim", "nomap", "partial", "baddim", "noninj", "fine"]),
                   sub=rng.getrandbits(30), rot=gen_rot(rng))


# ------------------------------------------------------------------ adapter
def apply_rot(R, rot, n, rng, method=None):
    name, args, kw = rot_call(rot["quat"], method or rot["method"], rng, rot.get("pyth"))
    if n is not None:
        R.rotate(name, *args, n=n, **kw)
    else:
        R.rotate(name, *args, **kw)
    return name


def field_obs(g):
    return fieldio.field_json(g)


def drive(R, ops):
    """a history without malformed calls: per call ok/err, accumulated rotation, the field after a successful rotate"""
    steps = []
    for op in ops:
        if op["t"] == "clear":
            R.clear_rotation()
            steps.append(dict(t="clear", ok=True, rotm=core.private(R, "_rotation").as_matrix().tolist()))
            continue
        try:
            apply_rot(R, op["rot"], op["n"], random.Random(op["rot"]["sub"]))
            ok = True
        except Exception:
            ok = False
        st = dict(t="rotate", ok=ok, rotm=core.private(R, "_rotation").as_matrix().tolist(), auto=(op["n"] is None))
        if ok:
            st["field"] = R.field
        steps.append(st)
    return steps


def auto_x(f, Macc):
    """the un-rounded automatic cell counts x_i = E_i / (l_i * (dV / (l_0 l_1 l_2))^(1/3)) of `_calculate_new_n`"""
    A = np.abs(mfloat(Macc))
    E = A @ np.asarray(f.mesh.region.edges, float)
    l = A @ np.asarray(f.mesh.cell, float)
    adj = (float(np.prod(np.asarray(f.mesh.cell, float))) / float(np.prod(l))) ** (1 / 3)
    return E / (l * adj)


def run_impl(case):
    obs = {"oracle": [], "tags": ["kind:" + case["kind"]]}
    fail = obs["oracle"].append
    if case["kind"] == "hist":
        f, info = build_field(case["field"])
        if case.get("pre") and case["field"]["kind"] not in ("affine",) and not f.mesh.subregions and f.mesh.region.ndim == len(case["pre"]):
            f.mesh.region.scale(tuple(case["pre"]), inplace=True)
            obs["tags"].append("history:region-object-stretched-in-place")
        snap = (np.array(f.array, copy=True), fieldio.mesh_json(f.mesh))
        obs["field"] = fieldio.field_json(f)
        obs["tags"] += [f"nvdim:{f.nvdim}", "data:" + case["field"]["kind"], "mapping:" + ("given" if case["field"]["vmap"] else "default"),
                        "dims:" + ("renamed" if case["field"]["dims"] else "xyz")] + scale_tags(case["field"])
        obs["pos_eps"] = field_pos_eps(f)
        obs["vmax"] = float(np.abs(f.array).max())
        R = df.FieldRotator(f)
        acc = EYE       # exact product of the successful rotations since the last clear
        clean = True    # no failed rotate call since the last clear (the property says nothing about those)
        steps, model_ops = [], []
        nontriv = False
        for i, op in enumerate(case["ops"]):
            label = f"op {i}"
            if op["t"] == "clear":
                R.clear_rotation()
                acc, clean = EYE, True
                if R.field is not f and not (R.field.mesh == f.mesh and np.array_equal(R.field.array, f.array)):
                    fail(f"{label}: clear_rotation does not restore the original field")
                model_ops.append({})
                steps.append(dict(t="clear", ok=True, rotm=core.private(R, "_rotation").as_matrix().tolist()))
                obs["tags"].append("op:clear")
                continue
            rng = random.Random(op["rot"]["sub"])
            Mq = quat_matrix(*op["rot"]["quat"])
            if op.get("bad") == "method":
                before = core.private(R, "_rotation").as_matrix()
                cur = R.field
                try:
                    R.rotate("from_davenport", [0, 0, 1], "extrinsic", [0.3])
                    fail(f"{label}: unknown rotation method accepted")
                except Exception:
                    pass
                if R.field is not cur or not np.array_equal(before, core.private(R, "_rotation").as_matrix()):
                    fail(f"{label}: refused rotation method changed the rotator")
                obs["tags"].append("op:bad-method")
                model_ops.append(dict(unknown=True))
                steps.append(dict(t="unknown", ok=False, rotm=core.private(R, "_rotation").as_matrix().tolist()))
                continue
            try:
                name = apply_rot(R, op["rot"], op["n"], rng)
                ok = True
            except Exception as e:
                ok = False
                name = type(e).__name__
            model_ops.append(dict(rot=[Qs(r) for r in Mq], n=op["n"]))
            st = dict(t="rotate", ok=ok, rotm=core.private(R, "_rotation").as_matrix().tolist(), auto=(op["n"] is None))
            obs["tags"] += [f"op:rotate-{'ok' if ok else 'err'}", "via:" + op["rot"]["method"].split(":")[0],
                            "n:" + ("auto" if op["n"] is None else "bad" if op.get("bad") else "tamed" if op.get("tamed") else "explicit"),
                            "rot:" + ("lattice" if is_lattice(Mq) else "pyth" if op["rot"].get("pyth") else "generic")]
            if op.get("bad") and ok:
                fail(f"{label}: n={op['n']} accepted")
            if not op.get("bad") and not ok:
                fail(f"{label}: valid rotation {op['rot']} n={op['n']} raised {name}")
            if ok:
                acc = mmul(Mq, acc)
                g = R.field
                st["field"] = g
                if clean:
                    res = property_oracle(f, info, case["field"], g, acc, op["n"], fail, obs["tags"], label)
                    # history == a single rotation by the ordered product, from a fresh rotator
                    R1 = df.FieldRotator(f)
                    R1.rotate("from_matrix", mfloat(acc).tolist(), n=[int(k) for k in g.mesh.n])
                    h = R1.field
                    if res is not None:
                        if not region_close(h.mesh.region, g.mesh.region, res["gtol"]):
                            fail(f"{label}: region after the history differs from a single rotation by the product")
                        else:
                            away = np.abs(res["near"]) > res["band"]
                            a1 = np.asarray(g.array).reshape(-1, f.nvdim)[away]
                            a2 = np.asarray(h.array).reshape(-1, f.nvdim)[away]
                            if a1.size and np.abs(a1 - a2).max() > res["vtol"] * res["vscale"]:
                                fail(f"{label}: values after the history differ from a single rotation of the original by the ordered product")
                        if res["deep"] and res["outside"] and not is_lattice(acc):
                            nontriv = True
                        if len(case["ops"]) > 1:
                            obs["tags"].append("composed")
            else:
                clean = False
            if ok and not clean:
                # outside the property's quantifier (it speaks of rotations, not of refused calls): the rotation of a
                # refused call (bad n) stays in FieldRotator._rotation and is part of this result; modelled as the code does
                obs["tags"].append("observation:rotation-of-refused-call-accumulated")
            steps.append(st)
        if not (np.array_equal(snap[0], f.array) and snap[1] == fieldio.mesh_json(f.mesh)):
            fail("rotating modified the original field")
        obs["steps"], obs["model_ops"] = steps, model_ops
        obs["nontrivial"] = nontriv
    elif case["kind"] == "big":
        f, info = build_field(case["field"])
        obs["tags"] += [f"nvdim:{f.nvdim}", "data:" + case["field"]["kind"]] + scale_tags(case["field"])
        rot = dict(case["rot"])
        if case["along"]:
            # rotation about the long axis (any rational angle): the needle stays a needle
            a = int(np.argmax(case["field"]["n"]))
            q = [0, 0, 0, rot["quat"][3] or 1]
            q[a] = rot["quat"][a] or 2
            rot["quat"] = q
            # (the Pythagorean description belongs to the generated quaternion, not to this one)
            rot.pop("pyth", None)
            if rot["method"] == "eulercs":
                rot["method"] = "matrix"
        Mq = quat_matrix(*rot["quat"])
        # explicit target resolution: many cells along the longest edge of the rotated box, few along the others
        M = mfloat(Mq)
        ext = np.abs(M) @ (np.asarray(f.mesh.region.edges, float))
        tn = [int(k) for k in case["tn"]]
        la = int(np.argmax(ext))
        tn[la] = 1
        tn[la] = max(100, min(int(case["tlong"]), 40000 // int(np.prod(tn))))
        R = df.FieldRotator(f)
        try:
            apply_rot(R, rot, tn, random.Random(rot["sub"]))
        except Exception as e:
            fail(f"valid rotation {rot} n={tn} of a {case['field']['n']} mesh raised {type(e).__name__}: {e}")
            return obs
        g = R.field
        res = property_oracle(f, info, case["field"], g, Mq, tn, fail, obs["tags"], "long mesh")
        obs["tags"] += ["via:" + rot["method"].split(":")[0], "rot:" + ("lattice" if is_lattice(Mq) else "generic"),
                        "target-n:" + nbucket(max(tn))]
        obs["nontrivial"] = bool(res and res["deep"] and res["outside"] and not is_lattice(Mq))
    elif case["kind"] == "quarter":
        f, info = build_field(case["field"])
        obs["field"] = fieldio.field_json(f)
        Mq = quat_matrix(*case["quat"])
        # decompose the lattice rotation into quarter turns about coordinate axes (search depth <= 3)
        dims = list(f.mesh.region.dims)
        gens = []
        for (a, b) in [(0, 1), (1, 2), (2, 0)]:
            for k in (1, 2, 3):
                G = [[Fraction(int(i == j)) for j in range(3)] for i in range(3)]
                c, s = [(1, 0), (0, 1), (-1, 0), (0, -1)][k]
                G[a][a], G[a][b], G[b][a], G[b][b] = Fraction(c), Fraction(-s), Fraction(s), Fraction(c)
                gens.append(((a, b, k), G))
        seq = None
        for depth in range(0, 4):
            for combo in itertools.product(gens, repeat=depth):
                P = EYE
                for _, G in combo:
                    P = mmul(G, P)
                if P == Mq:
                    seq = [c[0] for c in combo]
                    break
            if seq is not None:
                break
        ref = f
        for (a, b, k) in seq:
            ref = ref.rotate90(dims[a], dims[b], k=k)
        R = df.FieldRotator(f)
        apply_rot(R, dict(quat=case["quat"], method=case["method"]), [int(k) for k in ref.mesh.n], random.Random(1))
        g = R.field
        obs["g"] = g
        obs["ref"] = ref
        obs["turn_seq"] = [dict(a1=dims[a], a2=dims[b], k=k) for (a, b, k) in seq]
        obs["quarter_len"] = len(seq)
        obs["seq"] = [list(t) for t in seq]
        sc = float(np.abs(f.array).max()) or 1.0
        obs["pos_eps"] = field_pos_eps(f)
        obs["vmax"] = float(np.abs(f.array).max())
        if [int(k) for k in g.mesh.n] != [int(k) for k in ref.mesh.n]:
            fail("quarter turn: cell counts differ from rotate90")
        elif not region_close(g.mesh.region, ref.mesh.region, geom_tol(f.mesh.region.pmin, f.mesh.region.pmax)):
            fail(f"quarter turn {seq}: region {g.mesh.region} differs from the lattice rotation's {ref.mesh.region}")
        elif np.abs(np.asarray(g.array) - np.asarray(ref.array)).max() > (1e-9 + 8 * obs["pos_eps"]) * sc:
            fail(f"quarter turn {seq} on cubic cells: FieldRotator values differ from Field.rotate90")
        obs["tags"] += [f"quarter-len:{len(seq)}", f"nvdim:{f.nvdim}"] + scale_tags(case["field"])
        obs["nontrivial"] = len(seq) > 0
    elif case["kind"] == "param" and case["which"] == "argsort":
        # the step `[..., ordered_idx.argsort()]` of rotate(): numpy's argsort on distinct keys
        obs["tags"].append("param:argsort")
        obs["field"] = True
        obs["req"] = dict(op="argsort", l=case["l"])
        obs["argsort"] = [int(k) for k in np.array(case["l"]).argsort()]
        obs["nontrivial"] = True
    elif case["kind"] == "param":
        mesh = df.Mesh(p1=(0, 0, 0), p2=(2, 3, 1), n=(2, 3, 1))
        f = df.Field(mesh, nvdim=1, value=1.0)
        R = df.FieldRotator(f)
        which = case["which"]
        obs["tags"].append("param:" + which)
        half = math.pi / 2
        if which == "align":
            ini = [Fraction(a, b) for a, b in case["initial"]]
            fin = [Fraction(a, b) for a, b in case["final"]]
            R.rotate("align_vector", initial=[float(x) for x in ini], final=[float(x) for x in fin], n=(1, 1, 1))
            obs["req"] = dict(op="align", initial=Qs(ini), final=Qs(fin))
            # the method's contract (docstring): initial is rotated to final, the cross product is kept fixed
            M_ = core.private(R, "_rotation").as_matrix()
            a_, b_ = np.array([float(x) for x in ini]), np.array([float(x) for x in fin])
            cr_ = np.cross(a_, b_)
            sc_ = max(float(np.abs(a_).max()), 1.0)
            if np.abs(M_ @ a_ - b_).max() > 1e-9 * sc_ or np.abs(M_ @ cr_ - cr_).max() > 1e-9 * max(float(np.abs(cr_).max()), 1.0):
                fail(f"align_vector: initial {a_} is not rotated to final {b_} with the cross product fixed")
        elif which == "eulercs":
            seq = [tuple(t) for t in case["seq"]]
            name = "".join("xyz"[a] for a, _, _ in seq)
            name = name.upper() if case["intrinsic"] else name
            R.rotate("from_euler", name, [math.atan2(2 * m * n, m * m - n * n) for _, m, n in seq], n=(1, 1, 1))
            obs["req"] = dict(op="eulercs", intrinsic=case["intrinsic"], axes=[a for a, _, _ in seq],
                              cs=[Qs(pyth_cs(m, n)) for _, m, n in seq])
            obs["tags"].append("euler-len:%d" % len(seq))
            if not case["intrinsic"]:
                # the harness' own quaternion product (used for the 'pyth' rotations of the histories) is the same matrix
                obs["hq"] = [Qs(r) for r in quat_matrix(*pyth_quat(seq))]
        elif which == "axisangle":
            u = [Fraction(x, case["den"]) for x in case["u"]]
            c_, s_ = pyth_cs(case["m"], case["n"])
            th = math.atan2(float(s_), float(c_))
            R.rotate("from_rotvec", [th * float(x) for x in u], n=(1, 1, 1))
            obs["req"] = dict(op="axisangle", u=Qs(u), c=Q(c_), s=Q(s_))
        elif which == "rcs":
            c_, s_ = pyth_cs(case["m"], case["n"])
            G = [[float(int(i == j)) for j in range(3)] for i in range(3)]
            a, b = case["p"], case["q"]
            G[a][a], G[a][b], G[b][a], G[b][b] = float(c_), -float(s_), float(s_), float(c_)
            R.rotate("from_matrix", G, n=(1, 1, 1))
            obs["req"] = dict(op="rcs", p=a, q=b, c=Q(c_), s=Q(s_))
        elif which == "mrp":
            p = [Fraction(a, b) for a, b in case["p"]]
            R.rotate("from_mrp", [float(x) for x in p], n=(1, 1, 1))
            obs["req"] = dict(op="mrp", p=Qs(p))
        elif which == "euler":
            seq = "".join("xyz"[a] for a in case["axes"])
            seq = seq.upper() if case["intrinsic"] else seq
            R.rotate("from_euler", seq, [k * half for k in case["ks"]], n=(1, 1, 1))
            obs["req"] = dict(op="euler", intrinsic=case["intrinsic"], axes=case["axes"], ks=case["ks"])
        elif which == "rotvec":
            v = [0.0, 0.0, 0.0]
            v[case["a"]] = case["k"] * half
            R.rotate("from_rotvec", v, n=(1, 1, 1))
            obs["req"] = dict(op="raxis", a=case["a"], k=case["k"])
        else:
            # the quarter turn of the plane (p, q) as C12 defines it: e_p -> cos e_p + sin e_q
            c_, s_ = [(1, 0), (0, 1), (-1, 0), (0, -1)][case["k"] % 4]
            G = [[int(i == j) for j in range(3)] for i in range(3)]
            a, b = case["p"], case["q"]
            G[a][a], G[a][b], G[b][a], G[b][b] = c_, -s_, s_, c_
            R.rotate("from_matrix", G, n=(1, 1, 1))
            obs["req"] = dict(op="rq", p=a, q=b, k=case["k"])
        obs["field"] = True
        obs["rotm"] = core.private(R, "_rotation").as_matrix().tolist()
        M = np.array(obs["rotm"])
        if np.abs(M @ M.T - np.eye(3)).max() > 1e-12 or abs(np.linalg.det(M) - 1) > 1e-12:
            fail(f"{which}: accumulated rotation {M.tolist()} is not a proper rotation")
        obs["nontrivial"] = True
    elif case["kind"] == "homog":
        f, info = build_field(case["field"])
        s_, d_, t_ = float(case["s"]), [float(x) for x in case["d"]], float(case["t"])
        reg = f.mesh.region
        p1 = [s_ * float(a) + dd for a, dd in zip(reg.pmin, d_)]
        p2 = [s_ * float(a) + dd for a, dd in zip(reg.pmax, d_)]
        exact = all(Fraction(v) == Fraction(s_) * Fraction(float(a)) + Fraction(dd)
                    for v, a, dd in zip(p1 + p2, list(reg.pmin) + list(reg.pmax), d_ + d_))
        arr2 = np.asarray(f.array, float) * t_
        exact = exact and bool(np.all(arr2 / t_ == np.asarray(f.array, float)))
        mesh2 = df.Mesh(region=df.Region(p1=p1, p2=p2, dims=reg.dims, units=reg.units), n=[int(k) for k in f.mesh.n], bc=f.mesh.bc)
        kw = dict(vdims=f.vdims, vdim_mapping=f.vdim_mapping, valid=np.array(f.valid, copy=True))
        if f.unit is not None:
            kw["unit"] = f.unit
        f2 = df.Field(mesh2, nvdim=f.nvdim, value=arr2, **kw)
        obs["field"] = fieldio.field_json(f)
        obs["field2"] = fieldio.field_json(f2)
        obs["tags"] += [f"nvdim:{f.nvdim}", "data:" + case["field"]["kind"], "homog:" + ("exact" if exact else "rounded"),
                        "lscale:" + lbucket(s_), "vscale:" + lbucket(abs(t_))]
        obs["exact"] = exact
        obs["pos_eps"], obs["pos_eps2"] = field_pos_eps(f), field_pos_eps(f2)
        obs["vmax"] = float(np.abs(f.array).max())
        R1, R2 = df.FieldRotator(f), df.FieldRotator(f2)
        st1, st2 = drive(R1, case["ops"]), drive(R2, case["ops"])
        acc = EYE
        nontriv = False
        for i, (op, a, b) in enumerate(zip(case["ops"], st1, st2)):
            label = f"op {i}"
            if a["ok"] != b["ok"]:
                fail(f"{label}: the field in other units (x -> {s_}*x + {d_}, v -> {t_}*v) is {'rotated' if b['ok'] else 'refused'} "
                     f"but the original is {'rotated' if a['ok'] else 'refused'}")
                break
            if op["t"] == "clear":
                acc = EYE
                continue
            if not a["ok"]:
                fail(f"{label}: valid rotation {op['rot']} n={op['n']} refused")
                break
            acc = mmul(quat_matrix(*op["rot"]["quat"]), acc)
            g, g2 = a["field"], b["field"]
            n1, n2 = [int(k) for k in g.mesh.n], [int(k) for k in g2.mesh.n]
            if n1 != n2:
                x = auto_x(f, acc)
                if op["n"] is None and all(n1[k] == n2[k] or abs(x[k] - (min(n1[k], n2[k]) + 0.5)) <= 1e-9 * max(x[k], 1) for k in range(3)):
                    obs["tags"].append("homog:auto-n-tie")
                    continue
                fail(f"{label}: cell counts depend on the unit of length: {n1} vs {n2} after x -> {s_}*x + {d_}")
                break
            res = property_oracle(f, info, case["field"], g, acc, op["n"], fail, obs["tags"], label)
            if res is None:
                break
            gt = geom_tol(g2.mesh.region.pmin, g2.mesh.region.pmax)
            e1 = s_ * np.asarray(g.mesh.region.pmin, float) + np.asarray(d_)
            e2 = s_ * np.asarray(g.mesh.region.pmax, float) + np.asarray(d_)
            if max(np.abs(e1 - np.asarray(g2.mesh.region.pmin, float)).max(), np.abs(e2 - np.asarray(g2.mesh.region.pmax, float)).max()) > gt:
                fail(f"{label}: region of the rotated field in other units [{g2.mesh.region.pmin}, {g2.mesh.region.pmax}] is not "
                     f"{s_}*[{g.mesh.region.pmin}, {g.mesh.region.pmax}] + {d_}")
                break
            peps = max(obs["pos_eps"], obs["pos_eps2"])
            away = np.abs(res["near"]) > 1e-6 + 4 * peps
            v1 = np.asarray(g.array, float).reshape(-1, f.nvdim)[away] * t_
            v2 = np.asarray(g2.array, float).reshape(-1, f.nvdim)[away]
            if v1.size and np.abs(v1 - v2).max() > (1e-9 + 8 * peps) * res["vscale"] * abs(t_):
                k = int(np.argmax(np.abs(v1 - v2).max(axis=1)))
                fail(f"{label}: values depend on the units: {t_} * {v1[k] / t_} expected, the field in other units "
                     f"(x -> {s_}*x + {d_}) gives {v2[k]}")
                break
            if list(g2.vdims or []) != list(g.vdims or []) or g2.nvdim != g.nvdim:
                fail(f"{label}: component labels depend on the units")
                break
            if res["deep"] and not is_lattice(acc):
                nontriv = True
        obs["steps"], obs["steps2"] = st1, st2
        obs["model_ops"] = [({} if op["t"] == "clear" else dict(rot=[Qs(r) for r in quat_matrix(*op["rot"]["quat"])], n=op["n"]))
                            for op in case["ops"]]
        obs["nontrivial"] = nontriv
    elif case["kind"] == "interp":
        f, info = build_field(case["field"])
        obs["field"] = fieldio.field_json(f)
        rng = random.Random(case["sub"])
        reg = f.mesh.region
        pmin, pmax = [Fraction(float(v)) for v in reg.pmin], [Fraction(float(v)) for v in reg.pmax]
        n = [int(k) for k in f.mesh.n]
        cell = [(b - a) / k for a, b, k in zip(pmin, pmax, n)]
        cen = [(a + b) / 2 for a, b in zip(pmin, pmax)]
        tol_cells = Fraction(1, 1000)     # 'clearly outside' for the generic points: a thousandth of a cell
        pts, kinds = [], []               # kinds: None | ("out", d) | ("band", twin index)

        def coord(m, a):
            if m == "node":
                return pmin[a] + (rng.randrange(n[a]) + Fraction(1, 2)) * cell[a]
            if m == "rand":
                return pmin[a] + Fraction(rng.randint(1, 64 * n[a] - 1), 64) * cell[a]
            if m == "face":
                return rng.choice([pmin[a], pmax[a]])
            return rng.choice([pmin[a] - Fraction(rng.randint(1, 40), 16) * cell[a], pmax[a] + Fraction(rng.randint(1, 40), 16) * cell[a]])

        for _ in range(case["npts"]):
            mode = rng.choice(["node", "rand", "rand", "rand", "face", "out", "mixed"])
            pts.append([coord(mode if mode != "mixed" else rng.choice(["node", "rand", "face", "out"]), a) - cen[a] for a in range(3)])
            kinds.append(None)
        # points at every relative distance 1e-1 ... 1e-15 of a cell from a face of the region, on either side (1-3 axes
        # near a face, the others generic inside), and next to a node (cell centre) on either side
        for _ in range(case.get("nnear", 0)):
            near_axes = rng.sample(range(3), rng.choice([1, 1, 2, 3]))
            d = Fraction(rng.choice([1, 2, 5]), 10 ** rng.randint(1, 15))
            side = rng.choice(["out", "in", "node"])
            p, twin = [], []
            for a in range(3):
                if a not in near_axes:
                    x = coord(rng.choice(["rand", "node"]), a)
                    p.append(x - cen[a]); twin.append(x - cen[a])
                elif side == "node":
                    x = coord("node", a) + rng.choice([-1, 1]) * d * cell[a]
                    p.append(x - cen[a]); twin.append(x - cen[a])
                else:
                    lo = rng.random() < 0.5
                    sgn = (-1 if lo else 1) * (1 if side == "out" else -1)
                    x = (pmin[a] if lo else pmax[a]) + sgn * d * cell[a]
                    t = (pmin[a] + cell[a] / 1000) if lo else (pmax[a] - cell[a] / 1000)
                    p.append(x - cen[a]); twin.append(t - cen[a])
            pts.append(p)
            if side == "node":
                kinds.append(None)
            else:
                # the twin: same point moved a thousandth of a cell inside on the near axes - between the face and the
                # first/last cell centre the interpolant does not depend on that coordinate
                kinds.append((side, float(d), len(pts)))
                pts.append(twin)
                kinds.append(None)
            obs["tags"].append("near-face:%s:%s" % (side, "1e-1..1e-5" if d >= Fraction(1, 10 ** 5) else "1e-6..1e-10" if d >= Fraction(1, 10 ** 10) else "1e-11..1e-15"))
        R = df.FieldRotator(f)
        arr = np.asarray(f.array, float)
        P = np.array([[float(x) for x in p] for p in pts])
        pts = [[Fraction(float(x)) for x in row] for row in P.tolist()]   # the points the code really gets
        out = np.stack([core.private(R, "_create_interpolation_funcs")(arr[..., c])(P) for c in range(f.nvdim)], axis=-1)
        obs["pts"] = [[Q(x) for x in p] for p in pts]
        obs["out"] = out.tolist()
        obs["tags"] += scale_tags(case["field"])
        peps = field_pos_eps(f)
        obs["pos_eps"] = peps
        vsc = float(np.abs(arr).max()) or 1.0
        obs["vmax"] = vsc
        vt = (1e-12 + 8 * peps) * vsc
        band = 1e-6 + 4 * peps
        # property-level: value at a node is the stored value; outside is zero; up to the face the edge value continues
        for k, (p, o) in enumerate(zip(pts, out)):
            idx, node, outside = [], True, False
            for a in range(3):
                u = (p[a] + cen[a] - pmin[a]) / cell[a] - Fraction(1, 2)
                if u.denominator != 1 or not (0 <= u < n[a]):
                    node = False
                else:
                    idx.append(int(u))
                if p[a] + cen[a] < pmin[a] - cell[a] * tol_cells or p[a] + cen[a] > pmax[a] + cell[a] * tol_cells:
                    outside = True
            if node and np.abs(o - arr[tuple(idx)]).max() > vt:
                fail(f"interpolant at the centre of cell {idx} is {o}, stored value {arr[tuple(idx)]}")
                break
            if outside and np.abs(o).max() != 0:
                fail(f"interpolant at {[float(x) for x in p]} (outside) is {o}, not 0")
                break
            if kinds[k] is not None and kinds[k][0] == "out" and kinds[k][1] > band and np.abs(o).max() != 0:
                fail(f"interpolant at {[float(x) for x in p]} ({kinds[k][1]:g} cell outside the region) is {o}, not 0")
                break
        obs["twins"] = [kd[2] if kd is not None else None for kd in kinds]
        obs["nontrivial"] = True
    else:
        rng = random.Random(case["sub"])
        why = case["why"]
        nd = 3 if why != "ndim" else rng.choice([1, 2, 4])
        spec = fieldio.gen_mesh_spec(rng, ndim=nd, max_cells=30, nmax=3)
        mesh = fieldio.build_mesh(spec)
        dims = list(mesh.region.dims)
        nv = rng.choice([2, 4, 5]) if why == "nvdim" else rng.choice([1, 3]) if why in ("ndim", "fine") else 3
        kw = {}
        vd = ["p", "q", "r"] if rng.random() < 0.5 else ["x", "y", "z"]
        if why in ("nomap", "partial", "baddim", "noninj"):
            kw["vdims"] = vd
        if why == "nomap":
            kw["vdim_mapping"] = {}
        elif why == "partial":
            mp = dict(zip(vd, dims))
            mp[rng.choice(vd)] = None
            kw["vdim_mapping"] = mp
        elif why == "baddim":
            mp = dict(zip(vd, dims))
            mp[rng.choice(vd)] = "notadim"
            kw["vdim_mapping"] = mp
        elif why == "noninj":
            mp = dict(zip(vd, dims))
            i, j = rng.sample(range(3), 2)
            mp[vd[i]] = dims[j]
            kw["vdim_mapping"] = mp
        if why == "nvdim" and rng.random() < 0.7:
            # every label mapped to an axis: only the component-count check can refuse
            kw["vdims"] = ["c%d" % i for i in range(nv)]
            kw["vdim_mapping"] = {v: dims[i % 3] for i, v in enumerate(kw["vdims"])}
        arr = fieldio.gen_int_array(rng, (*[int(k) for k in mesh.n], nv))
        f = df.Field(mesh, nvdim=nv, value=arr, **kw)
        obs["field"] = fieldio.field_json(f)
        obs["vmax"] = float(np.abs(arr).max())
        obs["why"] = why
        obs["tags"].append("refuse:" + why)
        try:
            R = df.FieldRotator(f)
            obs["ctor"] = "ok"
        except Exception as e:
            obs["ctor"] = "err"
            obs["exc"] = type(e).__name__
        obs["rotate"] = None
        if obs["ctor"] == "ok":
            try:
                apply_rot(R, case["rot"], None, random.Random(3))
                obs["rotate"] = "ok"
                obs["g"] = R.field
            except Exception as e:
                obs["rotate"] = "err"
            obs["rotm"] = core.private(R, "_rotation").as_matrix().tolist()
        produced = obs["rotate"] == "ok"
        if why == "fine":
            if not produced:
                fail(f"scalar/3-vector field on a 3-d mesh with the default mapping was refused (nvdim={nv})")
        elif produced:
            fail(f"field outside the supported class ({why}: nvdim={nv}, ndim={nd}, mapping={f.vdim_mapping}) was rotated")
        obs["nontrivial"] = True
    return obs


# ------------------------------------------------------------------ model side
def model_requests(case, obs):
    if "field" not in obs:
        return []
    if case["kind"] == "hist":
        return [dict(op="history", field=obs["field"], ops=obs["model_ops"])]
    if case["kind"] == "quarter":
        Mq = quat_matrix(*case["quat"])
        return [dict(op="history", field=obs["field"], ops=[dict(rot=[Qs(r) for r in Mq], n=[int(k) for k in obs["g"].mesh.n])]),
                dict(op="quat", q=Qs(case["quat"])), dict(op="turns", field=obs["field"], seq=obs["turn_seq"])] \
            + [dict(op="rq", p=a, q=b, k=k) for (a, b, k) in obs["seq"]]
    if case["kind"] == "homog":
        return [dict(op="history", field=obs["field"], ops=obs["model_ops"]),
                dict(op="aff_history", field=obs["field"], s=Q(float(case["s"])), d=Qs([float(x) for x in case["d"]]),
                     t=Q(float(case["t"])), ops=obs["model_ops"]),
                dict(op="history", field=obs["field2"], ops=obs["model_ops"])]
    if case["kind"] == "param":
        return [obs["req"]]
    if case["kind"] == "interp":
        return [dict(op="interp", field=obs["field"], pts=obs["pts"])]
    Mq = quat_matrix(*case["rot"]["quat"])
    return [dict(op="history", field=obs["field"], ops=[dict(rot=[Qs(r) for r in Mq], n=None)])]


def cmp_rot(name, rotm, mrows, dis):
    a = np.array(rotm, float)
    b = np.array([[float(F(x)) for x in r] for r in mrows])
    if np.abs(a - b).max() > 1e-12:
        dis.append(f"{name}: accumulated rotation impl {a.tolist()} vs model {b.tolist()}")
        return False
    return True


def cmp_rotated(name, g, st, dis, auto, peps=0.0, vmax=0.0):
    """peps: rounding bound (cells) of the back-rotated positions on the real code (regions far from the origin);
    vmax: largest magnitude stored in the ORIGINAL field (the values the rounding errors are relative to)"""
    mj = st["field"]
    n_i = [int(k) for k in g.mesh.n]
    n_m = mj["mesh"]["n"]
    if n_i != n_m:
        if auto:
            x3 = [F(x) for x in st["x3"]]
            tie = True
            for a in range(3):
                if n_i[a] != n_m[a]:
                    x = float(x3[a]) ** (1 / 3)
                    if not (abs(n_i[a] - n_m[a]) == 1 and abs(x - (min(n_i[a], n_m[a]) + 0.5)) <= 1e-9 * max(x, 1)):
                        tie = False
            if tie:
                return "tie"
        dis.append(f"{name}: n impl {n_i} vs model {n_m}")
        return None
    got = fieldio.field_json(g)
    # relative to the region itself (no absolute floor: the unit of length is arbitrary)
    gt = geom_tol([float(F(x)) for x in mj["mesh"]["region"]["pmin"]], [float(F(x)) for x in mj["mesh"]["region"]["pmax"]])
    for key in ("pmin", "pmax"):
        a, b = got["mesh"]["region"][key], mj["mesh"]["region"][key]
        if any(abs(F(x) - F(y)) > gt for x, y in zip(a, b)):
            dis.append(f"{name}: region {key} impl {[float(F(x)) for x in a]} vs model {[float(F(x)) for x in b]}")
            return None
    for key in ("dims", "units"):
        if got["mesh"]["region"][key] != mj["mesh"]["region"][key]:
            dis.append(f"{name}: region {key} impl {got['mesh']['region'][key]} vs model {mj['mesh']['region'][key]}")
    if got["mesh"]["bc"] != mj["mesh"]["bc"] or len(got["mesh"]["subs"]) != len(mj["mesh"]["subs"]):
        dis.append(f"{name}: bc/subregions impl {got['mesh']['bc']!r}/{len(got['mesh']['subs'])} vs model {mj['mesh']['bc']!r}")
    if got["nvdim"] != mj["nvdim"] or got["vdims"] != mj["vdims"]:
        dis.append(f"{name}: nvdim/vdims impl {got['nvdim']} {got['vdims']} vs model {mj['nvdim']} {mj['vdims']}")
        return None
    if sorted(map(tuple, got["vmap"])) != sorted(map(tuple, mj["vmap"])):
        dis.append(f"{name}: vdim_mapping impl {got['vmap']} vs model {mj['vmap']}")
    if got["unit"] != mj["unit"]:
        dis.append(f"{name}: unit impl {got['unit']} vs model {mj['unit']}")
    if got["valid"] != mj["valid"]:
        dis.append(f"{name}: validity differs")
    mv = np.array([[float(F(x)) for x in row] for row in mj["data"]])
    iv = np.asarray(g.array, float).reshape(-1, g.nvdim)
    if mv.shape != iv.shape:
        dis.append(f"{name}: data shape impl {iv.shape} vs model {mv.shape}")
        return None
    margins = np.array([float(F(x)) for x in st["margins"]])
    away = margins > 1e-6 + 4 * peps
    sc = max(float(np.abs(mv).max()) if mv.size else 0.0, float(vmax), 1e-300)
    d = np.abs(mv - iv).max(axis=1)
    bad = np.where(away & (d > (1e-9 + 8 * peps) * sc))[0]
    if len(bad):
        k = int(bad[0])
        dis.append(f"{name}: value at flat cell {k} impl {iv[k].tolist()} vs model {mv[k].tolist()} (margin {margins[k]:.3g} cells)")
    return "ok"


def cmp_steps(isteps, r, dis, peps, vmax, prefix=""):
    if "ok" not in r:
        dis.append(f"{prefix}FieldRotator(): impl ok vs model {r}")
        return
    msteps = r["ok"]
    if len(msteps) != len(isteps):
        raise core.MachineryError("step count mismatch")
    for i, (a, b) in enumerate(zip(isteps, msteps)):
        name = f"{prefix}op {i} ({a['t']})"
        if a["ok"] != (b["err"] is None):
            dis.append(f"{name}: impl {'ok' if a['ok'] else 'err'} vs model {b['err'] or 'ok'}")
            break
        if not cmp_rot(name, a["rotm"], b["rot"], dis):
            break
        if a["t"] == "rotate" and a["ok"]:
            cmp_rotated(name, a["field"], b, dis, a["auto"], peps, vmax)


def compare(case, obs, rs):
    dis = []
    if not rs:
        return dis
    if case["kind"] == "hist":
        cmp_steps(obs["steps"], rs[0], dis, obs.get("pos_eps", 0.0), obs.get("vmax", 0.0))
        return dis
    if case["kind"] == "homog":
        cmp_steps(obs["steps"], rs[0], dis, obs.get("pos_eps", 0.0), obs.get("vmax", 0.0))
        # the model's own change of units (affFld: the object of the theorems rot_homogeneous / history_homogeneous)
        # against the real code run on the field in the other units
        cmp_steps(obs["steps2"], rs[1], dis, obs.get("pos_eps2", 0.0), obs.get("vmax", 0.0) * abs(float(case["t"])),
                  prefix="field in other units (model affFld): ")
        if obs.get("exact") and "ok" in rs[1] and "ok" in rs[2]:
            # exact regime: affFld of the original IS the field the real code was given - the two model runs coincide
            for i, (a, b) in enumerate(zip(rs[1]["ok"], rs[2]["ok"])):
                fa, fb = a.get("field") or {}, b.get("field") or {}
                # (the order of the mapping's keys is not compared: aged objects carry the same mapping in another order)
                if a.get("err") != b.get("err") or a.get("rot") != b.get("rot") or any(fa.get(k) != fb.get(k) for k in ("mesh", "data", "nvdim", "vdims")):
                    dis.append(f"op {i}: model history of affFld(f) differs from the model history of the field built in the other units")
                    break
        return dis
    if case["kind"] == "quarter":
        r = rs[0]
        if "ok" not in r or r["ok"][0]["err"] is not None:
            return [f"quarter turn: impl ok vs model {str(r)[:200]}"]
        cmp_rotated("quarter turn", obs["g"], r["ok"][0], dis, False, obs.get("pos_eps", 0.0), obs.get("vmax", 0.0))
        if not rs[1]["is_rot"] or [[F(x) for x in row] for row in rs[1]["ok"]] != quat_matrix(*case["quat"]):
            dis.append(f"harness matrix of quaternion {case['quat']} differs from the model's ofQuat {rs[1]}")
        # the model's quarter-turn matrices Rq (the ones the theorems speak about), multiplied in call order,
        # are the lattice rotation that was compared with Field.rotate90 on the real code
        # the model of the SEQUENCE of Field.rotate90 calls (turns / turnsM: the objects of the theorem
        # rotate90_sequence_is_one_rotation) against the real sequence of Field.rotate90 calls
        rt = rs[2]
        if "ok" not in rt:
            dis.append(f"sequence {obs['turn_seq']} of Field.rotate90 calls: impl ok vs model {str(rt)[:200]}")
        else:
            ref, mj = obs["ref"], rt["ok"]
            if [[F(x) for x in row] for row in rt["prod"]] != quat_matrix(*case["quat"]):
                dis.append(f"ordered product of the model's quarter-turn matrices of {obs['turn_seq']} differs from the lattice rotation {case['quat']}")
            if [int(k) for k in ref.mesh.n] != mj["mesh"]["n"]:
                dis.append(f"sequence {obs['turn_seq']}: n impl {[int(k) for k in ref.mesh.n]} vs model {mj['mesh']['n']}")
            else:
                gt = geom_tol(np.asarray(ref.mesh.region.pmin, float), np.asarray(ref.mesh.region.pmax, float))
                for key, val in (("pmin", ref.mesh.region.pmin), ("pmax", ref.mesh.region.pmax)):
                    if any(abs(Fraction(float(x)) - F(y)) > gt for x, y in zip(val, mj["mesh"]["region"][key])):
                        dis.append(f"sequence {obs['turn_seq']}: region {key} impl {list(val)} vs model {[float(F(y)) for y in mj['mesh']['region'][key]]}")
                mv = np.array([[float(F(x)) for x in row] for row in mj["data"]])
                iv = np.asarray(ref.array, float).reshape(-1, ref.nvdim)
                if mv.shape != iv.shape or np.abs(mv - iv).max() > 1e-12 * max(float(obs.get("vmax", 0.0)), 1e-300):
                    dis.append(f"sequence {obs['turn_seq']} of Field.rotate90 calls: values differ from the model's turns")
                if list(ref.mesh.region.dims) != mj["mesh"]["region"]["dims"]:
                    dis.append(f"sequence {obs['turn_seq']}: axis names impl {list(ref.mesh.region.dims)} vs model {mj['mesh']['region']['dims']}")
        P = EYE
        for r in rs[3:]:
            if not r.get("is_rot"):
                dis.append(f"model Rq is not a rotation: {r}")
            P = mmul([[F(x) for x in row] for row in r["ok"]], P)
        if P != quat_matrix(*case["quat"]):
            dis.append(f"product of the model's quarter-turn matrices for {obs['seq']} differs from the lattice rotation {case['quat']}")
        return dis
    if case["kind"] == "param":
        r = rs[0]
        if "ok" not in r:
            return [f"param {case['which']}: model {r}"]
        if case["which"] == "argsort":
            if r["ok"] != obs["argsort"]:
                dis.append(f"argsort({case['l']}): numpy {obs['argsort']} vs model {r['ok']}")
            if sorted(case["l"]) == [0, 1, 2] and r["inv"] != obs["argsort"]:
                dis.append(f"argsort of the permutation {case['l']}: numpy {obs['argsort']} vs the model's invAt {r['inv']}")
            return dis
        if case["which"] == "eulercs" and obs.get("hq") is not None and r["ok"] != obs["hq"]:
            dis.append(f"eulercs {obs['req']}: the harness' quaternion product {obs['hq']} differs from the model's eulerCS {r['ok']}")
        if case["which"] in ("mrp", "align", "eulercs", "axisangle", "rcs") and not r.get("is_rot"):
            dis.append(f"model matrix for {case['which']} {obs['req']} is not a rotation")
        cmp_rot(f"{case['which']} {obs['req']}", obs["rotm"], r["ok"], dis)
        return dis
    if case["kind"] == "interp":
        r = rs[0]
        if "ok" not in r:
            return [f"interp: model {r}"]
        mv = np.array([[float(F(x)) for x in row] for row in r["ok"]])
        iv = np.array(obs["out"], float)
        margins = np.array([float(F(x)) for x in r["margins"]])
        peps = obs.get("pos_eps", 0.0)
        sc = max(float(np.abs(mv).max()), float(obs.get("vmax", 0.0))) or 1.0
        vt = (1e-12 + 8 * peps) * sc
        band = 1e-6 + 4 * peps
        d = np.abs(mv - iv).max(axis=1)
        bad = np.where((margins > band) & (d > vt))[0]
        if len(bad):
            k = int(bad[0])
            dis.append(f"interpolator at point {[float(F(x)) for x in obs['pts'][k]]} (relative to the centre): impl {iv[k].tolist()} vs model {mv[k].tolist()}")
            return dis
        # boundary comparator: within the band around the inside/outside face either side's outcome is accepted -
        # zero, or the value just inside the face (the twin point a thousandth of a cell inside)
        for k in np.where((margins <= band) & (d > vt))[0]:
            tw = (obs.get("twins") or [None] * len(iv))[int(k)]
            if tw is None or np.abs(iv[k]).max() == 0 or np.abs(iv[k] - mv[tw]).max() <= vt:
                continue
            dis.append(f"interpolator at point {[float(F(x)) for x in obs['pts'][int(k)]]} ({margins[k]:.3g} cell from the inside/outside face): "
                       f"impl {iv[k].tolist()} is neither 0 nor the model's value just inside")
            break
        return dis
    # refuse
    r = rs[0]
    m_ctor = "ok" if "ok" in r else "err"
    if m_ctor != obs["ctor"]:
        return [f"FieldRotator({obs['why']}): impl {obs['ctor']} vs model {m_ctor}"]
    if m_ctor == "ok":
        st = r["ok"][0]
        m_rot = "ok" if st["err"] is None else "err"
        if m_rot != obs["rotate"]:
            return [f"rotate on {obs['why']} field: impl {obs['rotate']} vs model {m_rot}"]
        cmp_rot("rotate on refused field", obs["rotm"], st["rot"], dis)
        if m_rot == "ok":
            cmp_rotated("rotate (fine)", obs["g"], st, dis, True, 0.0, obs.get("vmax", 0.0))
    return dis


def nontrivial(case, obs):
    return bool(obs.get("nontrivial"))


def known(case, text):
    return None


def search(case, rng):
    """neighbours: the same field under other rotations / explicit n; then fresh cases"""
    if case.get("kind") in ("hist", "quarter") and "field" in case:
        for _ in range(40):
            yield dict(kind="hist", field=case["field"], ops=[dict(t="rotate", rot=gen_rot(rng), n=None)])
        for _ in range(40):
            spec = dict(case["field"], kind=rng.choice(["affine", "uniform"]), sub=rng.getrandbits(30))
            yield dict(kind="hist", field=spec, ops=[dict(t="rotate", rot=gen_rot(rng), n=None),
                                                      dict(t="rotate", rot=gen_rot(rng), n=[rng.randint(2, 5) for _ in range(3)])])
    for c in cases(rng, "quick"):
        yield c
