"""C16 — VTK output puts each value in the grid cell a VTK reader finds at that position.

Every case builds a real field (or fabricates a file), calls `Field.to_vtk` / `Field.to_file` /
`Field.from_file`, and looks at the result through VTK itself: coordinates and arrays read with
`vtkmodules`, cell lookup with `vtkRectilinearGrid.FindCell`, cell boxes with `GetCell(id).GetBounds()`,
cell centres with pyvista when importable, files re-read with VTK's own readers.  The Lean model gets
the same field / the grid VTK read from the file / the tokenised legacy text.  All files are written into
a fresh `tempfile.TemporaryDirectory()` (never inside /verif or /repo).
"""
import json
import os
import random
import tempfile
from urllib.parse import unquote
from fractions import Fraction

import numpy as np
from vtkmodules.util import numpy_support as vns
from vtkmodules.vtkCommonCore import reference, vtkObject
from vtkmodules.vtkCommonDataModel import vtkRectilinearGrid
from vtkmodules.vtkIOLegacy import vtkRectilinearGridReader, vtkRectilinearGridWriter
from vtkmodules.vtkIOXML import vtkXMLRectilinearGridReader, vtkXMLRectilinearGridWriter

from . import core
from .core import Q, Qs, F

import discretisedfield as df

try:  # second, independent consumer of the grid
    import pyvista as pv
except Exception:  # pragma: no cover
    pv = None

vtkObject.GlobalWarningDisplayOff()  # malformed fabricated files make VTK's readers chatty

PID = "C16"
RULE = ("(a) fields on anisotropic 3-d meshes (1-5 cells per axis, negative/large offsets, renamed dims/units), 1-4 components, "
        "default / custom / odd labels (spaces, unicode, '%', names close to the fixed array names), masks of every density, 0-3 "
        "subregions; two regimes: 'exact' (dyadic geometry and values: equality demanded) and 'tol' (scales 1e-9..1e3, offsets up to "
        "1e3 edges, thirds: coordinates to 2^-40, values exact, lookups by the boundary comparator).  Per field: Field.to_vtk -> "
        "dimensions, coordinates, array names/order/components/type/values and the active scalars/vectors attributes vs the model grid; VTK FindCell at every cell centre, at "
        "random interior points, near and on faces, outside, vs the model's locate and vs f(p); Field.to_file in bin/bin8/txt/xml with "
        "and without side-car -> the file re-read by VTK alone goes to the model reader and is compared with Field.from_file; side-car "
        "presence and content vs the model; the ORDER of the arrays VTK reads back from each file and, for text files, the SCALARS / VECTORS / FIELD "
        "section headers with their array names vs the model's legacyOrder / legacySections; exact round trip by the model (op roundtrip).  (b) legacy point-data files fabricated by "
        "the harness (scalar / vector, with and without per-component blocks, single-point axes, side-car, short / long / blank / broken "
        "data, keyword lines inside the data, one number too many, coordinate headers without numbers) vs the model's legacy reader.  (b') histories: sessions of 2-4 to_file calls (other meshes, with / without subregions, any "
        "representation, save_subregions on/off) and from_file calls on one or two file names in one directory, optionally starting from an old "
        "point-data file with side-car, against the model's directory (op session); every read must return the field written last under that "
        "name (the stale side-car class is finding D64).  (c) cell-data files fabricated with VTK (no valid array, no field array, extra arrays, "
        "norm only, bad side-cars).  (d) rejected inputs: 1-, 2-, 4-d fields, unlabelled vector fields, unknown representations.  "
        "Oracle on the real code alone: VTK's lookup returns a cell whose box contains p and whose field/component/norm/valid entries "
        "are those of the mesh cell containing p; from_file(to_file(f)) has the same corners, counts, values, Boolean validity, labels "
        "and subregions (exactly for bin/xml, 10 significant digits for txt); legacy files give one value per point-centred cell.  "
        "non-trivial = a field with >= 2 cells and non-constant data, or a fabricated file")
TRUSTED = ["harness/c16.py + driver JSON glue", "VTK 9: structured cell numbering, FindCell, legacy/XML writers and readers preserve a "
           "grid up to the order of the arrays in legacy files, which the model follows (observed on every case, not proved)", "Python json + float repr round trip of the side-car",
           "sqrt applied by the harness to the model's squared norm", "the harness's tokenisation of legacy text lines"]
ASSUMPTIONS = ["float64 fields only (int/float32 dtypes change the VTK array type, complex is rejected by VTK)",
               "labels never contain XML-special or control characters: VTK's XML writer does not escape attribute values (VTK is trusted)",
               "'same region' is read as same corners: a VTK file cannot carry dims/units names, tolerance, bc, unit or vdim_mapping",
               "theorems are about exact rational arithmetic; the text writer's rounding is a parameter `rnd`",
               "on a shared face VTK reports the lower cell and the mesh the upper one; the property is read as 'a cell containing p'"]
UNPROVED = ["VTK's writers/readers are modelled on the grid view as: XML = identity, legacy (bin/bin8/txt) = the reordering legacyOrder (active "
            "scalars/vectors array first, the rest in a FIELD block; layout proved in legacy_file_layout and COMPARED with the section headers of "
            "every text file and with the array order VTK reads back), txt additionally a value-wise rounding: that VTK behaves like this is "
            "observed on every case, not proved (also: the XML/legacy sniffing of the first line, percent-encoding of array names in legacy files)",
            "the norm array is modelled squared: norm_of_scalar_is_abs / norm_determined pin the non-negative root, the square root itself is the harness's",
            "text form: the rounding is a parameter; acceptance is now exact (text_file_accepted_iff: read back iff no edge collapses and every saved "
            "subregion passes the setter's test on the ROUNDED mesh) and derived from the inputs in two cases (text_roundtrip_fixed_corners: corners kept "
            "by the rounding; text_roundtrip_no_sidecar: relative error eps and edges longer than eps(|pmin|+|pmax|)); for saved subregions on corners "
            "the rounding moves, whether the setter's tolerant test passes is NOT decided from the inputs (D63 lives there)",
            "subregions: sidecar_accepted / file_roundtrip_exact_subs / history_roundtrip / roundtrip_any_labels / stale_sidecar_iff assume C14.SubInv "
            "(subregions fit the mesh exactly), not the tolerant acceptance of the setter; sidecar_loads_iff_any characterises loading for arbitrary "
            "entries only down to the setter's own test T.subOk",
            "scalar_label_lost / field_label_lost / stale_sidecar_witness / text_sidecar_rejected_witness remain as witnesses; the findings themselves are now "
            "EXACT conditions: D61+D62 = labels_preserved_iff (labels come back iff a scalar field is unlabelled and no component is called field/valid/norm; "
            "values, validity, geometry, subregions always come back: roundtrip_any_labels), D61 at grid level = component_arrays_any_labels, "
            "D63 = text_file_accepted_iff, D64 = stale_sidecar_iff + sidecars_over_histories",
            "names colliding with attributes of Field (rejected by the vdims setter, e.g. 'norm', 'valid', 'mesh') are not modelled: WFc allows them, the "
            "real constructor does not - the theorems for any labels are stronger than needed there; a file whose label arrays have such names is not generated",
            "legacy reader: data sections are now covered for ANY lines after the marker (legacy_data_accepted_iff: refused iff one of the first N0*N1*N2 "
            "lines is blank/non-numeric or holds a wrong number of numbers; legacy_data_values: truncated sections leave zeros, alphabetic lines are counted "
            "but skipped) on the old LAYOUT (three coordinate blocks, quiet lines in between); for arbitrary line lists only the coordinate-block scan "
            "(legacy_coord_blocks_iff) and the missing marker (legacy_needs_marker) are characterised, not the whole reader (e.g. files with two or four "
            "coordinate headers: model and code agree in the correspondence run; no theorem)"]
BUDGET = {"quick": 90, "thorough": 900}

NAMES = ["x", "y", "z", "a", "b", "c", "u", "v", "w", "t"]
UNITS = ["m", "nm", "s", "µm", ""]
LABELS = ["a", "b", "c", "d", "mx", "my", "mz", "m x", "α", "a%b", "x-component", "valid2", "norm_", "fields", "Field", "1", "p.q", "k_0"]
SUBNAMES = ["r1", "r2", "core", "shell", "größe", "default"]
REPS = ["bin", "bin8", "txt", "xml"]

_RESERVED = None


def _reserved(name):
    global _RESERVED
    if _RESERVED is None:
        _RESERVED = df.Field(df.Mesh(p1=(0, 0, 0), p2=(1, 1, 1), n=(1, 1, 1)), nvdim=1)
    return hasattr(_RESERVED, name)


# ------------------------------------------------------------------------------ generators
def gen_field(rng, regime, force=None):
    force = force or {}
    ndim = force.get("ndim", 3)
    n = [rng.choice([1, 1, 2, 2, 3, 4, 5]) for _ in range(ndim)]
    while int(np.prod(n)) > 60:
        n[max(range(ndim), key=lambda i: n[i])] -= 1
    if regime == "exact":
        cell = [Fraction(rng.choice([1, 1, 3, 5]), 2 ** rng.randint(0, 3)) * (k + 1 if rng.random() < 0.7 else 1) for k in range(ndim)]
        pmin = [Fraction(rng.randint(-40, 40), 2 ** rng.randint(0, 2)) * rng.choice([1, 1, 1, 16]) for _ in range(ndim)]
        pmax = [a + k * c for a, k, c in zip(pmin, n, cell)]
        lo, hi = [float(x) for x in pmin], [float(x) for x in pmax]
        if ndim == 3 and rng.random() < 0.2:
            # corner points given as Python ints, two cells per unit along some axes: vertices and centres are not integers
            ie = [rng.randint(1, 3) for _ in range(ndim)]
            fac = [rng.choice([1, 2, 2]) for _ in range(ndim)]
            while int(np.prod([e * f for e, f in zip(ie, fac)])) > 60:
                k = max(range(ndim), key=lambda i: ie[i] * fac[i])
                if ie[k] > 1:
                    ie[k] -= 1
                else:
                    fac[k] = 1
            n = [e * f for e, f in zip(ie, fac)]
            ip = [rng.randint(-9, 9) for _ in range(ndim)]
            lo, hi = [float(a) for a in ip], [float(a + e) for a, e in zip(ip, ie)]
            force = dict(force, intc=True)
    else:
        scale = 10.0 ** rng.randint(-9, 3)
        edge = [scale * rng.choice([1.0, 1 / 3, 0.7, 2.5, 10.0]) * rng.uniform(0.5, 2) for _ in range(ndim)]
        off = rng.choice([0.0, 0.0, 1.0, -1.0, 17.3, -1000.0, 1000.0])
        lo = [off * e + rng.uniform(-1, 1) * e for e in edge]
        hi = [a + e for a, e in zip(lo, edge)]
    swap = [rng.random() < 0.25 for _ in range(ndim)]
    nvdim = force.get("nvdim") or rng.choice([1, 1, 2, 3, 3, 3, 4])
    r = rng.random()
    vd = None
    if "vdims" in force:
        vd = force["vdims"]
    elif r < 0.45:
        pool = [x for x in LABELS if not _reserved(x)]
        vd = rng.sample(pool, nvdim) if nvdim > 1 else None
    nsub = force.get("nsub", rng.choice([0, 0, 1, 2, 3]))
    if regime == "tol" and not (1e-9 <= min(b - a for a, b in zip(lo, hi)) and max(abs(x) for x in lo + hi) < 1e2):
        nsub = 0  # stay clear of the absolute 1e-12 of is_aligned (finding D18 of C14)
    subs, names = [], rng.sample(SUBNAMES, 3)
    for s in range(nsub):
        box = [sorted(rng.sample(range(k + 1), 2)) for k in n]
        subs.append(dict(name=names[s], lo=[b[0] for b in box], hi=[b[1] for b in box]))
    reps = force.get("reps") or rng.sample(REPS, rng.choice([1, 2, 2, 4]))
    return dict(kind="field", regime=regime, n=n, lo=lo, hi=hi, swap=swap,
                dims=(rng.sample(NAMES, ndim) if rng.random() < 0.3 else None),
                units=([rng.choice(UNITS) for _ in range(ndim)] if rng.random() < 0.3 else None),
                nvdim=nvdim, vdims=vd, density=rng.choice([1.0, 1.0, 0.8, 0.5, 0.2, 0.0]), subs=subs,
                unit=rng.choice([None, None, "A/m", "T"]), reps=reps, save=rng.random() < 0.85,
                pyth=rng.random() < 0.3, sub=rng.getrandbits(32), intc=bool(force.get("intc")),
                intstore=(rng.choice(["int16", "int32", "int64", "uint8"]) if regime == "exact" and rng.random() < 0.08 else None))


def gen_legacy(rng, regime):
    N = [rng.choice([1, 1, 2, 3, 4, 5]) for _ in range(3)]
    while int(np.prod(N)) > 40:
        N[max(range(3), key=lambda i: N[i])] -= 1
    if regime == "exact":
        c = [float(Fraction(rng.choice([1, 3, 5]), 2 ** rng.randint(0, 3))) for _ in range(3)]
        o = [float(Fraction(rng.randint(-40, 40), 2 ** rng.randint(0, 2))) for _ in range(3)]
    else:
        sc = 10.0 ** rng.randint(-9, 0)
        c = [sc * rng.uniform(0.5, 2) for _ in range(3)]
        o = [rng.choice([0.0, 1.0, -30.0]) * sc + 0.5 * cc for cc in c]
    vec = rng.random() < 0.55
    # a side-car only when no axis has a single point: there the reader's `origin - 0.5e-9` rounds by more than the
    # region's comparison tolerance (1e-12 of the 1e-9 default cell), which the exact model cannot follow
    sidecar = rng.choice(["none", "none", "ok", "bad"]) if min(N) > 1 else "none"
    return dict(kind="legacy", regime=regime, N=N, c=c, o=o, vec=vec, comp_blocks=vec and rng.random() < 0.6,
                defect=rng.choice(["none"] * 6 + ["short", "blank", "alpha", "one-number", "two-numbers", "nonuniform", "no-marker",
                                                  "coords-split", "two-axes", "long", "extra-number", "coords-broken", "alpha-first"]),
                sidecar=sidecar, trailing_nl=rng.random() < 0.7, sub=rng.getrandbits(32))


def gen_session(rng):
    """a history of to_file / from_file calls on one or two file names in one directory"""
    names = ["a.vtk", "b.vtk"][: rng.choice([1, 1, 2])]
    ops = []
    for _ in range(rng.choice([2, 2, 3, 3, 4])):
        fc = gen_field(rng, "exact", dict(reps=["bin"], nsub=rng.choice([0, 0, 1, 2])))
        if rng.random() < 0.35 and ops:  # same mesh as the previous write (other values, maybe without its subregions)
            prev = next(o for o in reversed(ops) if o["op"] == "write")["field"]
            fc = dict(prev, sub=rng.getrandbits(32), density=rng.choice([1.0, 0.5]), subs=rng.choice([prev["subs"], []]))
        ops.append(dict(op="write", name=rng.choice(names), field=fc, rep=rng.choice(REPS + ["bin", "xml"]),
                        save=rng.random() < 0.7))
        if rng.random() < 0.5:
            ops.append(dict(op="read", name=rng.choice(names)))
    ops += [dict(op="read", name=n) for n in names]
    start = None
    if rng.random() < 0.2:  # an old point-data file (and maybe its side-car) is already there under the first name
        lc = gen_legacy(rng, "exact")
        lc["defect"] = "none"
        # no single-point axis: its 1e-9 default cell makes `origin - 0.5e-9` round in binary64 (compared with a tolerance in the
        # legacy stream; the session comparison is exact)
        lc["N"] = [max(2, k) for k in lc["N"]]
        lc["sidecar"] = rng.choice(["none", "ok"])
        start = lc
    return dict(kind="session", ops=ops, start=start, regime="exact", sub=rng.getrandbits(32))


TAMPERS = ["no-valid", "no-field", "extra-array", "norm-only", "field-first", "labels-mismatch", "dup-like", "valid-values",
           "sidecar-outside", "sidecar-misaligned", "sidecar-unordered", "sidecar-ok", "point-and-cell"]


def cases(rng, tier):
    quick = tier == "quick"
    # every nvdim x label kind x representation at least once, exact regime
    for nvdim in (1, 2, 3, 4):
        for lab in ("default", "custom"):
            pool = [x for x in LABELS if not _reserved(x)]
            yield gen_field(rng, "exact", dict(nvdim=nvdim, vdims=(None if lab == "default" or nvdim == 1 else rng.sample(pool, nvdim)),
                                               reps=list(REPS), nsub=rng.choice([1, 2])))
    for k in range(750 if quick else 9000):
        yield gen_field(rng, ("exact", "exact", "tol")[k % 3])
    # the label classes of findings D61 / D62 (kept small and deterministic)
    for k in range(2 if quick else 6):
        yield gen_field(rng, "exact", dict(nvdim=1, vdims=[rng.choice(["s", "rho", "mz"])], nsub=0))
        nv = rng.choice([2, 3, 4])
        lab = ["field"] + rng.sample(["a", "b", "c"], nv - 1)
        rng.shuffle(lab)
        yield gen_field(rng, "exact", dict(nvdim=nv, vdims=lab, nsub=0))
    # text files of fields with subregions on geometry that ten digits cannot hold (finding D63)
    for k in range(2 if quick else 8):
        c = gen_field(rng, "tol", dict(reps=["txt"], nsub=1))
        c["save"] = True
        yield c
    for k in range(240 if quick else 3000):
        yield gen_legacy(rng, ("exact", "exact", "tol")[k % 3])
    # histories: the same file names written and read several times (finding D64 lives here)
    for k in range(70 if quick else 800):
        yield gen_session(rng)
    for t in TAMPERS:
        for _ in range(6 if quick else 60):
            c = gen_field(rng, "exact", dict(nvdim=rng.choice([1, 2, 3]), nsub=1))
            c["kind"] = "tamper"
            c["tamper"] = t
            c["rep"] = rng.choice(["bin", "txt", "xml"])
            yield c
    # rejected inputs
    for ndim in (1, 2, 4):
        for _ in range(2 if quick else 10):
            c = gen_field(rng, "exact", dict(ndim=ndim, nvdim=rng.choice([1, 3]), nsub=rng.choice([0, 1])))
            c["kind"] = "reject"
            c["why"] = "ndim"
            yield c
    for nv in (2, 4):
        c = gen_field(rng, "exact", dict(nvdim=nv, vdims=[]))
        c["kind"] = "reject"
        c["why"] = "labels"
        yield c
    for rep in ["bin4", "BIN", "ascii", "", "binary", "txt ", "vtk", "XML", "bin16"]:
        c = gen_field(rng, "exact", dict(reps=[rep], nsub=1))
        c["kind"] = "reject"
        c["why"] = "rep"
        yield c


# ------------------------------------------------------------------------------ real objects
def build_mesh(c):
    ndim = len(c["n"])
    lo, hi = c["lo"], c["hi"]
    p1 = [b if s else a for a, b, s in zip(lo, hi, c["swap"])]
    p2 = [a if s else b for a, b, s in zip(lo, hi, c["swap"])]
    kw = {}
    if c.get("dims"):
        kw["dims"] = c["dims"]
    if c.get("units"):
        kw["units"] = c["units"]
    if c.get("intc"):
        p1, p2 = [int(x) for x in p1], [int(x) for x in p2]
    region = df.Region(p1=tuple(p1), p2=tuple(p2), **kw)
    mesh = df.Mesh(region=region, n=tuple(c["n"]))
    if c.get("subs"):
        verts = [getattr(mesh.vertices, d) for d in region.dims]
        subs = {}
        for s in c["subs"]:
            subs[s["name"]] = df.Region(p1=tuple(float(verts[a][s["lo"][a]]) for a in range(ndim)),
                                        p2=tuple(float(verts[a][s["hi"][a]]) for a in range(ndim)))
        mesh.subregions = subs
    return mesh


PYTH = [(3, 4), (5, 12), (8, 15), (0, 7), (-6, 8), (0, 0), (-20, 21)]


def build_field(c):
    rng = random.Random(c["sub"])
    mesh = build_mesh(c)
    nv = c["nvdim"]
    shape = (*[int(k) for k in mesh.n], nv)
    size = int(np.prod(shape))
    if c["regime"] == "exact":
        vals = [rng.randint(-64, 64) / 2 ** rng.randint(0, 3) for _ in range(size)]
        arr = np.array(vals, dtype=float).reshape(shape)
        if c.get("pyth") and nv >= 2:  # rational norms: squared norm compared exactly
            flat = arr.reshape(-1, nv)
            for row in flat:
                a, b = rng.choice(PYTH)
                row[:] = 0.0
                i, j = rng.sample(range(nv), 2)
                row[i], row[j] = a, b
    else:
        vals = [rng.choice([rng.uniform(-1, 1), rng.uniform(-1, 1) * 10.0 ** rng.randint(-12, 8), float(rng.randint(-5, 5)), 1 / 3])
                for _ in range(size)]
        arr = np.array(vals, dtype=float).reshape(shape)
    mask = np.array([rng.random() < c["density"] for _ in range(size // nv)], dtype=bool).reshape(shape[:-1])
    kw = {}
    if c.get("intstore"):
        # integer storage with values whose SQUARES leave the range of the storage type (the norm is a real number)
        top = {"int16": 3000, "int32": 10 ** 6, "int64": 4 * 10 ** 9, "uint8": 200}[c["intstore"]]
        lo = 0 if c["intstore"].startswith("u") else -top
        arr = np.array([rng.randint(lo, top) for _ in range(size)], dtype=float).reshape(shape)
        kw["dtype"] = getattr(np, c["intstore"])
        arr = arr.astype(kw["dtype"])
    if c["vdims"] is not None:
        kw["vdims"] = list(c["vdims"])
    if c.get("unit") is not None:
        kw["unit"] = c["unit"]
    return df.Field(mesh, nvdim=nv, value=arr, valid=mask, **kw)


# ------------------------------------------------------------------------------ JSON views
def region_json(r):
    return dict(pmin=Qs(r.pmin), pmax=Qs(r.pmax), dims=list(r.dims), units=list(r.units), tol=Q(r.tolerance_factor))


def mesh_json(m):
    return dict(region=region_json(m.region), n=[int(k) for k in m.n], bc=m.bc,
                subs=[dict(region_json(s), name=k) for k, s in m.subregions.items()])


def field_json(f):
    nv = f.nvdim
    arr = np.asarray(f.array, dtype=float).reshape(-1, nv)
    return dict(mesh=mesh_json(f.mesh), nvdim=int(nv), data=[Qs(row) for row in arr.tolist()],
                valid=[bool(v) for v in np.asarray(f.valid).reshape(-1).tolist()],
                vdims=(list(f.vdims) if f.vdims is not None else None), vmap=[], unit=f.unit)


def grid_json(g):
    """what a consumer reads from a vtkRectilinearGrid"""
    coords = [vns.vtk_to_numpy(c) if c is not None else np.zeros(0)
              for c in (g.GetXCoordinates(), g.GetYCoordinates(), g.GetZCoordinates())]
    cd = g.GetCellData()
    cell = []
    for i in range(cd.GetNumberOfArrays()):
        a = cd.GetArray(i)
        v = vns.vtk_to_numpy(a)
        cell.append(dict(name=cd.GetArrayName(i), ncomp=int(a.GetNumberOfComponents()), int=bool(v.dtype.kind in "iub"),
                         vals=Qs(v.reshape(-1).tolist()), dtype=str(v.dtype)))
    sc, vc = cd.GetScalars(), cd.GetVectors()
    return dict(dims=[int(k) for k in g.GetDimensions()], coords=[Qs(c.tolist()) for c in coords], cell=cell,
                npoint_arrays=int(g.GetPointData().GetNumberOfArrays()),
                active=[sc.GetName() if sc is not None else None, vc.GetName() if vc is not None else None])


def model_grid(gj):
    return dict(dims=gj["dims"], coords=gj["coords"],
                cell=[dict(name=a["name"], ncomp=a["ncomp"], int=a["int"], vals=a["vals"]) for a in gj["cell"]])


def sidecar_json(path):
    sp = str(path) + ".subregions.json"
    if not os.path.exists(sp):
        return None
    d = json.load(open(sp, encoding="utf-8"))
    return [dict(name=k, pmin=Qs(v["pmin"]), pmax=Qs(v["pmax"]), dims=list(v["dims"]), units=list(v["units"]),
                 tol=Q(v["tolerance_factor"])) for k, v in d.items()]


def read_with_vtk(path):
    """the file as VTK alone sees it (independent of discretisedfield's reader)"""
    with open(path, "rb") as fh:
        xml = b"xml" in fh.readline()
    if xml:
        rd = vtkXMLRectilinearGridReader()
    else:
        rd = vtkRectilinearGridReader()
        rd.ReadAllVectorsOn()
        rd.ReadAllScalarsOn()
    rd.SetFileName(str(path))
    rd.Update()
    return rd.GetOutput(), xml


def legacy_sections(path):
    """the CELL_DATA sections of a text-form legacy file: [keyword, array name(s)] in file order"""
    out = []
    with open(path, encoding="utf-8") as fh:
        lines = fh.read().split("\n")
    k = next((i for i, l in enumerate(lines) if l.startswith("CELL_DATA")), None)
    if k is None:
        return out
    k += 1
    while k < len(lines):
        w = lines[k].split(" ")
        if w[0] in ("SCALARS", "VECTORS", "COLOR_SCALARS"):
            # (VTK's legacy writer stores unsigned-char scalars as COLOR_SCALARS: the same section for this comparison)
            out.append(["SCALARS" if w[0] == "COLOR_SCALARS" else w[0], unquote(w[1])])  # the legacy writer percent-encodes array names
        elif w[0] == "FIELD":
            cnt = int(w[-1])
            names = []
            k += 1
            while len(names) < cnt and k < len(lines):
                # `name ncomp ntuples type`, then the values on the following line(s)
                parts = lines[k].rsplit(" ", 3)
                if len(parts) == 4 and parts[1].isdigit() and parts[2].isdigit() and parts[3] in ("double", "long", "vtktypeint64", "float", "int", "short", "unsigned_char", "unsigned_short", "char", "signed_char", "unsigned_int", "unsigned_long", "vtktypeuint64"):
                    names.append(unquote(parts[0]))
                k += 1
            out.append(["FIELD", names])
            continue
        elif w[0] == "POINT_DATA":
            break
        k += 1
    return out


def find_cell(g, p):
    sub = reference(0)
    return int(g.FindCell([float(x) for x in p], None, 0, 0.0, sub, [0.0] * 3, [0.0] * 8))


def _err(fn):
    try:
        return "ok", fn()
    except Exception as e:  # the property says "rejected", not how
        return "err", type(e).__name__


# ------------------------------------------------------------------------------ oracles on the real code
def lookup_oracle(f, g, pts, fail, exact):
    """VTK finds the cell at p; that cell must hold what the field holds at p"""
    mesh = f.mesh
    cd = g.GetCellData()
    arrays = {cd.GetArrayName(i): vns.vtk_to_numpy(cd.GetArray(i)) for i in range(cd.GetNumberOfArrays())}
    out = []
    pmin, pmax = mesh.region.pmin, mesh.region.pmax
    for tag, p in pts:
        cid = find_cell(g, p)
        out.append(cid)
        inside_strict = all(a < x < b for a, x, b in zip(pmin, p, pmax))
        if cid < 0:
            if tag in ("centre", "interior"):
                fail(f"VTK finds no cell at {tag} point {p} of the region")
            continue
        if tag == "outside":
            fail(f"VTK finds cell {cid} at point {p} outside the region")
            continue
        b = g.GetCell(cid).GetBounds()
        centre = [(b[0] + b[1]) / 2, (b[2] + b[3]) / 2, (b[4] + b[5]) / 2]
        if not all(b[2 * a] <= p[a] <= b[2 * a + 1] for a in range(3)):
            fail(f"VTK cell {cid} box {b} does not contain {p}")
            continue
        on_face = any(p[a] == b[2 * a] or p[a] == b[2 * a + 1] for a in range(3))
        st, idx = _err(lambda: tuple(int(k) for k in mesh.point2index(p if not on_face else centre)))
        if st != "ok":
            fail(f"point2index rejects {p} ({tag})")
            continue
        if not on_face and inside_strict:
            # the mesh cell containing p must be the one whose box VTK reports
            cidx = tuple(int(k) for k in mesh.point2index(centre))
            if cidx != idx:
                fail(f"VTK cell {cid} (centre {centre}) is mesh cell {cidx}, but p={p} lies in mesh cell {idx}")
                continue
        want = f.array[idx]
        got = arrays["field"][cid] if "field" in arrays else None
        if got is None or not np.array_equal(np.atleast_1d(got), want):
            fail(f"VTK cell {cid} found at {p} ({tag}) holds field {got}, but f(p) = {want.tolist()} (mesh cell {idx})")
            continue
        if int(arrays["valid"][cid]) != int(bool(f.valid[idx])):
            fail(f"VTK cell {cid} found at {p} holds valid={arrays['valid'][cid]}, mesh cell {idx} has {bool(f.valid[idx])}")
        s2 = sum(Fraction(float(x)) ** 2 for x in want)
        n2 = Fraction(float(arrays["norm"][cid])) ** 2
        if abs(n2 - s2) > Fraction(1, 2 ** 48) * s2:
            fail(f"VTK cell {cid} found at {p}: norm {arrays['norm'][cid]} but |f(p)|^2 = {float(s2)}")
        if f.nvdim > 1 and f.vdims is not None:
            for c, lab in enumerate(f.vdims):
                if lab == "field":
                    continue  # D61: overwritten by the vector array
                if lab not in arrays or float(arrays[lab][cid]) != float(want[c]):
                    fail(f"VTK cell {cid} found at {p}: scalar '{lab}' is {arrays.get(lab, [None] * (cid + 1))[cid]}, component {c} of f(p) is {want[c]}")
                    break
    return out


def same_field_oracle(f, h, rep, saved, fail, marker=""):
    """from_file(to_file(f)) against f, item by item as the property lists them"""
    exact = rep != "txt"
    rel = Fraction(5, 10 ** 10)

    def near(a, b):
        a, b = Fraction(float(a)), Fraction(float(b))
        return a == b if exact else abs(a - b) <= rel * abs(a)

    pre = f"[{rep}]{marker} "
    if [int(k) for k in h.mesh.n] != [int(k) for k in f.mesh.n]:
        fail(pre + f"cell counts {list(h.mesh.n)} != {list(f.mesh.n)}")
        return
    for nm in ("pmin", "pmax"):
        a, b = getattr(f.mesh.region, nm), getattr(h.mesh.region, nm)
        if not all(near(x, y) for x, y in zip(a, b)):
            fail(pre + f"region {nm} {b.tolist()} != {a.tolist()}")
    if h.nvdim != f.nvdim or h.array.shape != f.array.shape:
        fail(pre + f"nvdim/shape {h.nvdim} {h.array.shape} != {f.nvdim} {f.array.shape}")
        return
    if exact:
        if h.array.astype(float).tobytes() != f.array.astype(float).tobytes():
            k = np.argwhere(h.array != f.array)
            fail(pre + f"values differ (first at {k[0].tolist() if len(k) else 'sign of zero'})")
    else:
        bad = [i for i, (x, y) in enumerate(zip(f.array.reshape(-1).tolist(), h.array.reshape(-1).tolist())) if not near(x, y)]
        if bad:
            fail(pre + f"values differ beyond ten significant digits (first flat index {bad[0]})")
    if h.valid.dtype != np.bool_:
        fail(pre + f"validity read back with dtype {h.valid.dtype}, not Boolean")
    if not np.array_equal(np.asarray(h.valid, dtype=bool), f.valid):
        fail(pre + "validity differs")
    fl, hl = (list(f.vdims) if f.vdims is not None else None), (list(h.vdims) if h.vdims is not None else None)
    if fl != hl:
        fail(pre + f"component labels {hl} != {fl}")
    want = {k: v for k, v in f.mesh.subregions.items()} if saved else {}
    if list(h.mesh.subregions) != list(want):
        fail(pre + f"subregion names {list(h.mesh.subregions)} != {list(want)}")
    else:
        for k in want:
            if not (np.array_equal(h.mesh.subregions[k].pmin, want[k].pmin) and np.array_equal(h.mesh.subregions[k].pmax, want[k].pmax)):
                fail(pre + f"subregion {k} corners differ")


def probe_points(f, rng):
    mesh = f.mesh
    n = [int(k) for k in mesh.n]
    pmin, pmax = [float(x) for x in mesh.region.pmin], [float(x) for x in mesh.region.pmax]
    cell = [float(x) for x in mesh.cell]
    pts = [("centre", [float(x) for x in mesh.index2point(i)]) for i in mesh.indices]
    for _ in range(12):
        pts.append(("interior", [a + rng.uniform(0.02, 0.98) * (b - a) for a, b in zip(pmin, pmax)]))
    verts = [getattr(mesh.vertices, d) for d in mesh.region.dims]
    for _ in range(8):  # near faces (both sides, 1e-3 of a cell away) and exactly on faces
        i = [rng.randrange(k) for k in n]
        base = [float(verts[a][i[a]]) + rng.uniform(0.3, 0.7) * cell[a] for a in range(3)]
        a = rng.randrange(3)
        j = rng.randint(0, n[a])
        for off, tag in ((1e-3, "near"), (-1e-3, "near"), (0.0, "face")):
            p = list(base)
            p[a] = float(verts[a][j]) + off * cell[a]
            if pmin[a] <= p[a] <= pmax[a]:
                pts.append((tag if pmin[a] < p[a] < pmax[a] else "face", p))
    pts.append(("face", list(pmin)))
    pts.append(("face", list(pmax)))
    for a in range(3):
        p = [0.5 * (x + y) for x, y in zip(pmin, pmax)]
        p[a] = pmax[a] + 0.37 * (pmax[a] - pmin[a])
        pts.append(("outside", p))
        p = list(p)
        p[a] = pmin[a] - 1.5 * (pmax[a] - pmin[a])
        pts.append(("outside", p))
    return pts


# ------------------------------------------------------------------------------ run: fields
def run_field(case, obs):
    fail = obs["oracle"].append
    rng = random.Random(case["sub"] ^ 0x5A5A)
    f = build_field(case)
    exact = case["regime"] == "exact"
    obs["field"] = field_json(f)
    snap = (f.array.copy(), f.valid.copy())
    st, g = _err(f.to_vtk)
    obs["to_vtk"] = st
    if st != "ok":
        fail(f"to_vtk raised {g} for a labelled 3-d field")
        return
    gj = grid_json(g)
    obs["grid"] = gj
    # vertices as coordinates (property level)
    for a, d in enumerate(f.mesh.region.dims):
        if [Fraction(x) for x in gj["coords"][a]] != [Fraction(float(x)) for x in getattr(f.mesh.vertices, d)]:
            fail(f"coordinates of axis {a} are not the mesh vertices")
    pts = probe_points(f, rng)
    obs["pts"] = [(t, Qs(p)) for t, p in pts]
    obs["vtk_ids"] = lookup_oracle(f, g, pts, fail, exact)
    # every cell id <-> its centre, through VTK (and pyvista) alone
    ncell = g.GetNumberOfCells()
    if ncell != len(f.mesh):
        fail(f"grid has {ncell} cells, mesh {len(f.mesh)}")
    else:
        fa = vns.vtk_to_numpy(g.GetCellData().GetArray("field")).reshape(ncell, -1)
        centres = None
        if pv is not None:
            centres = np.asarray(pv.wrap(g).cell_centers().points)
        for cid in range(ncell):
            b = g.GetCell(cid).GetBounds()
            c = [(b[0] + b[1]) / 2, (b[2] + b[3]) / 2, (b[4] + b[5]) / 2]
            if centres is not None and not np.allclose(centres[cid], c, rtol=1e-12, atol=0):
                fail(f"pyvista centre of cell {cid} {centres[cid]} != box centre {c}")
            if not np.array_equal(f(c), fa[cid]):
                fail(f"grid cell {cid} (centre {c}) holds {fa[cid].tolist()}, the field there is {f(c).tolist()}")
                break
    obs["files"] = []
    with tempfile.TemporaryDirectory() as d:
        for k, rep in enumerate(case["reps"]):
            path = os.path.join(d, f"f{k}.vtk")
            save = case["save"]
            st, _ = _err(lambda: f.to_file(path, representation=rep, save_subregions=save))
            rec = dict(rep=rep, write=st, save=save)
            obs["files"].append(rec)
            if st != "ok":
                fail(f"to_file(representation={rep!r}) raised {_}")
                continue
            rec["sidecar"] = sidecar_json(path)
            out, xml = read_with_vtk(path)
            rec["xml"] = xml
            vg = grid_json(out)
            rec["vgrid"] = vg
            if xml != (rep == "xml"):
                fail(f"representation {rep}: file is {'XML' if xml else 'legacy'}")
            if rep != "xml":
                with open(path, "rb") as fh:
                    fh.readline(), fh.readline()
                    kind = fh.readline().strip()
                if kind != (b"ASCII" if rep == "txt" else b"BINARY"):
                    fail(f"representation {rep}: file type line is {kind}")
            if rep == "txt":
                rec["sections"] = legacy_sections(path)
            changed = vg["coords"] != gj["coords"]
            rec["coords_changed"] = changed
            if rep != "txt" and (changed or [a["vals"] for a in vg["cell"]] != [a["vals"] for a in _by_name(gj, vg)]):
                fail(f"[{rep}] VTK reads back a different grid than to_vtk built")
            st, h = _err(lambda: df.Field.from_file(path))
            rec["read"] = st
            marker = " [txt-rounded-geometry+subregions]" if (rep == "txt" and changed and rec["sidecar"]) else ""
            if st != "ok":
                fail(f"[{rep}]{marker} from_file raised {h} on the file to_file wrote")
                continue
            rec["result"] = field_json(h)
            rec["valid_dtype"] = str(h.valid.dtype)
            same_field_oracle(f, h, rep, save, fail)
            # history: the same file name is written again with another field (same mesh, other values and validity)
            # and read again - what comes back must be the field written last
            if not marker and (case["sub"] + k) % 2 == 0:
                kw2 = {} if case["vdims"] is None else {"vdims": list(case["vdims"])}
                if case.get("unit") is not None:
                    kw2["unit"] = case["unit"]
                f2 = df.Field(f.mesh, nvdim=f.nvdim, value=(np.flip(f.array, axis=0) * 0.5 + 0.25).copy(),
                              valid=~np.flip(f.valid, axis=1), **kw2)
                st2, e2 = _err(lambda: f2.to_file(path, representation=rep, save_subregions=save))
                st3, h2 = _err(lambda: df.Field.from_file(path)) if st2 == "ok" else ("skip", None)
                obs["tags"].append("rewrite-same-path")
                if st2 != "ok" or st3 != "ok":
                    fail(f"[{rep}] writing a second field to the same file name and reading it back: write {st2} {e2 if st2 != 'ok' else ''} read {st3} {h2 if st3 != 'ok' else ''}")
                else:
                    same_field_oracle(f2, h2, rep, save, fail, marker=" [same file name written twice]")
            os.remove(path)
    if not (np.array_equal(snap[0], f.array) and np.array_equal(snap[1], f.valid)):
        fail("to_vtk / to_file modified the field")
    obs["nontrivial"] = len(f.mesh) >= 2 and len(np.unique(f.array)) > 1
    obs["tags"] += [f"regime:{case['regime']}", f"nvdim:{case['nvdim']}", "labels:" + ("default" if case["vdims"] is None else "custom"),
                    f"subs:{len(case['subs'])}", "valid:" + ("all" if f.valid.all() else "none" if not f.valid.any() else "mixed")]
    obs["tags"] += [f"rep:{r}" for r in case["reps"]]


def _by_name(gj, vg):
    """arrays of the original grid in the order the reader returns them"""
    d = {a["name"]: a for a in gj["cell"]}
    return [d.get(a["name"], dict(vals=None)) for a in vg["cell"]]


# ------------------------------------------------------------------------------ run: legacy files
def legacy_text(c):
    rng = random.Random(c["sub"])
    N, cc, o = c["N"], c["c"], c["o"]
    X = [[o[a] + j * cc[a] for j in range(N[a])] for a in range(3)]
    defect = c["defect"]
    if defect == "nonuniform" and max(N) >= 3:
        a = N.index(max(N))
        X[a][1] = X[a][0] + 0.25 * cc[a]
    npts = int(np.prod(N))
    dim = 3 if c["vec"] else 1
    if c["regime"] == "exact":
        rows = [[rng.randint(-64, 64) / 2 ** rng.randint(0, 3) for _ in range(dim)] for _ in range(npts)]
    else:
        rows = [[rng.uniform(-1, 1) * 10.0 ** rng.randint(-6, 6) for _ in range(dim)] for _ in range(npts)]
    L = ["# vtk DataFile Version 3.0", "Field", "ASCII", "DATASET RECTILINEAR_GRID", f"DIMENSIONS {N[0]} {N[1]} {N[2]}"]
    axes = "XYZ" if defect != "two-axes" else "XY"
    for a, nm in enumerate("XYZ"):
        if nm not in axes:
            continue
        L.append(f"{nm}_COORDINATES {N[a]} float")
        if defect == "coords-split" and N[a] >= 2 and a == 0:
            L.append(" ".join(repr(x) for x in X[a][:1]))
            L.append(" ".join(repr(x) for x in X[a][1:]))
        elif defect == "coords-broken" and a == c["sub"] % 3:
            L.append(["", "float", "# none"][c["sub"] % 2])  # header without numbers on the next line: refused
        else:
            L.append(" ".join(repr(x) for x in X[a]))
    L.append(f"POINT_DATA {npts}")
    if c["comp_blocks"]:
        for k, nm in enumerate("xyz"):
            L += [f"SCALARS {nm}-component double", "LOOKUP_TABLE default"] + [repr(r[k]) for r in rows]
    data = [" ".join(repr(x) for x in r) for r in rows]
    if defect == "short" and npts > 1:
        data = data[: npts - 1 - rng.randrange(min(3, npts - 1))]
    elif defect == "blank" and npts > 1:
        data.insert(rng.randrange(1, npts), "")
    elif defect == "alpha" and npts > 1:
        data.insert(rng.randrange(0, npts), "METADATA")
    elif defect == "one-number" and dim == 3:
        data[rng.randrange(npts)] = repr(rows[0][0])
    elif defect == "two-numbers" and dim == 3:
        data[rng.randrange(npts)] = "1.0 2.0"
    elif defect == "extra-number":  # one number more than the field has components: refused
        k = rng.randrange(npts)
        data[k] = data[k] + " 4.5"
    elif defect == "long":  # more lines than points: the loop stops after the last cell, nothing after it is looked at
        data = data + [" ".join(repr(float(x)) for x in range(dim)), "", "trailing text !", "1 2"]
    elif defect == "alpha-first":  # a keyword line right after the marker: counted as the first cell's line, the last row is dropped
        data.insert(0, "METADATA")
    if defect != "no-marker":
        L += (["VECTORS field double"] if c["vec"] else ["SCALARS field double", "LOOKUP_TABLE default"])
    else:
        L += ["FIELD FieldData 0"]
    L += data
    text = "\n".join(L) + ("\n" if c["trailing_nl"] else "")
    return text, X, rows


def tokenise(text):
    """the legacy reader's view of the lines (what the Python code tests on each of them)"""
    out = []
    for line in text.split("\n"):
        if any(m in line for m in ("X_COORDINATES", "Y_COORDINATES", "Z_COORDINATES")):
            try:
                out.append(dict(t="coords", count=int(line.split()[1])))
                continue
            except Exception:
                out.append(dict(t="junk"))
                continue
        if line.startswith("VECTORS"):
            out.append(dict(t="vectors"))
        elif line.startswith("SCALARS"):
            out.append(dict(t="scalars"))
        elif line == "":
            out.append(dict(t="junk"))
        elif line[0].isalpha():
            out.append(dict(t="alpha"))
        else:
            try:
                xs = [float(x) for x in line.split()]
                out.append(dict(t="nums", xs=Qs(xs)) if xs else dict(t="junk"))
            except ValueError:
                out.append(dict(t="junk"))
    return out


def run_legacy(case, obs):
    fail = obs["oracle"].append
    text, X, rows = legacy_text(case)
    obs["lines"] = tokenise(text)
    N = case["N"]
    with tempfile.TemporaryDirectory() as d:
        path = os.path.join(d, "old.vtk")
        with open(path, "w") as fh:
            fh.write(text)
        sc = None
        if case["sidecar"] != "none" and case["defect"] not in ("two-axes",):
            # the whole region, computed with the reader's own float operations (exactly the corners it will build)
            cc = [X[a][1] - X[a][0] if N[a] > 1 else 1e-9 for a in range(3)]
            p1 = np.subtract([X[a][0] for a in range(3)], np.multiply(cc, 0.5))
            lo = [float(x) for x in p1]
            hi = [float(x) for x in np.add(p1, np.multiply(N, cc))]
            if case["sidecar"] == "bad":
                hi[0] = float(p1[0] + (N[0] + 2) * cc[0])
            sc = {"s1": dict(pmin=lo, pmax=hi, dims=["x", "y", "z"], units=["m", "m", "m"], tolerance_factor=1e-12)}
            with open(path + ".subregions.json", "w") as fh:
                json.dump(sc, fh)
        obs["sidecar"] = sidecar_json(path)
        out, _ = read_with_vtk(path)
        obs["vgrid"] = grid_json(out)
        st, h = _err(lambda: df.Field.from_file(path))
    obs["read"] = st
    obs["tags"] += [f"regime:{case['regime']}", "legacy:" + ("vector" if case["vec"] else "scalar"), "defect:" + case["defect"],
                    "sidecar:" + case["sidecar"]]
    obs["nontrivial"] = True
    clean = case["defect"] == "none" and case["sidecar"] != "bad"
    if st != "ok":
        if clean:
            fail(f"legacy point-data file rejected: {h}")
        return
    obs["result"] = field_json(h)
    if not clean:
        return
    # one value per cell, cells centred on the points
    exact = case["regime"] == "exact" and min(N) > 1
    if [int(k) for k in h.mesh.n] != N:
        fail(f"legacy file with {N} points per axis read as n={list(h.mesh.n)}")
        return
    for a, dname in enumerate(h.mesh.region.dims):
        cen = getattr(h.mesh.cells, dname)
        for j in range(N[a]):
            ok = (Fraction(float(cen[j])) == Fraction(X[a][j])) if exact else abs(cen[j] - X[a][j]) <= 1e-9 * (abs(X[a][j]) + abs(h.mesh.cell[a]))
            if not ok:
                fail(f"legacy file: cell centre {j} of axis {a} is {cen[j]}, the point was {X[a][j]}")
                break
    want = np.array(rows, dtype=float).reshape(N[2], N[1], N[0], -1).transpose(2, 1, 0, 3)
    if h.array.shape != want.shape or not np.array_equal(h.array, want):
        fail("legacy file: values are not one per point in x-fastest order")
    if h.valid.dtype != np.bool_ or not h.valid.all():
        fail("legacy file: validity is not all-True Boolean")


# ------------------------------------------------------------------------------ run: fabricated cell-data files
def make_grid(coords, arrays, point_arrays=()):
    g = vtkRectilinearGrid()
    g.SetDimensions(*[len(c) for c in coords])
    for c, setter in zip(coords, (g.SetXCoordinates, g.SetYCoordinates, g.SetZCoordinates)):
        setter(vns.numpy_to_vtk(np.array(c, dtype=float), deep=True))
    for store, arrs in ((g.GetCellData(), arrays), (g.GetPointData(), point_arrays)):
        for name, a in arrs:
            va = vns.numpy_to_vtk(np.ascontiguousarray(a), deep=True)
            va.SetName(name)
            store.AddArray(va)
    return g


def write_grid(g, path, rep):
    w = vtkXMLRectilinearGridWriter() if rep == "xml" else vtkRectilinearGridWriter()
    if rep == "txt":
        w.SetFileTypeToASCII()
    elif rep == "bin":
        w.SetFileTypeToBinary()
    w.SetFileName(str(path))
    w.SetInputData(g)
    w.Write()


def run_tamper(case, obs):
    fail = obs["oracle"].append
    rng = random.Random(case["sub"])
    f = build_field(case)
    t = case["tamper"]
    n = [int(k) for k in f.mesh.n]
    ncell = int(np.prod(n))
    nv = f.nvdim
    coords = [[float(x) for x in getattr(f.mesh.vertices, d)] for d in f.mesh.region.dims]
    fld = f.array.transpose((2, 1, 0, 3)).reshape(-1, nv)
    val = f.valid.astype(int).transpose((2, 1, 0)).reshape(-1)
    labels = list(f.vdims) if f.vdims is not None else []
    comps = [(l, fld[:, k].copy()) for k, l in enumerate(labels)] if nv > 1 else []
    arrays = [("norm", np.linalg.norm(fld, axis=1))] + comps + [("field", fld), ("valid", val)]
    point_arrays = ()
    sc = None
    if t == "no-valid":
        arrays = [a for a in arrays if a[0] != "valid"]
    elif t == "no-field":
        arrays = [a for a in arrays if a[0] != "field"]
    elif t == "extra-array":
        arrays.insert(rng.randrange(len(arrays) + 1), ("extra", np.arange(ncell, dtype=float)))
    elif t == "norm-only":
        arrays = [("norm", np.ones(ncell))]
    elif t == "field-first":
        arrays = [("field", fld), ("valid", val)] + comps + [("norm", np.ones(ncell))]
    elif t == "labels-mismatch":
        arrays = [a for a in arrays if a[0] not in labels[:1]]
    elif t == "dup-like":
        arrays = [("Norm", np.ones(ncell)), ("Valid", np.zeros(ncell)), ("FIELD", np.ones(ncell))] + arrays
    elif t == "valid-values":
        arrays[-1] = ("valid", np.array([rng.choice([0, 1, 2, -1, 7]) for _ in range(ncell)]))
    elif t == "point-and-cell":
        npts = int(np.prod([k + 1 for k in n]))
        point_arrays = (("pfield", np.arange(npts, dtype=float)),)
    if t.startswith("sidecar"):
        v = coords
        reg = dict(dims=["x", "y", "z"], units=["m", "m", "m"], tolerance_factor=1e-12)
        if t == "sidecar-ok":
            sc = {"whole": dict(reg, pmin=[v[a][0] for a in range(3)], pmax=[v[a][-1] for a in range(3)])}
        elif t == "sidecar-outside":
            sc = {"o": dict(reg, pmin=[v[a][0] for a in range(3)], pmax=[v[a][-1] + (v[a][-1] - v[a][0]) for a in range(3)])}
        elif t == "sidecar-misaligned":
            c0 = v[0][1] - v[0][0]
            sc = {"m": dict(reg, pmin=[v[0][0] + 0.5 * c0, v[1][0], v[2][0]], pmax=[v[0][0] + 1.0 * c0, v[1][-1], v[2][-1]])}
        elif t == "sidecar-unordered":
            sc = {"u": dict(reg, pmin=[v[a][-1] for a in range(3)], pmax=[v[a][0] for a in range(3)])}
    g = make_grid(coords, arrays, point_arrays)
    with tempfile.TemporaryDirectory() as d:
        path = os.path.join(d, "t.vtk")
        write_grid(g, path, case["rep"])
        if sc is not None:
            with open(path + ".subregions.json", "w") as fh:
                json.dump(sc, fh)
        obs["sidecar"] = sidecar_json(path)
        out, _ = read_with_vtk(path)
        obs["vgrid"] = grid_json(out)
        st, h = _err(lambda: df.Field.from_file(path))
    obs["read"] = st
    obs["tags"] += ["tamper:" + t, "rep:" + case["rep"]]
    obs["nontrivial"] = True
    if st == "ok":
        obs["result"] = field_json(h)
        obs["valid_dtype"] = str(h.valid.dtype)
        if h.valid.dtype != np.bool_:
            fail(f"tampered file ({t}): validity read back with dtype {h.valid.dtype}")
        # the reader keys on array names, not positions: extra / reordered / missing side arrays move no value
        if t in ("no-valid", "extra-array", "field-first", "dup-like", "sidecar-ok", "point-and-cell", "valid-values") and case["rep"] != "txt":
            if not np.array_equal(h.array, f.array):
                fail(f"tampered file ({t}): values moved")
    # acceptance / rejection of tampered files is not pinned by the property: compared with the model only


# ------------------------------------------------------------------------------ run: rejected inputs
def run_reject(case, obs):
    fail = obs["oracle"].append
    f = build_field(case)
    obs["field"] = field_json(f)
    why = case["why"]
    obs["tags"] += ["reject:" + why]
    obs["nontrivial"] = True
    # what is rejected is not pinned by the property text: compared with the model (vtk_3d_only, vtk_needs_labels,
    # representation_accepted), including that a rejected call writes nothing
    st, g = _err(f.to_vtk)
    obs["to_vtk"] = st
    obs["files"] = []
    with tempfile.TemporaryDirectory() as d:
        for k, rep in enumerate(case["reps"]):
            path = os.path.join(d, f"r{k}.vtk")
            st, e = _err(lambda: f.to_file(path, representation=rep, save_subregions=True))
            obs["files"].append(dict(rep=rep, write=st, save=True, left=sorted(os.listdir(d))))


# ------------------------------------------------------------------------------ run: histories in one directory
def write_legacy_file(case, path):
    """the fabricated point-data file of a legacy case (and its side-car) under `path`"""
    text, X, rows = legacy_text(case)
    N = case["N"]
    with open(path, "w") as fh:
        fh.write(text)
    if case["sidecar"] != "none":
        cc = [X[a][1] - X[a][0] if N[a] > 1 else 1e-9 for a in range(3)]
        p1 = np.subtract([X[a][0] for a in range(3)], np.multiply(cc, 0.5))
        lo = [float(x) for x in p1]
        hi = [float(x) for x in np.add(p1, np.multiply(N, cc))]
        sc = {"s1": dict(pmin=lo, pmax=hi, dims=["x", "y", "z"], units=["m", "m", "m"], tolerance_factor=1e-12)}
        with open(path + ".subregions.json", "w") as fh:
            json.dump(sc, fh)
    return text


def run_session(case, obs):
    fail = obs["oracle"].append
    obs["steps"] = []
    obs["dir"] = None
    last = {}     # name -> (field, rep, save) of the last successful to_file
    stale = {}    # name -> True when the side-car on disk was not written by the last successful to_file
    with tempfile.TemporaryDirectory() as d:
        if case.get("start"):
            name = "a.vtk"
            path = os.path.join(d, name)
            text = write_legacy_file(case["start"], path)
            out, _ = read_with_vtk(path)
            obs["dir"] = dict(vtk=[dict(name=name, grid=model_grid(grid_json(out)), lines=tokenise(text))],
                              json=([dict(name=name, sidecar=sidecar_json(path))] if sidecar_json(path) is not None else []))
            obs["tags"].append("session:legacy-start")
        for k, op in enumerate(case["ops"]):
            path = os.path.join(d, op["name"])
            if op["op"] == "write":
                f = build_field(op["field"])
                had_sidecar = os.path.exists(path + ".subregions.json")
                st, e = _err(lambda: f.to_file(path, representation=op["rep"], save_subregions=op["save"]))
                obs["steps"].append(dict(op="write", name=op["name"], field=field_json(f), rep=op["rep"], save=op["save"], status=st))
                if st != "ok":
                    fail(f"session step {k}: to_file({op['name']!r}, {op['rep']!r}) raised {e}")
                    continue
                last[op["name"]] = (f, op["rep"], op["save"])
                wrote = bool(op["save"] and f.mesh.subregions)
                stale[op["name"]] = had_sidecar and not wrote
                if stale[op["name"]]:
                    obs["tags"].append("session:stale-sidecar")
            else:
                st, h = _err(lambda: df.Field.from_file(path))
                rec = dict(op="read", name=op["name"], status=st)
                obs["steps"].append(rec)
                if st == "ok":
                    rec["result"] = field_json(h)
                if op["name"] not in last:
                    continue  # nothing written by to_file under this name (absent, or the fabricated old file): model only
                f, rep, save = last[op["name"]]
                marker = " [stale-sidecar]" if stale[op["name"]] else ""
                if st != "ok":
                    fail(f"[{rep}]{marker} session step {k}: from_file({op['name']!r}) raised {h} after to_file wrote that name")
                    continue
                same_field_oracle(f, h, rep, save, fail, marker=f"{marker} [session step {k}: read returns the field written last]")
    obs["nontrivial"] = bool(last)
    obs["tags"] += [f"session:writes:{sum(1 for o in case['ops'] if o['op'] == 'write')}"]


def run_impl(case):
    obs = {"oracle": [], "tags": ["kind:" + case["kind"]]}
    {"field": run_field, "legacy": run_legacy, "tamper": run_tamper, "reject": run_reject,
     "session": run_session}[case["kind"]](case, obs)
    return obs


# ------------------------------------------------------------------------------ model side
def model_requests(case, obs):
    k = case["kind"]
    reqs = []
    if k in ("field", "reject"):
        reqs.append(dict(op="to_vtk", field=obs["field"]))
        if k == "field" and obs.get("to_vtk") == "ok":
            reqs.append(dict(op="lookup", field=obs["field"], pts=[p for _, p in obs["pts"]]))
        for rec in obs.get("files", []):
            reqs.append(dict(op="to_file", field=obs["field"], rep=rec["rep"], save=rec["save"]))
            if rec.get("vgrid") is not None:
                reqs.append(dict(op="read", grid=model_grid(rec["vgrid"]), sidecar=rec["sidecar"]))
                if case["regime"] == "exact":
                    reqs.append(dict(op="roundtrip", field=obs["field"], rep=rec["rep"], save=rec["save"]))
    elif k == "legacy":
        reqs.append(dict(op="read", grid=model_grid(obs["vgrid"]), sidecar=obs["sidecar"], lines=obs["lines"]))
    elif k == "tamper":
        reqs.append(dict(op="read", grid=model_grid(obs["vgrid"]), sidecar=obs["sidecar"]))
    elif k == "session":
        ops = [dict(op="write", name=st["name"], field=st["field"], rep=st["rep"], save=st["save"]) if st["op"] == "write"
               else dict(op="read", name=st["name"]) for st in obs["steps"]]
        req = dict(op="session", ops=ops)
        if obs.get("dir"):
            req["dir"] = obs["dir"]
        reqs.append(req)
    return reqs


def cmp_read(name, res_json, r, dis, exact=True):
    """from_file's result vs the model reader's"""
    if ("ok" in r) != (res_json is not None):
        dis.append(f"{name}: impl {'ok' if res_json is not None else 'err'} vs model {'ok' if 'ok' in r else r}")
        return
    if res_json is None:
        return
    m = r["ok"]
    if res_json["mesh"]["n"] != m["mesh"]["n"]:
        dis.append(f"{name}: n impl {res_json['mesh']['n']} vs model {m['mesh']['n']}")
        return
    scale = max([abs(F(x)) for x in m["mesh"]["region"]["pmin"] + m["mesh"]["region"]["pmax"]])
    for key in ("pmin", "pmax"):
        a, b = res_json["mesh"]["region"][key], m["mesh"]["region"][key]
        if len(a) != len(b) or any((F(x) != F(y)) if exact else abs(F(x) - F(y)) > Fraction(1, 2 ** 40) * scale for x, y in zip(a, b)):
            dis.append(f"{name}: region {key} impl {a} vs model {b}")
    for key in ("dims", "units"):
        if res_json["mesh"]["region"][key] != m["mesh"]["region"][key]:
            dis.append(f"{name}: region {key} impl {res_json['mesh']['region'][key]} vs model {m['mesh']['region'][key]}")
    if res_json["nvdim"] != m["nvdim"]:
        dis.append(f"{name}: nvdim impl {res_json['nvdim']} vs model {m['nvdim']}")
        return
    if res_json["vdims"] != m["vdims"]:
        dis.append(f"{name}: labels impl {res_json['vdims']} vs model {m['vdims']}")
    if res_json["valid"] != m["valid"]:
        dis.append(f"{name}: validity impl vs model differ")
    if [[F(x) for x in row] for row in res_json["data"]] != [[F(x) for x in row] for row in m["data"]]:
        k = next((i for i, (a, b) in enumerate(zip(res_json["data"], m["data"])) if [F(x) for x in a] != [F(x) for x in b]), -1)
        dis.append(f"{name}: values differ (first at flat cell {k}: impl {res_json['data'][k] if k >= 0 else '?'} vs model {m['data'][k] if k >= 0 else '?'})")
    si = [(s["name"], [F(x) for x in s["pmin"]], [F(x) for x in s["pmax"]], s["dims"], s["units"]) for s in res_json["mesh"]["subs"]]
    sm = [(s["name"], [F(x) for x in s["pmin"]], [F(x) for x in s["pmax"]], s["dims"], s["units"]) for s in m["mesh"]["subs"]]
    if si != sm:
        dis.append(f"{name}: subregions impl {[s[0] for s in si]} vs model {[s[0] for s in sm]} (or corners/dims/units differ)")


def cmp_grid(gj, r, dis, exact):
    if "ok" not in r:
        dis.append(f"to_vtk: impl ok vs model {r}")
        return
    m = r["ok"]
    if gj["dims"] != m["dims"]:
        dis.append(f"to_vtk dims: impl {gj['dims']} vs model {m['dims']}")
        return
    for a in range(3):
        x, y = gj["coords"][a], m["coords"][a]
        scale = max([abs(F(v)) for v in y] + [Fraction(0)])
        if len(x) != len(y) or any((F(p) != F(q)) if exact else abs(F(p) - F(q)) > Fraction(1, 2 ** 40) * scale for p, q in zip(x, y)):
            dis.append(f"to_vtk coordinates axis {a}: impl {x[:4]}.. vs model {y[:4]}..")
    if gj.get("active") != m.get("active"):
        dis.append(f"to_vtk active (scalars, vectors) attributes: impl {gj.get('active')} vs model {m.get('active')}")
    # (the VTK element type of the VALUE arrays follows the field's storage type, which the model does not carry: the
    #  integer flag is compared for the validity array only; values are compared exactly below)
    flag = lambda a: a["int"] if a["name"] == "valid" else None
    ni, nm = [(a["name"], a["ncomp"], flag(a)) for a in gj["cell"]], [(a["name"], a["ncomp"], flag(a)) for a in m["cell"]]
    if ni != nm:
        dis.append(f"to_vtk arrays: impl {ni} vs model {nm}")
        return
    for a, b in zip(gj["cell"], m["cell"]):
        if len(a["vals"]) != len(b["vals"]):
            dis.append(f"to_vtk array {a['name']}: length {len(a['vals'])} vs model {len(b['vals'])}")
            continue
        if a["name"] == "norm" and a["ncomp"] == 1 and not any(x["name"] == "norm" and x is not a for x in gj["cell"]):
            for k, (x, y) in enumerate(zip(a["vals"], b["vals"])):
                x2, y = F(x) ** 2, F(y)
                if F(x) < 0 or abs(x2 - y) > Fraction(1, 2 ** 48) * y:
                    dis.append(f"to_vtk norm[{k}]: impl {x} squared vs model squared norm {y}")
                    break
                rt = _exact_sqrt(y)
                if rt is not None and F(x) != rt:
                    dis.append(f"to_vtk norm[{k}]: impl {x} vs exact root {rt}")
                    break
        elif [F(x) for x in a["vals"]] != [F(y) for y in b["vals"]]:
            k = next(i for i, (x, y) in enumerate(zip(a["vals"], b["vals"])) if F(x) != F(y))
            dis.append(f"to_vtk array {a['name']}[{k}]: impl {a['vals'][k]} vs model {b['vals'][k]}")


def _isqrt_exact(n):
    import math
    r = math.isqrt(n)
    return r if r * r == n else None


def _exact_sqrt(q):
    q = Fraction(q)
    if q < 0:
        return None
    a, b = _isqrt_exact(q.numerator), _isqrt_exact(q.denominator)
    if a is None or b is None:
        return None
    r = Fraction(a, b)
    return r if Fraction(float(r)) == r else None


def compare(case, obs, rs):
    dis = []
    k = case["kind"]
    it = iter(rs)
    if k in ("field", "reject"):
        exact = case["regime"] == "exact"
        r = next(it)
        if ("ok" in r) != (obs["to_vtk"] == "ok"):
            dis.append(f"to_vtk: impl {obs['to_vtk']} vs model {'ok' if 'ok' in r else r}")
            return dis
        if k == "field" and obs["to_vtk"] == "ok":
            cmp_grid(obs["grid"], r, dis, exact)
            lk = next(it)
            if "ok" not in lk:
                dis.append(f"lookup: model {lk}")
            else:
                for (tag, p), cid, m in zip(obs["pts"], obs["vtk_ids"], lk["ok"]):
                    fr = [F(x) for x in m["frac"]]
                    clear = all(Fraction(1, 10 ** 6) < x < 1 - Fraction(1, 10 ** 6) for x in fr) if not exact else all(x != 0 for x in fr)
                    mid = m["id"]
                    if tag == "outside":
                        if mid is not None:
                            dis.append(f"lookup at outside point {p}: model locates cell {mid}")
                        continue
                    if "ok" in m["idx"] and mid != m["flat"] and (exact or clear):
                        dis.append(f"lookup at {p}: model locate {mid} != flat index of point2index {m['flat']}")
                    if clear and tag in ("centre", "interior", "near"):
                        if cid != mid:
                            dis.append(f"lookup at {tag} point {p}: VTK FindCell {cid} vs model locate {mid}")
                    elif cid >= 0 and mid is not None and exact:
                        # on a face VTK may report the lower neighbour on each axis where the point is on a vertex
                        n = case["n"]
                        def unr(i):
                            return (i % n[0], i // n[0] % n[1], i // (n[0] * n[1]))
                        a, b = unr(cid), unr(mid)
                        if any(not (x == y or (fr[ax] == 0 and x + 1 == y)) for ax, (x, y) in enumerate(zip(a, b))):
                            dis.append(f"lookup at face point {p}: VTK cell {a} is not the model's cell {b} or its lower neighbour")
        for rec in obs.get("files", []):
            r = next(it)
            if ("ok" in r) != (rec["write"] == "ok"):
                dis.append(f"to_file({rec['rep']!r}): impl {rec['write']} vs model {'ok' if 'ok' in r else r}")
                continue
            if rec["write"] != "ok":
                if rec.get("left"):
                    dis.append(f"to_file({rec['rep']!r}) was rejected but left {rec['left']} behind; the model writes nothing")
                continue
            want_rep = {"bin8": "bin"}.get(rec["rep"], rec["rep"])
            got_rep = "xml" if rec["xml"] else ("txt" if rec["rep"] == "txt" else "bin")
            if r["ok"]["rep"] != want_rep or got_rep != want_rep:
                dis.append(f"to_file({rec['rep']!r}): written as {got_rep}, model {r['ok']['rep']}")
            ms = r["ok"]["sidecar"]
            si = rec["sidecar"]
            if (ms is None) != (si is None):
                dis.append(f"to_file({rec['rep']!r}, save={rec['save']}): side-car impl {'written' if si else 'absent'} vs model {'written' if ms else 'absent'}")
            elif ms is not None:
                a = [(s["name"], [F(x) for x in s["pmin"]], [F(x) for x in s["pmax"]], s["dims"], s["units"], F(s["tol"])) for s in si]
                b = [(s["name"], [F(x) for x in s["pmin"]], [F(x) for x in s["pmax"]], s["dims"], s["units"], F(s["tol"])) for s in ms]
                if a != b:
                    dis.append(f"to_file({rec['rep']!r}): side-car content impl {a} vs model {b}")
            if rec.get("vgrid") is not None:
                # the arrays in the order VTK's reader returns them for this file (legacy forms: active attribute first)
                ai = [[a["name"], a["ncomp"], a["int"] if a["name"] == "valid" else None] for a in rec["vgrid"]["cell"]]
                if ai != [[x[0], x[1], x[2] if x[0] == "valid" else None] for x in r["ok"]["arrays"]]:
                    dis.append(f"to_file({rec['rep']!r}): arrays in the file as VTK reads it {ai} vs model {r['ok']['arrays']}")
                if "sections" in rec and rec["sections"] != r["ok"]["sections"]:
                    dis.append(f"to_file('txt'): CELL_DATA sections of the file {rec['sections']} vs model {r['ok']['sections']}")
                cmp_read(f"from_file[{rec['rep']}]", rec.get("result"), next(it), dis)
                if exact:
                    cmp_read(f"roundtrip[{rec['rep']}]", rec.get("result"), next(it), dis)
    elif k == "legacy":
        # a single-point axis gets the 1e-9 default cell: origin - 0.5e-9 rounds in binary64
        cmp_read("from_file[legacy]", obs.get("result"), next(it), dis, exact=(case["regime"] == "exact" and min(case["N"]) > 1 and case["defect"] != "coords-split"))
    elif k == "tamper":
        cmp_read(f"from_file[{case['tamper']}]", obs.get("result"), next(it), dis)
    elif k == "session":
        r = next(it)
        if "ok" not in r or len(r["ok"]) != len(obs["steps"]):
            dis.append(f"session: model {str(r)[:200]}")
            return dis
        for n, (st, m) in enumerate(zip(obs["steps"], r["ok"])):
            if st["op"] == "write":
                if ("ok" in m) != (st["status"] == "ok"):
                    dis.append(f"session step {n} to_file({st['name']!r}, {st['rep']!r}): impl {st['status']} vs model {'ok' if 'ok' in m else m}")
            else:
                cmp_read(f"session step {n} from_file({st['name']!r})", st.get("result"), m, dis)
    return dis


def nontrivial(case, obs):
    return bool(obs.get("nontrivial"))


def known(case, text):
    # pending findings (ids to be listed by the lead in known_findings.json)
    if case["kind"] == "field":
        vd = case.get("vdims")
        if "labels" in text and case["nvdim"] == 1 and vd:
            return "D62"
        if vd and "field" in vd and case["nvdim"] > 1 and ("labels" in text):
            return "D61"
        if "[txt-rounded-geometry+subregions]" in text:
            return "D63"
    if case["kind"] == "session" and "[stale-sidecar]" in text:
        # exactly: an earlier call left <name>.subregions.json, the last to_file of that name wrote none
        return "D64"
    return None


def search(case, rng):
    for _ in range(200):
        yield gen_field(rng, rng.choice(["exact", "exact", "tol"]))
    for _ in range(50):
        yield gen_legacy(rng, "exact")
