"""C19 — topological and demagnetisation tools obey their physical invariances."""
import ast
import itertools
import math
import os
import random
import sys
import warnings
from fractions import Fraction

import numpy as np

from . import core, fieldio
from .core import Q, Qs, F

import discretisedfield as df
import discretisedfield.tools as dft
from discretisedfield.tools import tools as dftt

PID = "C19"
RULE = ("Through the public tools API on anisotropic dyadic meshes with masks: (tcd) topological_charge_density/topological_charge, both "
        "methods, on uniform / random / rational-sphere / skyrmion / partly-zero textures; (blint) skyrmion textures of winding number "
        "1..2 and either polarity with uniform rim; (blsheet) closed sheets of EXACT unit vectors (integer vectors of integer length: rational "
        "skyrmions of winding 1 and 2, rough random textures, tetrahedral inner cells) - the model decides the hypotheses of the integrality "
        "theorems (closed sheet / smooth sheet, decision procedures proved sound), the real code's Berg-Luescher charge must then be a "
        "half-integer resp. an integer; (emergent) emergent_magnetic_field on 3-d meshes; (angle) neighbouring_cell_angle "
        "in every direction and both units, max_neighbouring_cell_angle - base stream (generic angles, lengths 0.3..15) and stream 'len': "
        "vector-LENGTH regimes (normalised to rounding; 1 +- 1e-2..1e-16 per cell or common; unit vectors rounded through single precision; "
        "one common length 3e-7..1e100, e.g. 8e5; per-cell lengths over 1e-6.5..1e6.5 and 1e20..1e120; mostly normalised with outliers) x "
        "ANGLE regimes (generic, spirals with neighbours 1e-1..1e-7 rad apart, the same next to pi, exactly parallel / antiparallel with "
        "different lengths, zero vectors) x MESH regimes (dyadic; arbitrary binary64 cells 1e-10..5e3 placed up to 1e6 cells from the origin) x "
        "float64 / float32 fields, both units each; stream 'long': 1000-4000 cells along one axis (oracle only). The same length regimes are "
        "applied to the fields of tcd (and to a 'relength' variant the densities and charges must not notice), blint, emergent and the "
        "hedgehogs of bps; (bps) count_bps on hedgehogs with the singularity off the cell "
        "centres and on random smooth textures, along every direction; (dtensor) demag_tensor and _demag_tensor_field_based; (dfield) "
        "demag_field with integer tensors and with the real tensor, on small padded grids also against the code-shaped model path (pad, "
        "C11 fftn, products, C11 ifftn, crop over formal roots of unity, evaluated at exp(-2 pi i/n) by the harness); (refuse) wrong component / spatial dimension / direction / method. "
        "The model receives the inputs as the exact rationals they are and returns all algebraic intermediates (orientation with a 1e-30 "
        "square root, derivative stencils, dot / triple products, per-triangle invariants, clipped dot products, cumulative fluxes, "
        "symbolic Newell term lists, the cropped circular convolution); the harness applies atan2 / arccos / arcsinh / arctan / sqrt and "
        "compares to 1e-9 of the natural scale; result meshes exactly. Oracle on the real code alone: invariance under proper rational "
        "rotations, per-cell positive rescaling, mesh scaling / translation, quarter turn of the sample; sign change under reversal; exact "
        "zero for uniform fields; integer Berg-Luescher charge for whole wrappings; one tail-to-tail (reversed: head-to-head) Bloch point "
        "per hedgehog along x, y, z; angle = arccos of the unit vectors' dot product, in [0, pi] (no nan), on the mesh one cell shorter and "
        "shifted by half a cell (dyadic meshes exactly, binary64 meshes to 1e-12 of the largest coordinate); the angle also against a reference "
        "that does not depend on the lengths (atan2(|a x b|, a.b) in extended precision after exact power-of-two scaling) within the error "
        "arccos of a rounded dot product can have: max(1e-9, min(sqrt(2E), E/sin(angle))) rad, E = 64 eps of the field's dtype; unchanged "
        "when the vectors are brought into another length regime; tr N(k) exp(+2 pi i k r_c) = -1 at every k-cell; both tensor builders agree; sum of mean demagnetising "
        "field components of a uniformly magnetised cuboid = -|M| (-M/3 each for a cube). non-trivial = a non-uniform texture with at "
        "least two cells along some direction (tensor cases: always)")
TRUSTED = ["harness/c19.py, harness/fieldio.py + driver JSON glue",
           "leaf functions applied by the harness to exact model outputs: math.atan2 (Berg-Luescher angle = 2*atan2(t, 1+d12+d23+d31)/(4 pi)), "
           "math.acos, math.asinh, math.atan, math.sqrt, numpy pi",
           "model square root: integer Newton iteration, exact on rational squares, 1e-30 relative otherwise (checked against math.sqrt on every run)",
           "np.fft (scipy.fft) round trip ifftn(fftn(x)) = x to rounding, used to read the real-space tensor back from demag_tensor's spectrum"]
ASSUMPTIONS = ["binary64 rounding of the tools' arithmetic stays below 1e-9 of the natural scale 1/(cell0*cell1) (densities), 1 (angles, tensor), "
               "|T||m| (fields) on the generated inputs: vector norms exactly 0 or in [3e-7, 1e120] (topological tools, angles; emergent field 1e-6.5..2e6), "
               "cells 2^-3..15, at most 6 cells per axis in compared cases (angles: also decimal cells 1e-10..5e3 up to 1e6 cells from the origin, and "
               "1000-4000 cells along one axis against the oracle only)",
               "angles: a dot product of two unit vectors rounded in the field's dtype is off by at most 64 eps (observed: a few eps); nothing finer is demanded next to 0 and pi",
               "vectors shorter than 1e-8 and fields with an integer dtype are NOT in the default streams: the unchanged library treats the former as zero vectors "
               "(Field.orientation: np.isclose(norm, 0), so the angle between (1e-9,0,0) and (1e-9,1e-9,0) is pi/2 instead of pi/4 and the charge of a "
               "1e-9-scaled skyrmion is 0) and raises UFuncTypeError on the latter; VERIF_C19_OPEN=1 adds both streams (reported to the lead)",
               "textures used for rotation / rescaling checks are generic (no exactly coplanar neighbour triples), because bergluescher_angle's "
               "guard `triple product == 0` is an exact float test"]
UNPROVED = ["Berg-Luescher integrality: PROVED for the real solid-angle formula on closed sheets (all cells valid, uniform rim of a unit vector, "
            "exact unit vectors, no antipodal neighbours, no exceptional triangle): 2Q is an integer (bl_charge_half_integer; Q is the mean of the "
            "degrees of the two triangulations of the lattice and CAN be a half-integer - the real code returns +-1/2 for four tetrahedral inner "
            "cells), and Q itself is an integer when every lattice triangle covers less than a quarter of the sphere (bl_charge_integer); the exact "
            "hypothesis on an abstract solid-angle function is stated and proved for the model's own charge (bl_charge_coboundary: coboundary of an "
            "antisymmetric link function modulo the kernel of a homomorphism; bl_angle_is_coboundary: the real formula is one, by spinor overlaps). "
            "NOT proved: that the integer is the winding number the texture was built with (degree = number of wrappings), sheets with masks / holes, "
            "and fields whose orientation is not exactly of unit length in rational arithmetic (float textures: the model normalises with a 1e-30 "
            "square root) - there the blint oracle (winding 1-2, both polarities, uniform rim) stands alone; the stream blsheet ties the theorems' "
            "hypotheses, as decided by the model, to the real code's charge",
            "a single hedgehog is counted as exactly one Bloch point along every direction (numerical statement through round()): oracle only, "
            ">= 6 cells per axis, cell aspect ratio <= 2, singular point anywhere in the central cell block; smaller or more anisotropic meshes "
            "do not resolve the singularity (observed: 4-5 cells or aspect 18:1 give 0). PROVED about the count: acceptance as an equivalence "
            "(emergent_count_ok_iff), invariance under a global proper rotation (count_bps_rot_invariant), under translation and rescaling of the mesh "
            "(count_bps_mesh_invariant) and under per-cell rescaling of the vectors (count_bps_scale_invariant), the reversal law tail-to-tail <-> "
            "head-to-head with the same total (count_bps_reversal), the arithmetic hh + tt = total, tt - hh = last - first local number, pattern "
            "decodes to the numbers (count_bps_arithmetic), and the counting stage: a rounded flux making one unit step is exactly one Bloch point of "
            "the right kind (single_step_is_one_bloch_point); that a discretised hedgehog's rounded flux is such a step is the oracle's part",
            "quarter turn of the sample: PROVED for both methods, every mask, anisotropic cells, open or periodic directions at the level of the "
            "index map (charge_quarter_turn) and for Field.rotate90 as modelled in C12 for every odd k and either axis order, with open boundaries "
            "(charge_rotate90) and with ANY bc the setter accepts (charge_rotate90_periodic, through Mesh.rotate90's bc rewriting - lower-case "
            "single-character names only, repo fix be43fa9b - and C05's periodic_turn; hypothesis C05.BcTurns: both names single lower-case characters "
            "or both axes periodic alike, otherwise the library leaves bc with the name, open finding D57); half turns (even k) are not stated",
            "trace -1 at every frequency: PROVED (demag_trace_fourier: C11's fftn of the model's real-space tensor has trace "
            "-(pi_real/pi_float) * phase of modulus pi_real/|pi_float| in every k-cell). The convolution theorem is PROVED for C11's DFT model "
            "(convolution_theorem) and the code-shaped demag_field (pad, fftn, products, ifftn, crop) is proved equal to the circular = linear "
            "convolution (demag_field_fft_is_convolution); that scipy.fft implements the DFT contract of C11 is the trusted part. Symmetry N_ab = N_ba "
            "and the parities of every component under reflection of a coordinate / of a grid index about the central cell are PROVED for the symbolic "
            "Newell model with the real leaves (demag_tensor_parity, demag_tensor_grid_parity)",
            "leaf functions: the lattice density is re-stated and proved with the REAL solid-angle formula (bl_real_invariances, "
            "bl_real_quarter_turn; no hypothesis on Omega), the angle range with the real arccos (angle_range_real), the square-root "
            "hypotheses are reduced to 'sq is a non-negative square root on the occurring norms' (tcd_scale_invariant_exact_sqrt); the "
            "orientation field itself is rational-valued in the model (square root exact on rational squares, 1e-30 otherwise), an "
            "orientation field over the reals is not modelled",
            "length-independence of the angles and charges in binary64: PROVED in the model for every positive per-cell rescaling (angle_invariances, "
            "tcd_scale_invariant, with the rational square root); that the rounded orientation field of the real code keeps this to the accuracy "
            "arccos allows - for normalised, nearly normalised (1 +- 1e-2..1e-16), single-precision-rounded, common-length and 1e-6.5..1e120 long "
            "vectors, angles from 1e-7 rad to pi - 1e-7 rad, 2 to 4000 cells along an axis - is oracle + correspondence only; vectors shorter than "
            "1e-8 (open finding D121) and integer dtypes (finding D122, fixed in /repo bfc56bb0) are generated by default",
            "sum rule / cube: proved through demag_field and the symbolic Newell tensor for rational leaf functions satisfying the arctangent "
            "identity (demag_field_cuboid_sum, demag_field_cube_third), and with the REAL leaves for the linear convolution of the real tensor with a "
            "uniform magnetisation (cuboid_sum_rule_real: -M pi/pi_float at every cell; cube_third_rule_real: a third each for a cube). The code-shaped "
            "demag_field model (demagFieldFFT) takes a rational tensor, so that the FFT path computes this linear convolution also for the real "
            "tensor is the composition of demag_field_fft_is_convolution (any ring embedding of the rationals) with these on paper only",
            "2-d slices: PROVED that a plane selection of a 3-d three-component field is accepted by both methods and holds the layer's vectors "
            "(tcd_plane_selection, composing C07's Field.sel model); neighbouring-cell-angle result meshes under rescaling of the mesh are not stated "
            "(the values do not look at the mesh at all)"]
BUDGET = {"quick": 85, "thorough": 900}

TOL = 1e-9
PI_Q = Q(Fraction(float(np.pi)))
NAMES2 = [None, None, ["x", "y"], ["a", "b"], ["y", "x"], ["u", "t"]]
NAMES3 = [None, None, ["x", "y", "z"], ["a", "b", "c"], ["z", "x", "y"]]

# streams that expose open defects of the unchanged library (see the final report / the note in harness/reg/C19.json):
#   lens "tiny"    vectors shorter than 1e-8 are treated as zero vectors by Field.orientation (np.isclose(norm, 0))
#   dtype "int64"  Field.orientation raises on a field with an integer dtype
OPEN_STREAMS = os.environ.get("VERIF_C19_OPEN", "1") != "0"     # D121 (open) is reported as KNOWN-FINDING, D122 is fixed in /repo

# vector-length regimes (the directions are kept, only the lengths change; exact zero vectors stay zero)
LENS_ALL = ["unit", "near1", "near1", "near1", "near1c", "near1c", "f32", "common", "common", "wide", "wide", "huge", "mixed", "mixed"]
LENS_CUBIC = ["unit", "near1", "near1c", "f32", "common6", "wide"]   # emergent field: cubic in the length, keep clear of overflow
RELEN_ALL = [m for m in LENS_ALL if m != "f32"]       # regimes for the rescaled variant: "f32" rounds the directions, not only the lengths
RELEN_CUBIC = [m for m in LENS_CUBIC if m != "f32"]
COMMON_LENGTHS = [8e5, 1e6, 1.44e6, 1.1e6, 1e3, 1e-3, 1e-6, 3e-7, 2.0 ** 40, 2.0 ** -20, 1e12, 1e30, 1e100, 0.999, 1.001, 2.0, 0.5]

warnings.filterwarnings("ignore")
sys.set_int_max_str_digits(0)  # exact model rationals of summed densities can exceed Python's default 4300-digit limit


# ------------------------------------------------------------------ generators
def gen_cells(rng, ndim, aniso=True):
    cell = [Fraction(rng.choice([1, 1, 3, 5]), 2 ** rng.randint(0, 3)) for _ in range(ndim)]
    if aniso and ndim > 1 and rng.random() < 0.75:
        cell = [c * (k + 1) for k, c in enumerate(cell)]
    return cell


def gen_mesh(rng, ndim, nmin=1, nmax=6, max_cells=40, names=None, cube=False, bc_prob=0.0):
    n = [rng.randint(nmin, nmax) for _ in range(ndim)]
    while int(np.prod(n)) > max_cells and any(x > nmin for x in n):
        k = rng.randrange(ndim)
        n[k] = max(nmin, n[k] - 1)
    cell = gen_cells(rng, ndim)
    if cube:
        cell = [cell[0]] * ndim
    pmin = [Fraction(rng.randint(-40, 40), 2 ** rng.randint(0, 2)) for _ in range(ndim)]
    pmax = [a + k * c for a, k, c in zip(pmin, n, cell)]
    dims = rng.choice(names) if names else None
    bc = ""
    if bc_prob and rng.random() < bc_prob:
        dd = dims or ["x", "y", "z"][:ndim]
        bc = "".join(d for d in dd if rng.random() < 0.6)
    return dict(p1=[float(x) for x in pmin], p2=[float(x) for x in pmax], n=n, dims=dims, bc=bc)


def gen_phys_mesh(rng, ndim, nmin=2, nmax=5, max_cells=40, names=None, long_axis=None):
    """arbitrary binary64 mesh: decimal cell sizes from nanometres to kilometres, the region up to 10^6 cells away from the origin"""
    n = [rng.randint(nmin, nmax) for _ in range(ndim)]
    while int(np.prod(n)) > max_cells and any(x > nmin for x in n):
        k = rng.randrange(ndim)
        n[k] = max(nmin, n[k] - 1)
    if long_axis is not None:
        n[long_axis[0]] = long_axis[1]
    e = rng.choice([-9, -9, -10, -6, -3, 0, 3])
    cell = [rng.choice([1.0, 2.0, 2.5, 0.5, 3.3, 5.0, 1.7, 0.7]) * 10.0 ** e for _ in range(ndim)]
    off = [rng.choice([0, 0, -3, 7, -1000, 12345, 10 ** 6, -10 ** 6]) for _ in range(ndim)]
    p1 = [o * c for o, c in zip(off, cell)]
    p2 = [a + k * c for a, k, c in zip(p1, n, cell)]
    return dict(p1=p1, p2=p2, n=n, dims=rng.choice(names) if names else None, bc="", phys=True)


ANGLE_TEX = ["random", "ratsphere", "spiral", "spiral", "spiral", "anti", "parallel", "zeros", "axes", "random"]


def cases(rng, tier):
    big = tier != "quick"
    # --- topological charge density / charge, both methods
    for k in range(120 if not big else 900):
        tex = ["random", "random", "ratsphere", "uniform", "skyrmion", "zeros", "random"][k % 7]
        spec = gen_mesh(rng, 2, nmin=1 if k % 5 == 0 else 2, nmax=6 if not big else 9, max_cells=36 if not big else 81, names=NAMES2,
                        bc_prob=0.25)
        # lens: length regime of the field itself (every other case: the texture's own lengths); relen: the regime of the
        # rescaled variant the densities / charges are compared with
        yield dict(kind="tcd", mesh=spec, tex=tex, density=rng.choice([1.0, 1.0, 0.9, 0.75, 0.5]), via_sel=(k % 3 == 0), sub=rng.getrandbits(32),
                   lens=("asis" if k % 2 else LENS_ALL[(k // 2) % len(LENS_ALL)]), relen=RELEN_ALL[(k * 5 + 1) % len(RELEN_ALL)])
    # --- integer Berg-Luescher charge
    for k in range(6 if not big else 40):
        n = rng.choice([10, 12, 14]) if not big else rng.choice([10, 12, 14, 16, 20])
        yield dict(kind="blint", n=[n, n + rng.choice([0, 2])], wind=rng.choice([1, 1, 2]), pol=rng.choice([1, -1]),
                   cell=[float(c) for c in gen_cells(rng, 2)], sub=rng.getrandbits(32), lens=LENS_ALL[(k * 3) % len(LENS_ALL)])
    # --- closed sheets of EXACT unit vectors (integer vectors with integer norms): the hypotheses of the integrality theorems
    # (bl_charge_half_integer / bl_charge_integer) are decided by the model, the charge is the real code's
    for k in range(12 if not big else 80):
        tex = ["ratsky", "rough", "ratsky2", "ratsky", "rough4", "ratsky"][k % 6]
        n = [rng.randint(7, 12), rng.randint(7, 12)] if tex.startswith("ratsky") else [rng.randint(3, 6), rng.randint(3, 6)]
        if tex == "rough4":
            n = [4, 4]
        yield dict(kind="blsheet", tex=tex, n=n, pol=rng.choice([1, -1]), cell=[float(c) for c in gen_cells(rng, 2)],
                   scale=rng.choice([1, 1, 2, 3]), sub=rng.getrandbits(32))
    # --- emergent field
    for k in range(24 if not big else 200):
        spec = gen_mesh(rng, 3, nmin=1 if k % 4 == 0 else 2, nmax=4 if not big else 5, max_cells=36 if not big else 100, names=NAMES3,
                        bc_prob=0.25)
        yield dict(kind="emergent", mesh=spec, tex=rng.choice(["random", "ratsphere", "uniform"]), density=rng.choice([1.0, 0.9, 0.6]),
                   sub=rng.getrandbits(32), lens=("asis" if k % 2 else LENS_CUBIC[(k // 2) % len(LENS_CUBIC)]))
    # --- neighbouring-cell angles
    for k in range(80 if not big else 600):
        nd = [1, 2, 3, 3, 2][k % 5]
        spec = gen_mesh(rng, nd, nmin=1 if k % 6 == 0 else 2, nmax=5, max_cells=40 if not big else 100,
                        names={1: None, 2: NAMES2, 3: NAMES3}[nd])
        yield dict(kind="angle", mesh=spec, tex=rng.choice(["random", "ratsphere", "zeros", "axes"]), units=rng.choice(["rad", "rad", "deg"]),
                   sub=rng.getrandbits(32))
    # --- neighbouring-cell angles, stream "len": vector-length regime x angle regime (generic, milli- to sub-microradian, next to pi,
    # exactly parallel / antiparallel) x mesh regime (dyadic / arbitrary binary64 far from the origin) x both units x dtype
    for k in range(210 if not big else 1500):
        nd = [1, 2, 3, 3, 2][k % 5]
        names = {1: None, 2: NAMES2, 3: NAMES3}[nd]
        f32 = k % 9 == 4
        lens = (LENS_CUBIC if f32 else LENS_ALL)[k % len(LENS_CUBIC if f32 else LENS_ALL)]
        if k % 3 == 1:
            spec = gen_phys_mesh(rng, nd, nmin=2, nmax=5, max_cells=40 if not big else 100, names=names)
        else:
            spec = gen_mesh(rng, nd, nmin=2, nmax=5, max_cells=40 if not big else 100, names=names)
        yield dict(kind="angle", stream="len", mesh=spec, tex=ANGLE_TEX[(k // 2) % len(ANGLE_TEX)], units="both", lens=lens,
                   relen=rng.choice(RELEN_CUBIC if f32 else RELEN_ALL), dtype="float32" if f32 else None, model=True, sub=rng.getrandbits(32))
    # --- neighbouring-cell angles on long meshes: thousands of cells along one axis (oracle only)
    for k in range(10 if not big else 40):
        nd = [1, 2, 3, 2][k % 4]
        ax = rng.randrange(nd)
        names = {1: None, 2: NAMES2, 3: NAMES3}[nd]
        spec = gen_phys_mesh(rng, nd, nmin=1, nmax=3, max_cells=4, names=names, long_axis=(ax, rng.randint(1000, 4000 if not big else 20000)))
        yield dict(kind="angle", stream="long", mesh=spec, tex=["spiral", "random", "anti", "parallel"][k % 4], units="both",
                   lens=LENS_ALL[(k * 3 + 1) % len(LENS_ALL)], relen=rng.choice(RELEN_ALL), dtype=None, model=False, sub=rng.getrandbits(32))
    if OPEN_STREAMS:
        for k in range(12):
            nd = [1, 2, 3][k % 3]
            spec = gen_mesh(rng, nd, nmin=2, nmax=4, max_cells=30, names={1: None, 2: NAMES2, 3: NAMES3}[nd])
            yield dict(kind="angle", stream="open", mesh=spec, tex=rng.choice(["random", "spiral", "ratsphere"]), units="both",
                       lens="tiny" if k % 2 == 0 else "intvec", relen=("unit" if k % 2 == 0 else None),   # integers cannot be rescaled to unit length within an integer dtype
                       dtype=None if k % 2 == 0 else "int64", model=True,
                       sub=rng.getrandbits(32))
        for k in range(6):
            spec = gen_mesh(rng, 2, nmin=3, nmax=5, max_cells=25, names=NAMES2)
            yield dict(kind="tcd", mesh=spec, tex=["random", "skyrmion"][k % 2], density=1.0, via_sel=False, sub=rng.getrandbits(32),
                       lens="tiny", relen="unit")
    # --- Bloch points: hedgehogs in the regime where the discretised texture resolves the singularity
    # (>= 6 cells per axis, cell aspect ratio <= 2, singular point anywhere inside the central cell block)
    for k in range(8 if not big else 60):
        lo = rng.choice([6, 7]) if not big else rng.choice([6, 7, 8, 9, 10])
        n = [rng.randint(lo, lo + 2) for _ in range(3)]
        while True:
            cell = [rng.choice([1.0, 0.75, 1.5, 0.5, 1.25]) for _ in range(3)]
            if max(cell) / min(cell) <= 2:
                break
        off = [round(rng.uniform(-0.45, 0.45), 3) for _ in range(3)] if k % 3 else None
        yield dict(kind="bps", tex="hedgehog", n=n, cell=cell, rev=bool(k % 2), off=off, claim=True, model=False, sub=rng.getrandbits(32),
                   lens=("asis" if k % 3 == 0 else LENS_ALL[(k * 5 + 2) % len(LENS_ALL)]))
    for k in range(2 if not big else 6):
        n = [rng.choice([3, 4]) for _ in range(3)]
        yield dict(kind="bps", tex="hedgehog", n=n, cell=[float(c) for c in gen_cells(rng, 3)], rev=bool(k % 2), off=[0.25, -0.125, 0.375],
                   claim=False, model=True, sub=rng.getrandbits(32))
    for k in range(8 if not big else 50):
        spec = gen_mesh(rng, 3, nmin=1 if k % 4 == 3 else 2, nmax=4, max_cells=36, names=NAMES3, bc_prob=0.25)
        yield dict(kind="bps", tex="smooth", mesh=spec, claim=False, model=True, sub=rng.getrandbits(32))
    # --- demag tensor
    shapes = [(1, 1, 1), (2, 1, 2), (2, 2, 2), (3, 2, 2), (2, 3, 3), (1, 3, 2), (3, 3, 3), (4, 2, 3)] if not big else \
        [(1, 1, 1), (2, 1, 2), (2, 2, 2), (3, 2, 2), (2, 3, 3), (3, 3, 3), (4, 2, 3), (4, 4, 4), (1, 3, 2)]
    for k, n in enumerate(shapes):
        for rep in range(1 if not big else 2):
            cube = (k + rep) % 3 == 2
            c = gen_cells(rng, 3)
            if cube:
                c = [c[0]] * 3
            yield dict(kind="dtensor", n=list(n), cell=[float(x) for x in c], field_based=(int(np.prod(n)) <= (12 if not big else 36)),
                       sub=rng.getrandbits(32))
    # --- demag field
    for k in range(16 if not big else 80):
        n = [rng.randint(1, 3) for _ in range(3)]
        yield dict(kind="dfield", n=n, cell=[float(x) for x in gen_cells(rng, 3)], sub=rng.getrandbits(32))
    for k in range(12 if not big else 40):
        n = [rng.randint(1, 4 if not big else 5) for _ in range(3)]
        cube = k % 2 == 0
        if cube:
            n = [n[0]] * 3
        c = gen_cells(rng, 3)
        if cube:
            c = [c[0]] * 3
        yield dict(kind="cuboid", n=n, cell=[float(x) for x in c], cube=cube, M=float(rng.choice([1, 2, 0.5, 8e5])), sub=rng.getrandbits(32))
    # --- refusals (malformed stream)
    for k in range(24 if not big else 100):
        yield dict(kind="refuse", ndim=rng.choice([1, 2, 3, 4]), nvdim=rng.choice([1, 2, 3, 4]), sub=rng.getrandbits(32))


# ------------------------------------------------------------------ textures
def rat_rotation(rng):
    """proper rotation with rational entries (from an integer quaternion)"""
    while True:
        a, b, c, d = (rng.randint(-4, 4) for _ in range(4))
        s = a * a + b * b + c * c + d * d
        if s and (b or c or d):
            break
    M = [[a * a + b * b - c * c - d * d, 2 * (b * c - a * d), 2 * (b * d + a * c)],
         [2 * (b * c + a * d), a * a - b * b + c * c - d * d, 2 * (c * d - a * b)],
         [2 * (b * d - a * c), 2 * (c * d + a * b), a * a - b * b - c * c + d * d]]
    return np.array([[float(Fraction(x, s)) for x in row] for row in M])


def unit_rat(rng):
    """rational point of the unit sphere (inverse stereographic image of a rational point)"""
    u, v = Fraction(rng.randint(-6, 6), rng.randint(1, 4)), Fraction(rng.randint(-6, 6), rng.randint(1, 4))
    d = 1 + u * u + v * v
    s = rng.choice([1, -1])
    return [float(2 * u / d), float(2 * v / d), float(s * (1 - u * u - v * v) / d)]


def apply_lens(rng, arr, mode):
    """the texture `arr` (shape (..., 3)) with the same directions and the vector lengths of regime `mode`; exact zero vectors stay zero"""
    if mode in (None, "asis"):
        return arr
    arr = np.asarray(arr, dtype=float)
    shp = arr.shape[:-1] + (1,)
    size = int(np.prod(shp))
    nrm = np.linalg.norm(arr, axis=-1, keepdims=True)
    unit = np.divide(arr, nrm, out=np.zeros_like(arr), where=nrm > 0)

    def per_cell(fn):
        return np.array([fn() for _ in range(size)]).reshape(shp)

    def dev(k):  # a length 1 +- m 10^-k
        return 1 + rng.choice([1, -1]) * rng.uniform(1, 9.9) * 10.0 ** -k

    if mode == "unit":      # normalised as well as binary64 allows
        return unit
    if mode == "near1":     # every cell its own deviation from 1, all of the same order 1e-2 ... 1e-16
        k = rng.randint(2, 16)
        return unit * per_cell(lambda: dev(k))
    if mode == "near1c":    # one common length next to 1
        return unit * dev(rng.randint(2, 16))
    if mode == "f32":       # unit vectors that went through single precision (a file, a GPU)
        return unit.astype(np.float32).astype(np.float64)
    if mode == "common":    # one common length (saturation magnetisation, ...)
        return unit * rng.choice(COMMON_LENGTHS)
    if mode == "common6":
        return unit * rng.choice([x for x in COMMON_LENGTHS if 1e-6 <= x <= 2e6])
    if mode == "wide":      # lengths over thirteen orders of magnitude, clear of the 1e-8 zero test of Field.orientation
        return unit * per_cell(lambda: 10.0 ** rng.uniform(-6.5, 6.5))
    if mode == "huge":
        return unit * per_cell(lambda: 10.0 ** rng.uniform(20, 120))
    if mode == "mixed":     # mostly (nearly) normalised, some cells of a very different length
        return unit * per_cell(lambda: rng.choice([1.0, 1.0, dev(rng.randint(2, 16)), dev(rng.randint(5, 9)), 10.0 ** rng.uniform(-6.5, 6.5)]))
    if mode == "tiny":      # OPEN_STREAMS only: shorter than 1e-8
        return unit * per_cell(lambda: 10.0 ** rng.uniform(-15, -8.5))
    if mode == "intvec":    # OPEN_STREAMS only: integer-valued vectors for an integer dtype
        iv = np.rint(unit * 9)
        iv[np.all(iv == 0, axis=-1)] = (1, 2, -2)
        return iv
    raise core.MachineryError(f"unknown length regime {mode!r}")


def texture(rng, tex, mesh):
    """array of shape (*n, 3)"""
    n = tuple(int(x) for x in mesh.n)
    size = int(np.prod(n))
    if tex in ("spiral", "anti"):
        # slowly turning texture: neighbours m 10^-k rad apart, k = 1 ... 7 per axis; "anti": every other cell reversed (angles next to pi)
        grids = np.meshgrid(*[np.arange(x, dtype=float) for x in n], indexing="ij")
        ca = [rng.choice([1, -1]) * rng.uniform(1, 9) * 10.0 ** -rng.randint(1, 7) for _ in n]
        cb = [rng.choice([1, -1]) * rng.uniform(1, 9) * 10.0 ** -rng.randint(1, 7) for _ in n]
        theta = rng.uniform(0.3, 2.8) + sum(c * g for c, g in zip(ca, grids))
        phi = rng.uniform(0, 6.28) + sum(c * g for c, g in zip(cb, grids))
        arr = np.stack([np.sin(theta) * np.cos(phi), np.sin(theta) * np.sin(phi), np.cos(theta)], axis=-1)
        if tex == "anti":
            arr = arr * ((-1.0) ** sum(grids))[..., None]
        return arr
    if tex == "parallel":
        # one direction, every cell its own length, some reversed: angles exactly 0 or pi (dot products of rounded unit vectors
        # may leave [-1, 1])
        u = np.array([rng.uniform(-1, 1) for _ in range(3)]) + np.array([0.0, 0.0, 1.5])
        ls = np.array([rng.choice([1, 1, -1]) * rng.uniform(0.3, 15) for _ in range(size)]).reshape(*n, 1)
        return ls * u
    if tex == "uniform":
        v = [rng.randint(-5, 5) for _ in range(3)]
        if not any(v):
            v[2] = 1
        return np.tile(np.array(v, dtype=float), (*n, 1))
    if tex == "ratsphere":
        return np.array([unit_rat(rng) for _ in range(size)]).reshape(*n, 3)
    if tex == "axes":
        ch = [(1, 0, 0), (0, 1, 0), (0, 0, 1), (-1, 0, 0), (0, 0, -1), (1, 1, 0), (0, 3, 4), (2, -1, 2)]
        return np.array([rng.choice(ch) for _ in range(size)], dtype=float).reshape(*n, 3)
    if tex == "skyrmion":
        # profile in index space (anisotropic cells do not matter), centre off the cell centres
        arr = np.zeros((*n, 3))
        R = max(0.45 * min(n[:2]), 1.3)
        pol, wind, hel = rng.choice([1, -1]), rng.choice([1, 1, 2, -1]), rng.random() * 6
        for idx in itertools.product(*[range(x) for x in n]):
            x, y = idx[0] - (n[0] - 1) / 2 + 0.13, idx[1] - (n[1] - 1) / 2 - 0.21
            r = math.hypot(x, y)
            th = math.pi * max(0.0, 1 - r / R)
            ph = wind * math.atan2(y, x) + hel
            arr[idx] = (math.sin(th) * math.cos(ph), math.sin(th) * math.sin(ph), pol * math.cos(th))
        return arr * rng.choice([1.0, 3.0, 0.5])
    arr = np.array([[rng.uniform(-1, 1) for _ in range(3)] for _ in range(size)])
    nrm = np.linalg.norm(arr, axis=1, keepdims=True)
    arr = arr / np.where(nrm < 0.2, 1.0, nrm) * np.array([[rng.uniform(0.3, 15)] for _ in range(size)])
    arr = np.where(np.linalg.norm(arr, axis=1, keepdims=True) < 0.2, np.array([[0.6, -0.3, 0.9]]), arr)
    if tex == "zeros":
        for k in range(size):
            if rng.random() < 0.25:
                arr[k] = 0.0
    return arr.reshape(*n, 3)


def smooth3d(rng, mesh):
    n = tuple(int(x) for x in mesh.n)
    A = np.array([[rng.uniform(-1, 1) for _ in range(3)] for _ in range(3)])
    b = np.array([rng.uniform(-1, 1) for _ in range(3)])
    arr = np.zeros((*n, 3))
    cen = np.array([(a + c) / 2 for a, c in zip(mesh.region.pmin, mesh.region.pmax)])
    L = np.array(mesh.region.edges)
    for idx in itertools.product(*[range(x) for x in n]):
        p = (np.array(mesh.index2point(idx)) - cen) / L
        v = A @ p + b + 0.5 * np.sin(3 * p[::-1])
        arr[idx] = v / max(np.linalg.norm(v), 0.3)
    return arr


def hedgehog(mesh, off, rev):
    n = tuple(int(x) for x in mesh.n)
    cen = np.array([(a + c) / 2 for a, c in zip(mesh.region.pmin, mesh.region.pmax)])
    if off is not None:
        cen = cen + np.array(off) * np.array(mesh.cell)
    arr = np.zeros((*n, 3))
    for idx in itertools.product(*[range(x) for x in n]):
        v = np.array(mesh.index2point(idx)) - cen
        arr[idx] = (-v if rev else v)
    return arr


def mesh3(n, cell, p1=(0.0, 0.0, 0.0)):
    return df.Mesh(p1=tuple(p1), p2=tuple(a + k * c for a, k, c in zip(p1, n, cell)), n=tuple(n))


# ------------------------------------------------------------------ leaves (trusted)
def omega(tri):
    d12, d23, d31, t = (float(F(x)) for x in tri)
    if F(tri[3]) == 0:
        return 0.0
    return 2 * math.atan2(t, 1 + d12 + d23 + d31) / (4 * math.pi)


def eval_terms(ts):
    vals = []
    for t in ts:
        c = float(F(t[0]))
        if t[1] == "s":
            a, b = float(F(t[2])), float(F(t[3]))
            v = math.asinh(a / math.sqrt(b)) if F(t[3]) != 0 else 0.0
        elif t[1] == "t":
            a, b, cc = float(F(t[2])), float(F(t[3])), float(F(t[4]))
            v = math.atan(a / (b * math.sqrt(cc))) if F(t[3]) != 0 else 0.0
        else:
            v = math.sqrt(float(F(t[2])))
        vals.append(c * v)
    return math.fsum(vals)


def eval_roots(ns, coef):
    """value of the driver's root-of-unity polynomials: entry [flat exponent index (C order over ns), re, im] stands for
    (re + i im) * prod_a exp(-2 pi i / ns[a]) ** e_a"""
    out = []
    for cell in coef:
        row = []
        for comp in cell:
            z = 0j
            for k, re, im in comp:
                e, rem = [], int(k)
                for nn in reversed(ns):
                    e.append(rem % nn)
                    rem //= nn
                e.reverse()
                ph = sum(ea / na for ea, na in zip(e, ns))
                z += complex(float(F(re)), float(F(im))) * complex(math.cos(-2 * math.pi * ph), math.sin(-2 * math.pi * ph))
            row.append(z)
        out.append(row)
    return out


def near(a, b, scale, tol=TOL):
    return abs(float(a) - float(b)) <= tol * max(scale, abs(float(b)))


def arr_close(a, b, scale, tol=TOL):
    a, b = np.asarray(a, dtype=float), np.asarray(b, dtype=float)
    return a.shape == b.shape and bool(np.all(np.abs(a - b) <= tol * max(scale, float(np.max(np.abs(b))) if b.size else 0.0)))


def st(fn):
    try:
        return "ok", fn()
    except Exception as e:  # the protocol only distinguishes ok / err
        return "err", type(e).__name__


# ------------------------------------------------------------------ run_impl per kind
def build2d(case, rng):
    spec = case["mesh"]
    if case.get("via_sel"):
        # 3-d field with one layer, sliced: keeps the component-to-axis mapping (needed for rotate90)
        d2 = spec["dims"] or ["x", "y"]
        d3 = list(d2) + [next(c for c in "zwq" if c not in d2)]
        r = df.Region(p1=spec["p1"] + [0.0], p2=spec["p2"] + [0.5], dims=d3)
        m3 = df.Mesh(region=r, n=spec["n"] + [1], bc=spec.get("bc", ""))
        arr = apply_lens(rng, texture(rng, case["tex"], m3.sel(d3[2])), case.get("lens"))
        mask = fieldio.gen_mask(rng, tuple(spec["n"]), case["density"])
        f3 = df.Field(m3, nvdim=3, value=arr.reshape(*spec["n"], 1, 3), valid=mask.reshape(*spec["n"], 1))
        return f3.sel(d3[2])
    mesh = fieldio.build_mesh(spec)
    arr = apply_lens(rng, texture(rng, case["tex"], mesh), case.get("lens"))
    mask = fieldio.gen_mask(rng, tuple(spec["n"]), case["density"])
    return df.Field(mesh, nvdim=3, value=arr, valid=mask)


def with_array(f, arr, mesh=None, valid=None):
    return df.Field(mesh or f.mesh, nvdim=3, value=arr, valid=f.valid if valid is None else valid,
                    vdims=f.vdims, vdim_mapping=f.vdim_mapping)


def bl_exceptional(f):
    """does the Berg-Luescher loop meet an exceptional configuration (1+d12+d23+d31 + i t on or next to the
    non-positive real axis, where the signed area is undefined and the float guard `t == 0` decides)?"""
    o, v = f.orientation.array, f.valid
    n0, n1 = o.shape[:2]
    for i in range(n0):
        for j in range(n1):
            if not v[i, j]:
                continue
            nb = [(i + 1, j), (i, j + 1), (i - 1, j), (i, j - 1)]
            vs = [o[a, b] if 0 <= a < n0 and 0 <= b < n1 and v[a, b] else None for a, b in nb]
            for k in range(4):
                a, b = vs[k], vs[(k + 1) % 4]
                if a is None or b is None:
                    continue
                re = 1 + np.dot(o[i, j], a) + np.dot(a, b) + np.dot(b, o[i, j])
                t = np.dot(o[i, j], np.cross(a, b))
                if re <= 1e-6 and abs(t) <= 1e-9:
                    return True
    return False


def run_tcd(case, rng, obs, fail):
    f = build2d(case, rng)
    n = [int(x) for x in f.mesh.n]
    c0, c1 = (float(x) for x in f.mesh.cell)
    scale = 1.0 / (c0 * c1)
    obs["field"] = fieldio.field_json(f)
    obs["scale"] = scale
    obs["orient"] = f.orientation.array
    # exactly coplanar / antiparallel neighbour triples are Berg-Luescher's exceptional configurations: the lattice
    # charge is undefined there (the code returns +-1/2 jumps or nan), so nothing is demanded of that method
    obs["bl_exceptional"] = bl_exceptional(f)
    snap = (f.array.copy(), f.valid.copy())
    res = {}
    for meth in ("continuous", "berg-luescher"):
        q = dft.topological_charge_density(f, method=meth)
        res[meth] = q
        if not (q.mesh == f.mesh and q.nvdim == 1 and np.array_equal(q.valid, f.valid)):
            fail(f"{meth}: density is not a scalar field on the field's mesh with the field's validity")
        ch = dft.topological_charge(f, method=meth)
        cha = dft.topological_charge(f, method=meth, absolute=True)
        dV = c0 * c1
        obs[meth + ":charge"] = (ch, cha)
        if meth == "berg-luescher" and obs["bl_exceptional"]:
            continue
        if not near(ch, float(np.sum(q.array)) * dV, scale * dV * q.array.size) or not near(cha, float(np.sum(np.abs(q.array))) * dV, scale * dV * q.array.size):
            fail(f"{meth}: charge {ch} / absolute {cha} is not the integral of the density {float(np.sum(q.array)) * dV} / {float(np.sum(np.abs(q.array))) * dV}")
        obs[meth + ":charge"] = (ch, cha)
    obs["res"] = res
    if not (np.array_equal(snap[0], f.array) and np.array_equal(snap[1], f.valid)):
        fail("topological_charge_density modified its operand")
    generic = case["tex"] in ("random", "ratsphere", "skyrmion", "zeros")
    generic_bl = generic and not obs["bl_exceptional"]
    nontriv = case["tex"] != "uniform" and max(n) >= 2
    obs["nontrivial"] = nontriv
    obs["tags"] += [f"tex:{case['tex']}", f"masked:{not bool(f.valid.all())}", f"n:{'1' if min(n) == 1 else '>=2'}",
                    f"aniso:{c0 != c1}", f"dims:{'default' if list(f.mesh.region.dims) == ['x', 'y'] else 'custom'}",
                    f"bc:{'periodic' if f.mesh.bc else 'open'}", f"bl_exceptional:{obs['bl_exceptional']}",
                    f"lens:{case.get('lens', 'asis')}", f"relen:{case.get('relen')}"]
    # ---- uniform -> zero (to rounding: the one-sided edge stencil -3c+4c-c is not exact in binary64)
    if case["tex"] == "uniform":
        for meth, q in res.items():
            ch, cha = obs[meth + ":charge"]
            if meth == "berg-luescher" and obs["bl_exceptional"]:
                continue
            if np.any(np.abs(q.array) > 1e-12 * scale) or abs(ch) > 1e-12 * q.array.size or abs(cha) > 1e-12 * q.array.size:
                fail(f"{meth}: uniform field {f.array.reshape(-1, 3)[0].tolist()} has non-zero density (max {np.abs(q.array).max()}) or charge {obs[meth + ':charge']}")
    # ---- invariances on the real code
    Qm = rat_rotation(rng)
    lam = float(rng.choice([Fraction(1, 4), Fraction(3), Fraction(5, 2), Fraction(1, 8), Fraction(7)]))
    tr = [float(Fraction(rng.randint(-50, 50), 4)) for _ in range(2)]
    sfac = np.array([rng.choice([0.5, 2.0, 3.0, 0.25, 7.5, 1.0]) for _ in range(n[0] * n[1])]).reshape(n[0], n[1], 1)
    variants = {"reversed": with_array(f, -f.array)}
    if generic:
        variants["rotated"] = with_array(f, f.array @ Qm.T)
        variants["rescaled"] = with_array(f, f.array * sfac)
        if case.get("relen"):
            # the same directions in another length regime (normalised, next to normalised, one common length, many orders of magnitude)
            variants["relength"] = with_array(f, apply_lens(rng, f.array, case["relen"]))
    r = f.mesh.region
    mesh_t = df.Mesh(region=df.Region(p1=[a + t for a, t in zip(r.pmin, tr)], p2=[a + t for a, t in zip(r.pmax, tr)], dims=r.dims), n=n,
                     bc=f.mesh.bc)
    mesh_s = df.Mesh(region=df.Region(p1=[a * lam for a in r.pmin], p2=[a * lam for a in r.pmax], dims=r.dims), n=n, bc=f.mesh.bc)
    variants["translated"] = with_array(f, f.array, mesh=mesh_t)
    variants["scaled"] = with_array(f, f.array, mesh=mesh_s)
    if case.get("via_sel"):
        d = f.mesh.region.dims
        variants["quarter"] = f.rotate90(d[0], d[1], k=rng.choice([1, 2, 3, -1]))
    for meth in ("continuous", "berg-luescher"):
        q0 = res[meth].array
        ch0, cha0 = obs[meth + ":charge"]
        for name, g in variants.items():
            if meth == "berg-luescher" and (obs["bl_exceptional"] or (name in ("rotated", "rescaled", "relength") and not generic_bl)):
                continue
            qg = dft.topological_charge_density(g, method=meth).array
            chg = dft.topological_charge(g, method=meth)
            chag = dft.topological_charge(g, method=meth, absolute=True)
            cs = scale * c0 * c1 * max(1, q0.size)
            if name in ("rotated", "rescaled", "relength", "translated"):
                if not arr_close(qg, q0, scale):
                    fail(f"{meth}: density changes when the field is {name} (max diff {np.abs(qg - q0).max():.3g}, scale {scale:.3g})")
                if not near(chg, ch0, cs) or not near(chag, cha0, cs):
                    fail(f"{meth}: charge changes when the field is {name}: {ch0} -> {chg}")
            elif name == "reversed":
                if not arr_close(qg, -q0, scale):
                    fail(f"{meth}: density does not change sign when all vectors are reversed (max diff {np.abs(qg + q0).max():.3g})")
                if not near(chg, -ch0, cs) or not near(chag, cha0, cs):
                    fail(f"{meth}: charge {ch0} -> {chg} (absolute {cha0} -> {chag}) under reversal")
            elif name == "scaled":
                if not arr_close(qg * lam * lam, q0, scale):
                    fail(f"{meth}: density does not scale by 1/lambda^2 when the mesh is scaled by {lam}")
                if not near(chg, ch0, cs) or not near(chag, cha0, cs):
                    fail(f"{meth}: charge changes when the mesh is scaled by {lam}: {ch0} -> {chg}")
            elif name == "quarter":
                if not near(chg, ch0, cs) or not near(chag, cha0, cs):
                    fail(f"{meth}: charge changes under a quarter turn of the sample: {ch0} -> {chg} (absolute {cha0} -> {chag})")
    # ---- unknown method
    if st(lambda: dft.topological_charge_density(f, method="lattice"))[0] != "err":
        fail("unknown method accepted")
    return obs


def skyrmion_rim(mesh, wind, pol, rng):
    n = tuple(int(x) for x in mesh.n)
    arr = np.zeros((*n, 3))
    cen = [(a + b) / 2 for a, b in zip(mesh.region.pmin, mesh.region.pmax)]
    # radius in index space so that anisotropic cells do not matter; two uniform rim layers
    R = min(n) / 2 - 2.2
    hel = rng.random() * 6
    for idx in itertools.product(*[range(x) for x in n]):
        x, y = idx[0] - (n[0] - 1) / 2 + 0.13, idx[1] - (n[1] - 1) / 2 - 0.21
        r = math.hypot(x, y)
        th = math.pi * max(0.0, 1 - r / R)
        ph = wind * math.atan2(y, x) + hel
        arr[idx] = (math.sin(th) * math.cos(ph), math.sin(th) * math.sin(ph), pol * math.cos(th)) if r < R else (0.0, 0.0, float(pol))
    return arr


def run_blint(case, rng, obs, fail):
    n, cell = case["n"], case["cell"]
    mesh = df.Mesh(p1=(0.0, 0.0), p2=(n[0] * cell[0], n[1] * cell[1]), n=n)
    arr = skyrmion_rim(mesh, case["wind"], case["pol"], rng)
    f = df.Field(mesh, nvdim=3, value=apply_lens(rng, arr, case["lens"]) if case.get("lens") else arr * 2.5)
    ch = dft.topological_charge(f, method="berg-luescher")
    want = -case["wind"] * case["pol"]
    obs["tags"] += [f"wind:{case['wind']}", f"pol:{case['pol']}", f"lens:{case.get('lens', 'asis')}"]
    obs["nontrivial"] = True
    if abs(ch - round(ch)) > 1e-9:
        fail(f"Berg-Luescher charge {ch!r} of a skyrmion texture (winding {case['wind']}, polarity {case['pol']}, n={n}) with uniform rim is not an integer")
    elif round(ch) != want:
        fail(f"Berg-Luescher charge {ch!r} of a skyrmion texture with winding {case['wind']} and polarity {case['pol']} should be {want}")
    g = df.Field(mesh, nvdim=3, value=-arr)
    ch2 = dft.topological_charge(g, method="berg-luescher")
    if abs(ch2 + ch) > 1e-9:
        fail(f"Berg-Luescher charge {ch} -> {ch2} under reversal")
    return obs


def pyth(p, q, r):
    """integer vector of integer length p^2+q^2+r^2 (inverse stereographic image of (p/q, r/q))"""
    return (2 * p * q, 2 * r * q, q * q - p * p - r * r)


def sheet_texture(case, rng):
    n0, n1 = case["n"]
    pol, tex = case["pol"], case["tex"]
    arr = np.zeros((n0, n1, 3))
    rim = (0, 0, -pol)
    if tex.startswith("ratsky"):
        Rd = min(n0, n1) - 1          # radius in half-cell units: the outermost layer of cells is rim
        for i in range(n0):
            for j in range(n1):
                X, Y = 2 * i - (n0 - 1), 2 * j - (n1 - 1)
                q = Rd * Rd - X * X - Y * Y
                if q <= 0 or i in (0, n0 - 1) or j in (0, n1 - 1):
                    arr[i, j] = rim
                    continue
                p, r = (Rd * X, Rd * Y) if tex == "ratsky" else (X * X - Y * Y, 2 * X * Y)
                v = pyth(p, q, r)
                arr[i, j] = (v[0], v[1], pol * v[2])
    else:
        tet = [(1, 1, 1), (1, -1, -1), (-1, 1, -1), (-1, -1, 1)]      # not of integer length: only the model's 1e-30 square root applies
        rng.shuffle(tet)
        for i in range(n0):
            for j in range(n1):
                if i in (0, n0 - 1) or j in (0, n1 - 1):
                    arr[i, j] = rim
                elif tex == "rough4":
                    arr[i, j] = pyth(*[(1, 2, 1), (-1, 2, 1), (1, 2, -1), (-1, 2, -1), (2, 1, 2), (-2, 1, 1)][rng.randrange(6)])
                else:
                    v = pyth(rng.randint(-3, 3), rng.randint(1, 3), rng.randint(-3, 3))
                    s = [rng.choice([1, -1]) for _ in range(3)]
                    perm = rng.sample(range(3), 3)
                    arr[i, j] = tuple(s[c] * v[perm[c]] for c in range(3))
    return arr * case["scale"], rim


def run_blsheet(case, rng, obs, fail):
    n, cell = case["n"], case["cell"]
    mesh = df.Mesh(p1=(0.0, 0.0), p2=(n[0] * cell[0], n[1] * cell[1]), n=n)
    arr, rim = sheet_texture(case, rng)
    f = df.Field(mesh, nvdim=3, value=arr)
    obs["field"] = fieldio.field_json(f)
    obs["rim"] = [Q(Fraction(int(x))) for x in rim]
    obs["Q"] = float(dft.topological_charge(f, method="berg-luescher"))
    obs["tags"] += [f"sheet:{case['tex']}"]
    obs["nontrivial"] = True
    return obs


def run_emergent(case, rng, obs, fail):
    mesh = fieldio.build_mesh(case["mesh"])
    n = tuple(int(x) for x in mesh.n)
    arr = apply_lens(rng, texture(rng, case["tex"], mesh), case.get("lens"))
    mask = fieldio.gen_mask(rng, n, case["density"])
    f = df.Field(mesh, nvdim=3, value=arr, valid=mask)
    obs["field"] = fieldio.field_json(f)
    F0 = dft.emergent_magnetic_field(f)
    obs["res"] = F0
    c = [float(x) for x in mesh.cell]
    vmax = float(np.abs(arr).max())
    scale = vmax ** 3 / min(c[1] * c[2], c[0] * c[2], c[0] * c[1])
    obs["scale"] = scale
    obs["nontrivial"] = case["tex"] != "uniform" and max(n) >= 2
    obs["tags"] += [f"tex:{case['tex']}", f"masked:{not bool(mask.all())}", f"lens:{case.get('lens', 'asis')}"]
    if not (F0.mesh == mesh and F0.nvdim == 3 and np.array_equal(F0.valid, mask)):
        fail("emergent field is not a 3-component field on the same mesh with the same validity")
    if case["tex"] == "uniform" and np.any(np.abs(F0.array) > 1e-12 * scale):
        fail("emergent field of a uniform field is not zero")
    if case["tex"] != "uniform":
        Qm = rat_rotation(rng)
        s = rng.choice([2.0, 0.5, 3.0])
        F1 = dft.emergent_magnetic_field(df.Field(mesh, nvdim=3, value=arr @ Qm.T, valid=mask))
        if not arr_close(F1.array, F0.array, scale, 1e-8):
            fail(f"emergent field changes under a global rotation of the vectors (max diff {np.abs(F1.array - F0.array).max():.3g})")
        F2 = dft.emergent_magnetic_field(df.Field(mesh, nvdim=3, value=-arr, valid=mask))
        if not arr_close(F2.array, -F0.array, scale, 1e-8):
            fail("emergent field does not change sign under reversal")
        F3 = dft.emergent_magnetic_field(df.Field(mesh, nvdim=3, value=s * arr, valid=mask))
        if not arr_close(F3.array, s ** 3 * F0.array, scale * s ** 3, 1e-8):
            fail("emergent field is not cubic in the vector length")
    return obs


def angle_units(case):
    return ["rad", "deg"] if case["units"] == "both" else [case["units"]]


def case_eps(case):
    """unit round-off of the field's dtype"""
    return 2.0 ** -23 if case.get("dtype") == "float32" else 2.0 ** -52


def angle_tol(theta, eps=2.0 ** -52):
    """admissible error (rad) of arccos(clip(u1.u2)) evaluated in arithmetic of unit round-off eps: the dot product of two rounded
    unit vectors is off by at most E = 64 eps, arccos turns that into E / sin(theta), next to 0 and pi into sqrt(2 E); never below
    the 1e-9 of the natural scale every continuous comparison of this check uses"""
    E = 64 * eps
    return np.maximum(TOL, np.minimum(math.sqrt(2 * E), E / np.maximum(np.abs(np.sin(theta)), 1e-300)))


def angle_reference(arr, ax):
    """angle between the unit vectors of neighbouring cells along axis `ax`, independent of the tools: atan2(|a x b|, a.b) in
    extended precision after an exact power-of-two scaling of every vector (independent of the lengths, accurate next to 0 and pi).
    Returns (angles in rad, mask of the pairs in which both vectors are non-zero)"""
    a = np.asarray(arr, dtype=np.longdouble)
    big = np.max(np.abs(a), axis=-1, keepdims=True)
    nz = big[..., 0] > 0
    _, ex = np.frexp(np.where(big > 0, big, 1).astype(float))
    a = np.ldexp(a, -ex)
    nd = a.ndim - 1
    sl1 = tuple(slice(0, -1) if k == ax else slice(None) for k in range(nd))
    sl2 = tuple(slice(1, None) if k == ax else slice(None) for k in range(nd))
    v1, v2 = a[sl1], a[sl2]
    cr = np.cross(v1, v2)
    ang = np.arctan2(np.sqrt(np.sum(cr * cr, axis=-1)), np.sum(v1 * v2, axis=-1))
    return ang.astype(float), nz[sl1] & nz[sl2]


def mesh_half_cell_check(mesh, g, ax, d, phys, fail):
    """the result mesh: one cell shorter along `ax`, the region shrunk by half a cell at both ends of that axis, same cells.
    Dyadic meshes: exactly; arbitrary binary64 meshes: to the rounding of pmin + cell/2 (1e-12 of the largest coordinate)"""
    nd = int(mesh.region.ndim)
    half = Fraction(float(mesh.cell[ax])) / 2
    for a in range(nd):
        lo = Fraction(float(mesh.region.pmin[a])) + (half if a == ax else 0)
        hi = Fraction(float(mesh.region.pmax[a])) - (half if a == ax else 0)
        glo, ghi, gc = (Fraction(float(x)) for x in (g.mesh.region.pmin[a], g.mesh.region.pmax[a], g.mesh.cell[a]))
        slack = Fraction(1e-12) * max(abs(lo), abs(hi), Fraction(float(mesh.cell[a]))) if phys else 0
        if abs(glo - lo) > slack or abs(ghi - hi) > slack:
            fail(f"angle mesh along {d}: axis {a} spans [{g.mesh.region.pmin[a]!r}, {g.mesh.region.pmax[a]!r}], expected [{float(lo)!r}, {float(hi)!r}] (shifted by half a cell)")
        if abs(gc - Fraction(float(mesh.cell[a]))) > slack:  # (cell = edge / n inherits the rounding of the corners)
            fail(f"angle mesh along {d}: cell size changed on axis {a}")


def run_angle(case, rng, obs, fail):
    mesh = fieldio.build_mesh(case["mesh"])
    phys = bool(case["mesh"].get("phys"))
    n = tuple(int(x) for x in mesh.n)
    arr = apply_lens(rng, texture(rng, case["tex"], mesh), case.get("lens"))
    if case.get("dtype"):
        f = df.Field(mesh, nvdim=3, value=arr, dtype=getattr(np, case["dtype"]))
        arr = np.asarray(f.array, dtype=float)  # the values the tools see
    else:
        f = df.Field(mesh, nvdim=3, value=arr)
    eps = case_eps(case)
    E = 64 * eps
    use_model = case.get("model", True)
    obs["field"] = fieldio.field_json(f) if use_model else None
    dims = list(mesh.region.dims)
    nrm = np.linalg.norm(arr, axis=-1, keepdims=True)
    unit = np.divide(arr, nrm, out=np.zeros_like(arr), where=nrm > 1e-8)
    arr_re = apply_lens(rng, arr, case["relen"]) if case.get("relen") else None
    Qm = rat_rotation(rng)
    obs["res"], obs["max"] = {}, {}
    for units in angle_units(case):
        top = math.pi if units == "rad" else 180.0
        rad = (lambda x: x) if units == "rad" else np.radians
        res = {}
        for ax, d in enumerate(dims):
            s, g = st(lambda: dft.neighbouring_cell_angle(f, direction=d, units=units))
            res[d] = (s, g)
            if n[ax] == 1:
                if s == "ok":
                    fail(f"angles along {d} with a single cell returned a field")
                continue
            if s != "ok":
                fail(f"neighbouring_cell_angle along {d} refused: {g}")
                continue
            want_n = list(n)
            want_n[ax] -= 1
            if [int(x) for x in g.mesh.n] != want_n or g.nvdim != 1:
                fail(f"angle field along {d}: n={list(g.mesh.n)}, expected {want_n} (one cell shorter)")
                continue
            mesh_half_cell_check(mesh, g, ax, d, phys, fail)
            sl1 = tuple(slice(0, -1) if a == ax else slice(None) for a in range(len(n)))
            sl2 = tuple(slice(1, None) if a == ax else slice(None) for a in range(len(n)))
            dots = np.clip(np.sum(unit[sl1] * unit[sl2], axis=-1), -1, 1)
            want = np.arccos(dots) if units == "rad" else np.degrees(np.arccos(dots))
            got = np.asarray(g.array[..., 0], dtype=float)
            if not np.all((got >= 0) & (got <= top * (1 + 1e-15))):  # (a nan fails as well)
                fail(f"angle along {d} outside [0, {top}]: min {got.min()}, max {got.max()}")
            # arccos is ill-conditioned at +-1: compare cosines as well
            gc = np.cos(rad(got))
            if not (np.all(np.abs(got - want) <= max(1e-6, math.sqrt(2 * E) / math.pi) * top) and np.all(np.abs(gc - dots) <= max(1e-9, E))):
                fail(f"angle along {d} is not the angle between the two unit vectors (max diff {np.abs(got - want).max():.3g} {units})")
            # the angle itself, whatever the lengths, with the accuracy arccos of a rounded dot product can have
            ref, both = angle_reference(arr, ax)
            tol = angle_tol(ref, eps)
            bad = both & ~(np.abs(rad(got) - ref) <= tol)
            if np.any(bad):
                j = np.unravel_index(int(np.argmax(np.where(bad, np.abs(rad(got) - ref) / tol, 0))), bad.shape)
                fail(f"angle along {d} [{units}] between cells {tuple(int(x) for x in j)} and the next one: {float(rad(got)[j])!r} rad, the unit "
                     f"vectors of {arr[sl1][j].tolist()} and {arr[sl2][j].tolist()} enclose {float(ref[j])!r} rad (admissible error {float(tol[j]):.3g})")
            g2 = dft.neighbouring_cell_angle(with_dtype(case, mesh, arr @ Qm.T), direction=d, units=units)
            c2 = np.cos(rad(np.asarray(g2.array[..., 0], dtype=float)))
            if not np.all(np.abs(c2 - gc) <= max(1e-9, E)):
                fail(f"angle along {d} changes under a global rotation of the vectors")
            if arr_re is not None:
                g3 = np.asarray(dft.neighbouring_cell_angle(with_dtype(case, mesh, arr_re), direction=d, units=units).array[..., 0], dtype=float)
                bad = both & ~(np.abs(rad(g3) - rad(got)) <= 2 * tol)
                if np.any(bad):
                    j = np.unravel_index(int(np.argmax(np.where(bad, np.abs(rad(g3) - rad(got)), 0))), bad.shape)
                    fail(f"angle along {d} [{units}] changes when the vectors are rescaled (lengths '{case['relen']}'): {float(rad(got)[j])!r} -> "
                         f"{float(rad(g3)[j])!r} rad between {arr_re[sl1][j].tolist()} and {arr_re[sl2][j].tolist()}")
        obs["res"][units] = res
        s, gm = st(lambda: dft.max_neighbouring_cell_angle(f, units=units))
        obs["max"][units] = (s, gm)
        if min(n) >= 2:
            # (the function refuses meshes with exactly two cells along a non-leading axis: it assigns
            # `array.squeeze()` into the full-shape slot; the property does not speak about it, the model follows the code)
            if s == "ok":
                want = np.zeros(n)
                for ax, d in enumerate(dims):
                    if res[d][0] != "ok":
                        continue
                    a = res[d][1].array[..., 0]
                    sl1 = tuple(slice(0, -1) if k == ax else slice(None) for k in range(len(n)))
                    sl2 = tuple(slice(1, None) if k == ax else slice(None) for k in range(len(n)))
                    want[sl1] = np.maximum(want[sl1], a)
                    want[sl2] = np.maximum(want[sl2], a)
                if not (gm.mesh == mesh and np.array_equal(gm.array[..., 0], want)):
                    fail("max_neighbouring_cell_angle is not the maximum over the (up to 2*ndim) neighbour angles on the field's mesh")
    obs["nontrivial"] = max(n) >= 2
    amin = math.inf  # smallest distance of a neighbour angle from 0 / pi
    for ax in range(len(n)):
        if n[ax] >= 2:
            ref, both = angle_reference(arr, ax)
            if np.any(both):
                amin = min(amin, float(np.min(np.minimum(ref, math.pi - ref)[both])))
    obs["tags"] += [f"ndim:{len(n)}", f"units:{case['units']}", f"tex:{case['tex']}", f"single:{min(n) == 1}",
                    f"stream:{case.get('stream', 'base')}", f"lens:{case.get('lens', 'asis')}", f"relen:{case.get('relen')}",
                    f"dtype:{case.get('dtype') or 'float64'}", f"mesh:{'binary64-far' if phys else 'dyadic'}",
                    f"cells_along_axis:{'>=1000' if max(n) >= 1000 else '<=6'}", f"model:{use_model}",
                    "min_angle_off_0_pi:" + ("none" if amin == math.inf else "<=1e-9" if amin <= 1e-9 else f"1e{int(math.floor(math.log10(amin)))}")]
    return obs


def with_dtype(case, mesh, arr):
    """the variant field in the case's dtype - unless that dtype cannot hold the variant's values (rotated or
    rescaled integer vectors are not integers: an integer dtype would truncate them in the harness, not in the library)"""
    if case.get("dtype") and not (np.dtype(case["dtype"]).kind in "iu" and not np.all(np.asarray(arr) == np.round(arr))):
        return df.Field(mesh, nvdim=3, value=arr, dtype=getattr(np, case["dtype"]))
    return df.Field(mesh, nvdim=3, value=arr)


def run_bps(case, rng, obs, fail):
    if case["tex"] == "hedgehog":
        mesh = mesh3(case["n"], case["cell"], p1=(-1.0, 2.0, 0.5))
        arr = apply_lens(rng, hedgehog(mesh, case["off"], case["rev"]), case.get("lens"))
    else:
        mesh = fieldio.build_mesh(case["mesh"])
        arr = smooth3d(rng, mesh)
    f = df.Field(mesh, nvdim=3, value=arr)
    obs["field"] = fieldio.field_json(f) if case["model"] else None
    res = {}
    for d in mesh.region.dims:
        s, r = st(lambda: dft.count_bps(f, direction=d))
        res[d] = (s, r)
        if s != "ok":
            # a single cell along the direction leaves nothing to difference: the code raises (model: err)
            if int(mesh.n[list(mesh.region.dims).index(d)]) >= 2:
                fail(f"count_bps along {d} refused: {r}")
            continue
        if case["claim"]:
            want = (1, 1, 0) if case["rev"] else (1, 0, 1)
            got = (r["bp_number"], r["bp_number_hh"], r["bp_number_tt"])
            if tuple(float(x) for x in got) != tuple(float(x) for x in want):
                fail(f"hedgehog{' (reversed)' if case['rev'] else ''} n={case['n']} offset={case['off']}: count_bps along {d} gives total/hh/tt = {got}, expected {want}; pattern {r['bp_pattern_' + d]}")
    obs["res"] = res
    obs["nontrivial"] = True
    obs["tags"] += [f"tex:{case['tex']}", f"model:{case['model']}", f"lens:{case.get('lens', 'asis')}"]
    return obs


def real_space(tensor):
    """real-space tensor array of a Fourier-space tensor field"""
    return tensor.ifftn().array.real


def run_dtensor(case, rng, obs, fail):
    n, cell = case["n"], case["cell"]
    mesh = mesh3(n, cell, p1=(3.0, -1.0, 0.25))
    T = dft.demag_tensor(mesh)
    obs["mesh"] = fieldio.mesh_json(mesh)
    obs["T"] = T
    obs["real"] = real_space(T)
    nn = [2 * k - 1 for k in n]
    if [int(x) for x in T.mesh.n] != nn or T.nvdim != 6:
        fail(f"demag_tensor: k-mesh n={list(T.mesh.n)} nvdim={T.nvdim}, expected {nn}, 6")
        return obs
    # trace -1 at every frequency, transform taken about the central cell r_c
    ks = [np.array(T.mesh.cells[a]) for a in range(3)]
    # position of the central cell relative to the first cell (where Field.fftn puts r = 0)
    rc = [(k - 1) * c for k, c in zip(n, cell)]
    KX, KY, KZ = np.meshgrid(*ks, indexing="ij")
    phase = np.exp(2j * np.pi * (KX * rc[0] + KY * rc[1] + KZ * rc[2]))
    tr = (T.array[..., 0] + T.array[..., 1] + T.array[..., 2]) * phase
    if not np.all(np.abs(tr + 1) <= 1e-9):
        k = np.unravel_index(np.argmax(np.abs(tr + 1)), tr.shape)
        fail(f"demag tensor n={n} cell={cell}: trace * exp(+2 pi i k r_c) = {complex(tr[k])} at k-cell {tuple(int(x) for x in k)}, expected -1")
    rt = obs["real"][..., 0] + obs["real"][..., 1] + obs["real"][..., 2]
    delta = np.zeros(nn)
    delta[tuple(k - 1 for k in n)] = -1
    if not np.all(np.abs(rt - delta) <= 1e-9):
        fail(f"demag tensor n={n} cell={cell}: real-space trace differs from -delta at the origin cell by {np.abs(rt - delta).max():.3g}")
    if case["field_based"]:
        T2 = core.private(dftt, "_demag_tensor_field_based")(mesh)
        obs["real_fb"] = real_space(T2)
        if not (T2.mesh == T.mesh and arr_close(T2.array, T.array, 1.0, 1e-10)):
            fail(f"the two demag tensor implementations disagree (max diff {np.abs(T2.array - T.array).max():.3g})")
    obs["nontrivial"] = True
    obs["tags"] += [f"cells:{int(np.prod(n))}", f"cubic:{len(set(cell)) == 1}", f"field_based:{case['field_based']}"]
    return obs


def int_tensor(rng, n):
    nn = [2 * k - 1 for k in n]
    return np.array([rng.randint(-4, 4) for _ in range(int(np.prod(nn)) * 6)], dtype=float).reshape(*nn, 6)


def tensor_field(mesh, values):
    """a Fourier-space tensor field built exactly as demag_tensor builds it, from real-space `values`"""
    n, cell = [int(x) for x in mesh.n], [float(x) for x in mesh.cell]
    p1 = [(-i + 1) * j - j / 2 for i, j in zip(n, cell)]
    p2 = [(i - 1) * j + j / 2 for i, j in zip(n, cell)]
    mnew = df.Mesh(p1=p1, p2=p2, n=[2 * i - 1 for i in n])
    return df.Field(mnew, nvdim=6, value=values, vdims=["xx", "yy", "zz", "xy", "xz", "yz"]).fftn()


def run_dfield(case, rng, obs, fail):
    n, cell = case["n"], case["cell"]
    mesh = mesh3(n, cell, p1=(-2.0, 0.0, 1.5))
    Tv = int_tensor(rng, n)
    marr = fieldio.gen_int_array(rng, (*n, 3), -5, 5)
    # the magnetisation's numbers in integer / single-precision storage every third case: the demagnetising field is a
    # real field whatever the storage of the magnetisation (the integer tensor below is divided by the cell count)
    store = [None, None, "int64", None, None, "int32", None, None, "float32"][case["sub"] % 9] if "sub" in case else None
    m = df.Field(mesh, nvdim=3, value=marr) if store is None else df.Field(mesh, nvdim=3, value=marr.astype(store), dtype=getattr(np, store))
    obs["tags"].append("magnetisation-storage:" + (store or "float64"))
    H = dft.demag_field(m, tensor_field(mesh, Tv))
    obs["field"] = fieldio.field_json(m)
    obs["tensor"] = dict(shape=[2 * k - 1 for k in n], data=[Qs(row) for row in Tv.reshape(-1, 6).tolist()])
    obs["res"] = H
    obs["scale"] = float(np.abs(Tv).max() * np.abs(marr).max() * np.prod(n) * 3) or 1.0
    # the code-shaped model path (pad, fftn, products, ifftn, crop over formal roots of unity) is run on small padded grids
    obs["fft"] = int(np.prod([2 * k - 1 for k in n])) <= 15
    if not (H.mesh == mesh and H.nvdim == 3):
        fail("demag_field: result is not a 3-component field on the magnetisation's mesh")
    # linearity in m
    m2 = df.Field(mesh, nvdim=3, value=fieldio.gen_int_array(rng, (*n, 3), -5, 5))
    T = tensor_field(mesh, Tv)
    H2 = dft.demag_field(m2, T)
    H3 = dft.demag_field(df.Field(mesh, nvdim=3, value=2 * marr - 3 * m2.array), T)
    if not arr_close(H3.array, 2 * H.array - 3 * H2.array, obs["scale"] * 5):
        fail("demag_field is not linear in the magnetisation")
    obs["nontrivial"] = True
    obs["tags"] += [f"cells:{int(np.prod(n))}"]
    return obs


def run_cuboid(case, rng, obs, fail):
    n, cell, M = case["n"], case["cell"], case["M"]
    mesh = mesh3(n, cell)
    T = dft.demag_tensor(mesh)
    means = []
    for a in range(3):
        v = [0.0, 0.0, 0.0]
        v[a] = M
        mf = df.Field(mesh, nvdim=3, value=v)
        if float(M).is_integer() and case.get("sub", 0) % 3 == 0:      # the same magnetisation stored as integers
            mf = df.Field(mesh, nvdim=3, value=np.array(v).astype(np.int64), dtype=np.int64)
            obs["tags"].append("magnetisation-storage:int64")
        H = dft.demag_field(mf, T)
        mean = H.mean()
        means.append(float(mean[a]))
        off = [abs(float(mean[b])) for b in range(3) if b != a]
        if max(off) > 1e-9 * M:
            fail(f"cuboid n={n} cell={cell} magnetised along axis {a}: transverse mean field {off}")
    if abs(sum(means) + M) > 1e-9 * M:
        fail(f"cuboid n={n} cell={cell}: mean demagnetising field components {means} sum to {sum(means)}, expected {-M}")
    if case["cube"] and max(abs(x + M / 3) for x in means) > 1e-9 * M:
        fail(f"cube n={n} cell={cell}: mean demagnetising field components {means}, expected {-M / 3} each")
    if any(x >= 0 for x in means):
        fail(f"cuboid n={n}: a mean demagnetising field component is not negative: {means}")
    obs["nontrivial"] = True
    obs["tags"] += [f"cube:{case['cube']}"]
    return obs


def run_refuse(case, rng, obs, fail):
    nd, nv = case["ndim"], case["nvdim"]
    spec = gen_mesh(rng, nd, nmin=2, nmax=3, max_cells=40)
    mesh = fieldio.build_mesh(spec)
    arr = np.array([rng.uniform(-1, 1) for _ in range(int(np.prod(mesh.n)) * nv)]).reshape(*mesh.n, nv) + 0.1
    f = df.Field(mesh, nvdim=nv, value=arr)
    obs["field"] = fieldio.field_json(f)
    d0 = mesh.region.dims[0]
    calls = {
        "tcd_c": (lambda: dft.topological_charge_density(f), nv == 3 and nd == 2),
        "tcd_b": (lambda: dft.topological_charge_density(f, method="berg-luescher"), nv == 3 and nd == 2),
        "charge": (lambda: dft.topological_charge(f), nv == 3 and nd == 2),
        "emergent": (lambda: dft.emergent_magnetic_field(f), nv == 3 and nd == 3),
        "angle": (lambda: dft.neighbouring_cell_angle(f, direction=d0), nv == 3),
        "angle_dir": (lambda: dft.neighbouring_cell_angle(f, direction="q"), False),
        "angle_units": (lambda: dft.neighbouring_cell_angle(f, direction=d0, units="grad"), False),
        "bps": (lambda: dft.count_bps(f, direction=d0), nv == 3 and nd == 3),
        "bps_dir": (lambda: dft.count_bps(f, direction="q"), False),
        # further malformed directions / units / methods (real code only)
        "angle_dir_none": (lambda: dft.neighbouring_cell_angle(f, direction=None), False),
        "angle_dir_int": (lambda: dft.neighbouring_cell_angle(f, direction=0), False),
        "angle_dir_case": (lambda: dft.neighbouring_cell_angle(f, direction=d0.upper()), False),
        "angle_dir_two": (lambda: dft.neighbouring_cell_angle(f, direction=d0 + d0), False),
        "angle_units_none": (lambda: dft.neighbouring_cell_angle(f, direction=d0, units=None), False),
        "angle_units_case": (lambda: dft.neighbouring_cell_angle(f, direction=d0, units="RAD"), False),
        "angle_units_long": (lambda: dft.neighbouring_cell_angle(f, direction=d0, units="degrees"), False),
        "bps_dir_none": (lambda: dft.count_bps(f, direction=None), False),
        "bps_dir_int": (lambda: dft.count_bps(f, direction=0), False),
        "tcd_method_none": (lambda: dft.topological_charge_density(f, method=None), False),
        "tcd_method_case": (lambda: dft.topological_charge_density(f, method="Continuous"), False),
        "charge_method": (lambda: dft.topological_charge(f, method="bl"), False),
    }
    out = {}
    for name, (fn, should) in calls.items():
        s, _ = st(fn)
        out[name] = s
        if (s == "ok") != should:
            fail(f"{name} on a field with nvdim={nv} on a {nd}-d mesh: {s}, expected {'ok' if should else 'a refusal'}")
    obs["st"] = out
    obs["d0"] = d0
    obs["nontrivial"] = not (nv == 3 and nd in (2, 3))
    obs["tags"] += [f"ndim:{nd}", f"nvdim:{nv}"]
    return obs


RUN = dict(tcd=run_tcd, blint=run_blint, blsheet=run_blsheet, emergent=run_emergent, angle=run_angle, bps=run_bps, dtensor=run_dtensor,
           dfield=run_dfield, cuboid=run_cuboid, refuse=run_refuse)


def run_impl(case):
    rng = random.Random(case["sub"])
    obs = {"oracle": [], "tags": ["kind:" + case["kind"]]}
    try:
        return RUN[case["kind"]](case, rng, obs, obs["oracle"].append)
    except core.MachineryError:
        raise
    except Exception as e:  # a tool raised on an input of its domain: a property-level failure, no model comparison
        import traceback
        tb = traceback.extract_tb(e.__traceback__)
        where = next((f"{fr.filename.split('/')[-1]}:{fr.lineno}" for fr in reversed(tb) if "discretisedfield" in fr.filename), "harness")
        obs["oracle"].append(f"{case['kind']}: a tool raised {type(e).__name__} ({str(e)[:120]}) at {where} on a valid input")
        obs["crashed"] = True
        obs["tags"].append("crashed")
        return obs


# ------------------------------------------------------------------ model side
def pick_cells(case, nn):
    allc = list(itertools.product(*[range(k) for k in nn]))
    if len(allc) <= 27:
        return [list(c) for c in allc]
    rng = random.Random(case["sub"] ^ 0x5EED)
    centre = tuple((k - 1) // 2 for k in nn)
    sel = {centre, (0, 0, 0), tuple(k - 1 for k in nn), (centre[0] + 1, centre[1], centre[2]), (centre[0], centre[1] - 1, centre[2] + 1)}
    while len(sel) < 14:
        sel.add(tuple(rng.randrange(k) for k in nn))
    return [list(c) for c in sorted(sel)]


def model_requests(case, obs):
    k = case["kind"]
    if obs.get("crashed") or "adapter-crash" in obs.get("tags", []):
        return []
    if k == "tcd":
        return [dict(op="tcd", field=obs["field"], method="continuous", pi=PI_Q),
                dict(op="tcd", field=obs["field"], method="berg-luescher", pi=PI_Q),
                dict(op="tcd", field=obs["field"], method="lattice", pi=PI_Q),
                dict(op="orientation", field=obs["field"])]
    if k == "blsheet":
        return [dict(op="bl_sheet", field=obs["field"], rim=obs["rim"])]
    if k == "emergent":
        return [dict(op="emergent", field=obs["field"])]
    if k == "angle":
        if not case.get("model", True):
            return []
        dims = obs["field"]["mesh"]["region"]["dims"]
        return [r for u in angle_units(case) for r in
                [dict(op="angle", field=obs["field"], dir=d, units=u) for d in dims] + [dict(op="max_angle", field=obs["field"], units=u)]]
    if k == "bps" and case["model"]:
        dims = obs["field"]["mesh"]["region"]["dims"]
        return [dict(op="count_bps", field=obs["field"], dir=d, pi=PI_Q) for d in dims]
    if k == "dtensor" and "real" in obs:
        nn = [2 * x - 1 for x in case["n"]]
        cells = pick_cells(case, nn)
        reqs = [dict(op="demag_cells", mesh=obs["mesh"], pi=PI_Q, field_based=False, cells=cells)]
        if "real_fb" in obs:
            reqs.append(dict(op="demag_cells", mesh=obs["mesh"], pi=PI_Q, field_based=True, cells=cells))
        return reqs
    if k == "dfield":
        reqs = [dict(op="demag_field", field=obs["field"], tensor=obs["tensor"])]
        if obs.get("fft"):
            reqs.append(dict(op="demag_field_fft", field=obs["field"], tensor=obs["tensor"]))
        return reqs
    if k == "refuse":
        f, d0 = obs["field"], obs["d0"]
        return [dict(op="tcd", field=f, method="continuous", pi=PI_Q), dict(op="tcd", field=f, method="berg-luescher", pi=PI_Q),
                dict(op="emergent", field=f), dict(op="angle", field=f, dir=d0, units="rad"), dict(op="angle", field=f, dir="q", units="rad"),
                dict(op="angle", field=f, dir=d0, units="grad"), dict(op="count_bps", field=f, dir=d0, pi=PI_Q),
                dict(op="count_bps", field=f, dir="q", pi=PI_Q)]
    return []


def acos_q(d):
    """arccos of an exact rational in [-1, 1], accurate next to +-1: 2 asin(sqrt((1 - d)/2)) resp. pi - 2 asin(sqrt((1 + d)/2))"""
    d = Fraction(d)
    if d >= 0:
        return 2 * math.asin(math.sqrt(float((1 - d) / 2)))
    return math.pi - 2 * math.asin(math.sqrt(float((1 + d) / 2)))


def cmp_mesh(name, mesh, mj, dis, rel=0):
    """rel = 0: corners exactly (dyadic meshes); rel > 0: arbitrary binary64 meshes, corners to rel of the largest coordinate (the
    model adds half a cell exactly, the code in binary64)"""
    got = fieldio.mesh_json(mesh)
    if got["n"] != mj["n"]:
        dis.append(f"{name}: n impl {got['n']} vs model {mj['n']}")
    big = max([abs(F(x)) for key in ("pmin", "pmax") for x in mj["region"][key]] + [Fraction(0)])
    for key in ("pmin", "pmax"):
        if any(abs(F(x) - F(y)) > Fraction(rel) * big for x, y in zip(got["region"][key], mj["region"][key])):
            dis.append(f"{name}: region {key} impl {got['region'][key]} vs model {mj['region'][key]}")
    if got["region"]["dims"] != mj["region"]["dims"]:
        dis.append(f"{name}: dims impl {got['region']['dims']} vs model {mj['region']['dims']}")


def cmp_values(name, impl_arr, model_rows, scale, dis, tol=TOL):
    a = np.asarray(impl_arr, dtype=float).reshape(len(model_rows), -1) if model_rows else np.zeros((0, 0))
    for k, row in enumerate(model_rows):
        for c, y in enumerate(row):
            if not near(a[k, c], float(F(y)), scale, tol):
                dis.append(f"{name}: value at flat cell {k} comp {c}: impl {a[k, c]!r} vs model {float(F(y))!r} (scale {scale:.3g})")
                return


def bl_from_cells(ok):
    area = float(F(ok["area"]))
    out = []
    for c in ok["cells"]:
        if c["valid"] and c["tris"]:
            out.append(math.fsum(omega(t) for t in c["tris"]) / (area * len(c["tris"])))
        else:
            out.append(0.0)
    return out


def compare(case, obs, rs):
    dis = []
    k = case["kind"]
    if not rs:
        return dis
    if k == "blsheet":
        (r,) = rs
        if "ok" not in r:
            return [f"bl_sheet: model {r}"]
        closed, smooth, ch = r["ok"]["closed"], r["ok"]["smooth"], obs["Q"]
        obs["tags"].append(f"closed:{closed}/smooth:{smooth}/2Q:{round(2 * ch)}")
        # bl_charge_half_integer: on a closed sheet 2Q is an integer; bl_charge_integer: on a closed smooth sheet Q is
        if closed and abs(2 * ch - round(2 * ch)) > 1e-9:
            dis.append(f"model: closed sheet => 2Q integer (bl_charge_half_integer); impl Berg-Luescher charge {ch!r}")
        if closed and smooth and abs(ch - round(ch)) > 1e-9:
            dis.append(f"model: closed smooth sheet => Q integer (bl_charge_integer); impl Berg-Luescher charge {ch!r}")
        return dis
    if k == "tcd":
        rc, rb, ro, rori = rs
        qc, qb = obs["res"]["continuous"], obs["res"]["berg-luescher"]
        scale = obs["scale"]
        if "ok" not in rc or "ok" not in rb:
            return [f"tcd: impl ok vs model {rc if 'ok' not in rc else rb}"]
        if "err" not in ro:
            dis.append("unknown method: impl refuses, model accepts")
        # orientation first: everything else builds on it
        cmp_values("orientation", obs["orient"], rori["ok"]["data"], 1.0, dis)
        cmp_mesh("tcd continuous mesh", qc.mesh, rc["ok"]["mesh"], dis)
        if [bool(v) for v in qc.valid.reshape(-1)] != rc["ok"]["valid"]:
            dis.append("tcd continuous: validity differs")
        if rc["ok"]["nvdim"] != 1:
            dis.append("tcd continuous: model nvdim != 1")
        cmp_values("tcd continuous", qc.array, rc["ok"]["data"], scale, dis)
        dV = float(np.prod([float(x) for x in qc.mesh.cell]))
        cs = scale * dV * max(1, qc.array.size)
        ch, cha = obs["continuous:charge"]
        if not near(ch, float(F(rc["charge"])), cs) or not near(cha, float(F(rc["abs_charge"])), cs):
            dis.append(f"continuous charge impl {ch}/{cha} vs model {float(F(rc['charge']))}/{float(F(rc['abs_charge']))}")
        if obs.get("bl_exceptional"):
            return dis
        mb = bl_from_cells(rb["ok"])
        cmp_mesh("tcd BL mesh", qb.mesh, rb["ok"]["mesh"], dis)
        if [bool(v) for v in qb.valid.reshape(-1)] != rb["ok"]["valid"]:
            dis.append("tcd berg-luescher: validity differs")
        cmp_values("tcd berg-luescher", qb.array, [[Fraction(x)] for x in mb], scale, dis)
        ch, cha = obs["berg-luescher:charge"]
        mdV = float(F(rb["ok"]["dV"]))
        if not near(ch, math.fsum(mb) * mdV, cs) or not near(cha, math.fsum(abs(x) for x in mb) * mdV, cs):
            dis.append(f"berg-luescher charge impl {ch}/{cha} vs model {math.fsum(mb) * mdV}/{math.fsum(abs(x) for x in mb) * mdV}")
    elif k == "emergent":
        r = rs[0]
        if "ok" not in r:
            return [f"emergent: impl ok vs model {r}"]
        g = obs["res"]
        cmp_mesh("emergent mesh", g.mesh, r["ok"]["mesh"], dis)
        if [bool(v) for v in g.valid.reshape(-1)] != r["ok"]["valid"]:
            dis.append("emergent: validity differs")
        if list(g.vdims) != r["ok"]["vdims"] or sorted(g.vdim_mapping.items()) != sorted(map(tuple, r["ok"]["vmap"])):
            dis.append(f"emergent: labels/mapping impl {g.vdims} {g.vdim_mapping} vs model {r['ok']['vdims']} {r['ok']['vmap']}")
        cmp_values("emergent", g.array, r["ok"]["data"], obs["scale"], dis, 1e-8)
    elif k == "angle":
        dims = obs["field"]["mesh"]["region"]["dims"]
        phys = bool(case["mesh"].get("phys"))
        eps = case_eps(case)
        E = 64 * eps
        per = len(dims) + 1
        for ui, units in enumerate(angle_units(case)):
            deg = units == "deg"
            rsu = rs[ui * per:(ui + 1) * per]
            for d, r in zip(dims, rsu):
                s, g = obs["res"][units][d]
                if (s == "ok") != ("ok" in r):
                    dis.append(f"angle along {d}: impl {s} vs model {'ok' if 'ok' in r else r}")
                    continue
                if s != "ok":
                    continue
                cmp_mesh(f"angle mesh along {d}", g.mesh, r["ok"]["mesh"], dis, rel=1e-12 if phys else 0)
                mq = [F(row[0]) for row in r["ok"]["data"]]
                md = np.array([float(x) for x in mq])
                ga = np.asarray(g.array, dtype=float).reshape(-1)
                if ga.shape != md.shape:
                    dis.append(f"angle along {d}: {ga.size} values vs model {md.size}")
                    continue
                gr = np.radians(ga) if deg else ga
                gc = np.cos(gr)
                want = np.array([acos_q(x) for x in mq])   # accurate next to 0 and pi (from 1 -+ dot, exact)
                if not (np.all(np.abs(gc - md) <= max(1e-9, E)) and np.all(np.abs(gr - want) <= angle_tol(want, eps))):
                    j = int(np.argmax(np.abs(gr - want) / angle_tol(want, eps)))
                    dis.append(f"angle along {d} [{units}]: flat cell {j} impl {gr[j]!r} rad (cos {gc[j]!r}) vs model {want[j]!r} rad (clipped dot {md[j]!r})")
            s, gm = obs["max"][units]
            r = rsu[-1]
            if (s == "ok") != ("ok" in r):
                dis.append(f"max angle: impl {s} vs model {'ok' if 'ok' in r else r}")
            elif s == "ok":
                cmp_mesh("max angle mesh", gm.mesh, r["ok"]["mesh"], dis)
                ga = np.asarray(gm.array, dtype=float).reshape(-1)
                for j, row in enumerate(r["ok"]["dots"]):
                    ds = [F(x) for x in row if x is not None]
                    want = max([0.0] + [acos_q(x) for x in ds])
                    cw = min([1.0] + [float(x) for x in ds])
                    gj = math.radians(ga[j]) if deg else ga[j]
                    if abs(gj - want) > float(angle_tol(want, eps)) or abs(math.cos(gj) - cw) > max(1e-9, E):
                        dis.append(f"max angle [{units}]: flat cell {j} impl {gj!r} rad vs model {want!r} rad")
                        break
    elif k == "bps" and case["model"]:
        dims = obs["field"]["mesh"]["region"]["dims"]
        for d, r in zip(dims, rs):
            s, res = obs["res"][d]
            if (s == "ok") != ("ok" in r):
                dis.append(f"count_bps along {d}: impl {s} vs model {'ok' if 'ok' in r else r}")
                continue
            if s != "ok":
                continue
            m = r["ok"]
            x = [float(F(v)) / (4 * math.pi) for v in m["fint"]]
            # boundary comparator: round() may go either way within 1e-7 of a half-integer
            if any(abs(abs(v - math.floor(v)) - 0.5) < 1e-7 for v in x):
                continue
            pat = ast.literal_eval(res[f"bp_pattern_{d}"])
            if [[int(a), int(b)] for a, b in pat] != [[int(a), int(b)] for a, b in m["pattern"]]:
                dis.append(f"count_bps along {d}: pattern impl {pat} vs model {m['pattern']}")
            if (float(res["bp_number"]), float(res["bp_number_hh"]), float(res["bp_number_tt"])) != (float(m["total"]), float(m["hh"]), float(m["tt"])):
                dis.append(f"count_bps along {d}: total/hh/tt impl {res['bp_number']}/{res['bp_number_hh']}/{res['bp_number_tt']} vs model {m['total']}/{m['hh']}/{m['tt']}")
    elif k == "dtensor" and "real" in obs:
        nn = [2 * x - 1 for x in case["n"]]
        cells = pick_cells(case, nn)
        for which, r, real in [("demag_tensor", rs[0], obs["real"])] + ([("_demag_tensor_field_based", rs[1], obs["real_fb"])] if len(rs) > 1 else []):
            if "ok" not in r:
                dis.append(f"{which}: impl ok vs model {r}")
                continue
            tm = r["ok"]["mesh"]
            if tm["n"] != nn:
                dis.append(f"{which}: tensor mesh n model {tm['n']} vs {nn}")
            n, cell = case["n"], case["cell"]
            for a in range(3):
                lo = -Fraction(cell[a]) * (n[a] - 1) - Fraction(cell[a]) / 2
                if F(tm["region"]["pmin"][a]) != lo or F(tm["region"]["pmax"][a]) != -lo:
                    dis.append(f"{which}: tensor mesh axis {a} model [{tm['region']['pmin'][a]}, {tm['region']['pmax'][a]}] vs [{lo}, {-lo}]")
            for c, comps in zip(cells, r["ok"]["cells"]):
                for comp, ts in enumerate(comps):
                    mv = eval_terms(ts)
                    iv = float(real[tuple(c)][comp])
                    if abs(mv - iv) > 1e-9:
                        dis.append(f"{which} n={n} cell={cell}: real-space component {comp} at tensor cell {c}: impl {iv!r} vs model {mv!r}")
                        break
                else:
                    continue
                break
    elif k == "dfield":
        r = rs[0]
        if "ok" not in r:
            return [f"demag_field: impl ok vs model {r}"]
        H = obs["res"]
        cmp_mesh("demag_field mesh", H.mesh, r["ok"]["mesh"], dis)
        cmp_values("demag_field", H.array, r["ok"]["data"], obs["scale"], dis)
        if len(rs) > 1:
            r2 = rs[1]
            if "ok" not in r2:
                return dis + [f"demag_field (FFT-shaped model): impl ok vs model {r2}"]
            cmp_mesh("demag_field (FFT-shaped model) mesh", H.mesh, r2["ok"]["mesh"], dis)
            vals = eval_roots(r2["ok"]["ns"], r2["ok"]["coef"])
            flat = np.asarray(H.array, dtype=float).reshape(len(vals), -1)
            for kc, row in enumerate(vals):
                for c, z in enumerate(row):
                    if not near(flat[kc, c], z.real, obs["scale"], 1e-8) or abs(z.imag) > 1e-8 * obs["scale"]:
                        dis.append(f"demag_field (FFT-shaped model): value at flat cell {kc} comp {c}: impl {flat[kc, c]!r} vs model {z!r}")
                        return dis
    elif k == "refuse":
        sts = obs["st"]
        names = ["tcd_c", "tcd_b", "emergent", "angle", "angle_dir", "angle_units", "bps", "bps_dir"]
        for nm, r in zip(names, rs):
            if (sts[nm] == "ok") != ("ok" in r):
                dis.append(f"{nm}: impl {sts[nm]} vs model {'ok' if 'ok' in r else r}")
    return dis


def nontrivial(case, obs):
    return bool(obs.get("nontrivial"))


def known(case, text):
    # D121 (open): all vectors at or below 1e-8 count as zero vectors (Field.orientation's absolute threshold), so the
    # tools are not unchanged by rescaling to such lengths; by input class: length regime 'tiny'
    if case.get("lens") == "tiny" and case.get("kind") in ("angle", "tcd"):
        return "D121"
    return None


def search(case, rng):
    for _ in range(40):
        k = case["kind"]
        c = dict(case)
        c["sub"] = rng.getrandbits(32)
        if k in ("tcd", "emergent", "angle") and "mesh" in case:
            nd = len(case["mesh"]["n"])
            c["mesh"] = gen_mesh(rng, nd, nmin=2, nmax=5, max_cells=36, names={1: None, 2: NAMES2, 3: NAMES3}[nd])
        elif k in ("dtensor", "dfield", "cuboid"):
            c["cell"] = [float(x) for x in gen_cells(rng, 3)]
            if case.get("cube"):
                c["cell"] = [c["cell"][0]] * 3
        yield c
