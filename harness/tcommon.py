"""Shared by C12 / C13 / C14: building objects, applying transformation ops to the real
code, snapshots, invariants, op generators."""
import copy
from fractions import Fraction

import json
import numpy as np

from . import fieldio
from .core import Q, Qs, F

import discretisedfield as df


# ------------------------------------------------------------------ snapshots
def snap_region(r):
    return dict(pmin=[float(x) for x in r.pmin], pmax=[float(x) for x in r.pmax], dims=list(r.dims),
                units=list(r.units), tol=float(r.tolerance_factor))


def snap_mesh(m):
    return dict(region=snap_region(m.region), n=[int(k) for k in m.n], bc=m.bc,
                subs=[(k, snap_region(s)) for k, s in m.subregions.items()])


def snap_field(f):
    return dict(mesh=snap_mesh(f.mesh), shape=list(f.array.shape), data=f.array.tobytes(), dtype=str(f.array.dtype),
                valid=np.asarray(f.valid).tobytes(), vshape=list(np.asarray(f.valid).shape), vdtype=str(np.asarray(f.valid).dtype),
                vdims=(list(f.vdims) if f.vdims is not None else None), vmap=dict(f.vdim_mapping), unit=f.unit, nvdim=f.nvdim)


def snap(o):
    if isinstance(o, df.Field):
        return snap_field(o)
    if isinstance(o, df.Mesh):
        return snap_mesh(o)
    return snap_region(o)


def to_json(o):
    if isinstance(o, df.Field):
        return fieldio.field_json(o)
    if isinstance(o, df.Mesh):
        return fieldio.mesh_json(o)
    return fieldio.region_json(o)


def region_of(o):
    if isinstance(o, df.Field):
        return o.mesh.region
    if isinstance(o, df.Mesh):
        return o.region
    return o


# ------------------------------------------------------------------ independence probe
def disturb(o):
    """change a *returned* object in place in every public way (geometry through the Mesh methods and through the
    Region objects themselves, subregions, units, array entries, validity entries, mapping dict).  Used as
        before = snap(x); y = x.op(...); disturb(y); assert snap(x) == before
    A result that shares any mutable part with its operand (or with an earlier result) gives itself away."""
    def quiet(fn):
        try:
            fn()
        except Exception:
            pass
    if isinstance(o, df.Field):
        quiet(lambda: o.array.__setitem__(Ellipsis, o.array * 0 + 7))
        quiet(lambda: o.valid.__setitem__(Ellipsis, ~o.valid))
        quiet(lambda: o.vdim_mapping.clear())
        disturb(o.mesh)
        return
    if isinstance(o, df.Mesh):
        v = [3.0 * float(e) + 1.0 for e in o.region.edges]
        quiet(lambda: o.translate(v, inplace=True))
        for s in list(o.subregions.values()):
            disturb(s)
        quiet(lambda: o.n.__setitem__(Ellipsis, o.n + 1))
        disturb(o.region)
        return
    v = [5.0 * float(e) + 2.0 for e in o.edges]
    quiet(lambda: o.translate(v, inplace=True))
    quiet(lambda: o.scale(3.0, inplace=True))
    quiet(lambda: setattr(o, "units", ["disturbed"] * o.ndim))
    quiet(lambda: o.pmin.__setitem__(Ellipsis, o.pmin - 11))


# ------------------------------------------------------------------ invariants (C13 / C14)
def check_inv(o, fail, where=""):
    """the invariants C13 names, on a live object; `fail(text)` on violation"""
    r = region_of(o)
    nd = len(r.pmin)
    if not (len(r.pmax) == nd and len(r.dims) == nd and len(r.units) == nd and nd >= 1):
        fail(f"{where}: corner/dims/units lengths differ: {snap_region(r)}")
        return
    if not all(a < b for a, b in zip(r.pmin, r.pmax)):
        fail(f"{where}: pmin < pmax violated: pmin={list(map(float, r.pmin))} pmax={list(map(float, r.pmax))}")
    if len(set(r.dims)) != nd:
        fail(f"{where}: dims not unique {r.dims}")
    m = o.mesh if isinstance(o, df.Field) else (o if isinstance(o, df.Mesh) else None)
    if m is not None:
        n = np.asarray(m.n)
        if n.shape != (nd,) or not np.issubdtype(n.dtype, np.integer) or not (n > 0).all():
            fail(f"{where}: cell counts {m.n!r} are not positive integers, one per direction")
            return
        # relative 1e-12, plus the granularity of subnormal numbers (a cell size below 2.2e-308 is quantised in steps of
        # 4.9e-324: the property's length scales end at 1e-12, the extreme stream goes down to 1e-320)
        if not np.all(np.abs(np.asarray(m.cell) * n - r.edges) <= 1e-12 * np.abs(r.edges) + 5e-324 * (n + 1)):
            fail(f"{where}: cell*n != edges")
        check_subinv(m, fail, where)
    if isinstance(o, df.Field):
        if tuple(o.array.shape) != (*[int(k) for k in m.n], o.nvdim):
            fail(f"{where}: array shape {o.array.shape} but n={list(map(int, m.n))} nvdim={o.nvdim}")
        v = np.asarray(o.valid)
        if tuple(v.shape) != tuple(int(k) for k in m.n) or v.dtype != np.bool_:
            fail(f"{where}: validity shape {v.shape} dtype {v.dtype} but n={list(map(int, m.n))}")


def check_subinv(m, fail, where="", slack=Fraction(1, 10**6)):
    """C14: every subregion inside, whole cells, on the lattice, mesh's dims/units (exact Fractions + slack in cells)"""
    r = m.region
    cell = [Fraction(float(b)) - Fraction(float(a)) for a, b in zip(r.pmin, r.pmax)]
    cell = [e / int(k) for e, k in zip(cell, m.n)]
    for name, s in m.subregions.items():
        if tuple(s.dims) != tuple(r.dims) or tuple(s.units) != tuple(r.units):
            fail(f"{where}: subregion {name} has dims/units {s.dims}/{s.units}, mesh has {r.dims}/{r.units}")
        for ax in range(len(cell)):
            lo, hi = Fraction(float(s.pmin[ax])), Fraction(float(s.pmax[ax]))
            a, b = Fraction(float(r.pmin[ax])), Fraction(float(r.pmax[ax]))
            c = cell[ax]
            if lo < a - slack * c or hi > b + slack * c:
                fail(f"{where}: subregion {name} leaves the mesh region along axis {ax}: [{float(lo)}, {float(hi)}] vs [{float(a)}, {float(b)}]")
                break
            off = (lo - a) / c
            size = (hi - lo) / c
            if abs(off - round(off)) > slack or abs(size - round(size)) > slack or round(size) < 1:
                fail(f"{where}: subregion {name} is not on the cell lattice along axis {ax}: offset {float(off)} cells, size {float(size)} cells")
                break


def clone(o):
    """independent equal object (copy.deepcopy of a Field recurses in Field.__getattr__)"""
    if isinstance(o, df.Field):
        return df.Field(clone(o.mesh), nvdim=o.nvdim, value=np.array(o.array, copy=True),
                        vdims=(list(o.vdims) if o.vdims is not None else None), unit=o.unit,
                        valid=np.array(o.valid, copy=True), vdim_mapping=dict(o.vdim_mapping), dtype=o.array.dtype)
    if isinstance(o, df.Mesh):
        m = df.Mesh(region=clone(o.region), n=[int(k) for k in o.n], bc=o.bc)
        subs = {k: clone(s) for k, s in o.subregions.items()}
        if subs:
            try:
                m.subregions = subs          # public setter
                ok = all(np.array_equal(m.subregions[k].pmin, s.pmin) and np.array_equal(m.subregions[k].pmax, s.pmax)
                         for k, s in subs.items()) and list(m.subregions) == list(subs)
            except Exception:
                ok = False
            if not ok:
                # exact copy where the setter's absolute tolerance refuses (scale dependent, D18): bypass it; when the
                # private slot has been renamed the case says nothing about the property
                try:
                    m._subregions = subs
                except AttributeError:
                    from .core import SkipCase
                    raise SkipCase("Mesh._subregions is not available for an exact copy") from None
        return m
    return df.Region(p1=np.array(o.pmin, copy=True), p2=np.array(o.pmax, copy=True), dims=list(o.dims),
                     units=list(o.units), tolerance_factor=o.tolerance_factor)


# ------------------------------------------------------------------ building
def build_object(spec):
    kind = spec["kind"]
    def corners(a, b, flag):
        if flag and all(float(x).is_integer() for x in list(a) + list(b)):
            return [int(x) for x in a], [int(x) for x in b]
        return a, b
    if kind == "region":
        kw = {}
        if spec.get("dims"):
            kw["dims"] = spec["dims"]
        if spec.get("units"):
            kw["units"] = spec["units"]
        p1, p2 = corners(spec["p1"], spec["p2"], spec.get("intcorners"))
        return df.Region(p1=p1, p2=p2, **kw)
    subs = {}
    for k, a, b in spec.get("subs", []):
        a, b = corners(a, b, spec["mesh"].get("intcorners"))
        kw = {}
        if spec.get("alias"):                    # subregions that already carry the mesh region's names and units
            if spec["mesh"].get("dims"):
                kw["dims"] = spec["mesh"]["dims"]
            if spec["mesh"].get("units"):
                kw["units"] = spec["mesh"]["units"]
        subs[k] = df.Region(p1=a, p2=b, **kw)
    alias = spec.get("alias")
    if alias == "twonames" and subs:
        subs["zdup"] = subs[next(iter(subs))]        # ONE Region object registered under two names
    mesh = fieldio.build_mesh(spec["mesh"], subregions=subs or None)
    if alias == "ownregion":
        mesh.subregions = {**mesh.subregions, "own": mesh.region}     # the mesh's own Region object as a subregion
    elif alias == "shareddict" and subs:
        # the caller's dict of Region objects is used for a second mesh, which is then moved in place: the first
        # mesh holds its own subregions, not the caller's objects
        other = df.Mesh(region=df.Region(p1=mesh.region.pmin, p2=mesh.region.pmax, dims=mesh.region.dims, units=mesh.region.units),
                        n=mesh.n, subregions=subs)
        other.translate(mesh.region.edges, inplace=True)
        other.scale(2, inplace=True)
        for r in subs.values():
            r.translate(mesh.region.edges * 3, inplace=True)
    if kind == "mesh":
        return mesh
    nv = spec["nvdim"]
    arr = np.array(spec["data"], dtype=float).reshape((*mesh.n, nv)) * 2.0 ** spec.get("vexp", 0)
    valid = np.array(spec["valid"], dtype=bool).reshape(tuple(mesh.n))
    kw = {}
    if spec.get("vdims"):
        kw["vdims"] = spec["vdims"]
    if spec.get("vmap") is not None:
        kw["vdim_mapping"] = dict(spec["vmap"])
    if spec.get("dtype"):
        # integer / single-precision / complex storage of the same (small integer) numbers
        arr = arr.astype(spec["dtype"])
        kw["dtype"] = np.dtype(spec["dtype"])
    return df.Field(mesh, nvdim=nv, value=arr, valid=valid, unit=spec.get("unit"), **kw)


def gen_subs(rng, mspec, count):
    """random cell-aligned boxes (possibly overlapping / touching) as (name, p1, p2) with exact dyadic corners"""
    out = []
    n = mspec["n"]
    pmin = [Fraction(x) for x in mspec["p1"]]
    pmax = [Fraction(x) for x in mspec["p2"]]
    cell = [(b - a) / k for a, b, k in zip(pmin, pmax, n)]
    for j in range(count):
        lo = [rng.randint(0, k - 1) for k in n]
        hi = [rng.randint(l + 1, k) for l, k in zip(lo, n)]
        out.append((f"s{j}", [float(a + l * c) for a, l, c in zip(pmin, lo, cell)],
                    [float(a + h * c) for a, h, c in zip(pmin, hi, cell)]))
    return out


def gen_object_spec(rng, kind, ndim=None, with_subs=True, units=True):
    if kind == "region":
        ms = fieldio.gen_mesh_spec(rng, ndim=ndim)
        spec = dict(kind="region", p1=ms["p1"], p2=ms["p2"], dims=ms["dims"], intcorners=ms.get("intcorners", False))
    else:
        ms = fieldio.gen_mesh_spec(rng, ndim=ndim, max_cells=60, nmax=5, bc_prob=0.4)
        spec = dict(kind=kind, mesh=ms)
        if with_subs and rng.random() < 0.7:
            spec["subs"] = gen_subs(rng, ms, rng.randint(1, 3))
            if rng.random() < 0.3:
                spec["alias"] = rng.choice(["twonames", "ownregion", "shareddict"])
    nd = len(ms["p1"])
    if units and rng.random() < 0.6:
        u = [rng.choice(["m", "nm", "s", "T", "rad", "um"]) for _ in range(nd)]
        if kind == "region":
            spec["units"] = u
        else:
            ms["units"] = u
    if kind == "field":
        nv = rng.choice([1, 1, 2, 3, 3, 4])
        ncell = int(np.prod(ms["n"]))
        spec["nvdim"] = nv
        spec["data"] = [rng.randint(-9, 9) for _ in range(ncell * nv)]
        spec["vexp"] = rng.choice([0, 0, 0, -3, -30, -45, -60, 40])      # values = ints * 2**vexp: magnitudes 1e-18 ... 1e13, still exact
        if spec["vexp"] == 0 and rng.random() < 0.4:
            spec["dtype"] = rng.choice(["int64", "int32", "int8", "float32", "complex128"])   # small integers: exact in each
        spec["valid"] = [rng.random() < 0.8 for _ in range(ncell)]
        spec["unit"] = rng.choice([None, "A/m"])
        dims = ms["dims"] or (["x", "y", "z"][:nd] if nd <= 3 else [f"x{i}" for i in range(nd)])
        if nv > 1:
            labels = rng.choice([None, [f"c{i}" for i in range(nv)]])
            vd = labels or (["x", "y", "z"][:nv] if nv <= 3 else [f"v{i}" for i in range(nv)])
            spec["vdims"] = labels
            mode = rng.choice(["perm", "perm", "partial", "none", "default", "double"])
            if mode == "default":
                spec["vmap"] = None
            elif mode == "none":
                spec["vmap"] = []
            else:
                tgt = rng.sample(dims, min(len(dims), nv))
                if mode == "partial" and len(tgt) > 1:
                    tgt = tgt[:-1]
                order = rng.sample(vd, len(vd))
                # every label is a key; labels without a spatial axis map to None
                spec["vmap"] = [[lab, (tgt[i] if i < len(tgt) else None)] for i, lab in enumerate(order)]
                if mode == "double" and len(order) > len(tgt) >= 1:
                    # two labels mapped onto the same axis (the reversed mapping keeps the LAST of them)
                    free = [e for e in spec["vmap"] if e[1] is None]
                    rng.choice(free)[1] = rng.choice(tgt)
                elif mode == "double" and len(order) >= 2:
                    spec["vmap"][rng.randrange(1, len(order))][1] = spec["vmap"][0][1]
    return spec


def dims_of(spec):
    ms = spec if spec["kind"] == "region" else spec["mesh"]
    nd = len(ms["p1"])
    return ms.get("dims") or (["x", "y", "z"][:nd] if nd <= 3 else [f"x{i}" for i in range(nd)])


def gen_op(rng, spec, allow_bad=True, far=True, rot_ref_small=False):
    nd = len(spec["p1"] if spec["kind"] == "region" else spec["mesh"]["p1"])
    dims = dims_of(spec)
    t = rng.choice(["translate", "scale", "scale", "rotate90", "rotate90"] if nd > 1 else ["translate", "scale"])
    inplace = rng.random() < 0.5
    if spec["kind"] == "field" and t != "rotate90":
        inplace = True  # taken on field.mesh in place (Field has no translate/scale)

    def ref():
        c = rng.random()
        if c < 0.4:
            return None
        if c < 0.48:
            return [0.0] * nd                      # the origin itself (a falsy number when passed as a bare scalar in 1-d)
        if far and c > 0.85:
            return [float(rng.choice([-1, 1]) * 2 ** 20 + rng.randint(-8, 8)) for _ in range(nd)]
        return [float(Fraction(rng.randint(-64, 64), 4)) for _ in range(nd)]

    form = rng.choice(["list", "list", "tuple", "ndarray", "ndarray", "scalar" if nd == 1 else "tuple", "intlist"])
    if t == "translate":
        v = [float(Fraction(rng.randint(-80, 80), 8)) for _ in range(nd)]
        if allow_bad and rng.random() < 0.08:
            v = v + [1.0]
        return dict(t="translate", v=v, inplace=inplace, form=form)
    if t == "scale":
        choices = [2, 0.5, -1, -2, 4, 0.25, 3, -0.5, 1, 8]
        if spec.get("subs"):
            choices = [2, 0.5, -1, -2, -0.5, 1, 0.5, 0.25]  # keep magnitudes moderate (alignment tolerance is absolute, D18)
        if allow_bad:
            choices += [0]
        if rng.random() < 0.35:
            f = [float(rng.choice(choices)) for _ in range(nd)]
            if allow_bad and rng.random() < 0.1:
                f = f[:-1] if len(f) > 1 else f + [2.0]
        else:
            f = float(rng.choice(choices))
        r = ref()
        if allow_bad and r is not None and rng.random() < 0.05:
            r = r + [0.0]
        return dict(t="scale", f=f, ref=r, inplace=inplace, form=form)
    a1, a2 = rng.sample(dims, 2)
    if allow_bad and rng.random() < 0.06:
        a2 = a1
    if allow_bad and rng.random() < 0.04:
        a2 = "nope"
    r = ref()
    if rot_ref_small and r is not None:
        r = [float(Fraction(rng.randint(-64, 64), 4)) for _ in range(nd)]
    op = dict(t="rotate90", ax1=a1, ax2=a2, k=rng.randint(-6, 6), ref=r, inplace=inplace, form=form)
    if allow_bad and rng.random() < 0.08:
        # arguments only the innermost call refuses: they must be refused in both forms with nothing changed
        op["badarg"] = rng.choice(["k_float", "k_half", "ref_len", "ref_str", "ref_scalar", "ax_case", "ax_case"])
        if op["badarg"] == "ax_case" and (a1.swapcase() in dims or a1.swapcase() == a1):
            del op["badarg"]                  # the other spelling names an axis too (or there is none): not malformed
    return op


def rescale_case(spec, ops, e):
    """the same object and history with every length multiplied by 2**e (exact in binary64): meshes of nanometre
    cells whose far translations stay far below the ABSOLUTE 1e-12 of the alignment test (D18)"""
    s = 2.0 ** e if isinstance(e, int) else float(e)
    sc = lambda xs: None if xs is None else [x * s for x in xs]
    spec = json.loads(json.dumps(spec))
    tgt = spec if spec["kind"] == "region" else spec["mesh"]
    tgt["p1"], tgt["p2"] = sc(tgt["p1"]), sc(tgt["p2"])
    tgt["intcorners"] = False
    if spec.get("subs"):
        spec["subs"] = [[k, sc(a), sc(b)] for k, a, b in spec["subs"]]
    out = []
    for op in ops:
        op = dict(op)
        if op["t"] == "translate":
            op["v"] = sc(op["v"])
        else:
            op["ref"] = sc(op.get("ref"))
        if op.get("form") == "intlist":
            op["form"] = "list"
        out.append(op)
    return spec, out


def _as_form(x, form):
    """the same numbers in the form the caller would pass them: list / tuple / float ndarray / bare scalar (1-d) / ints"""
    if x is None or not isinstance(x, list):
        return x
    if form == "tuple":
        return tuple(x)
    if form == "ndarray":
        return np.array(x, dtype=float)
    if form == "scalar" and len(x) == 1:
        return x[0] if not float(x[0]).is_integer() else (int(x[0]) if x[0] == 0 else x[0])
    if form == "intlist" and all(float(v).is_integer() for v in x):
        return [int(v) for v in x]
    return list(x)


ARG_CHANGED = []      # filled by apply_op when a call changed an array that was handed to it as an argument


def apply_op(o, op, inplace=None):
    """call the real code; returns the returned object (raises on rejection)"""
    ip = op["inplace"] if inplace is None else inplace
    form = op.get("form", "list")
    if isinstance(o, df.Field) and op["t"] in ("translate", "scale"):
        # fields have no translate/scale of their own: the step is taken on the field's mesh, in place
        apply_op(o.mesh, op, inplace=True)
        return o
    args = {}
    try:
        if op["t"] == "translate":
            args["v"] = _as_form(op["v"], form)
            return o.translate(args["v"], inplace=ip)
        if op["t"] == "scale":
            args["f"], args["ref"] = _as_form(op["f"], form), _as_form(op["ref"], form)
            return o.scale(args["f"], reference_point=args["ref"], inplace=ip)
        k, ref = op["k"], _as_form(op["ref"], form)
        bad = op.get("badarg")
        if bad == "k_float":
            k = float(k)
        elif bad == "k_half":
            k = k + 0.5
        elif bad == "ref_len":
            ref = list(op["ref"] or [0.0] * len(region_of(o).pmin)) + [1.0]
        elif bad == "ref_str":
            ref = ["a"] * len(region_of(o).pmin)
        elif bad == "ref_scalar" and len(region_of(o).pmin) > 1:
            ref = 1.5
        args["ref"] = ref
        if bad == "ax_case":      # an axis name in the wrong case is not an axis name
            return o.rotate90(op["ax1"].swapcase(), op["ax2"], k=k, reference_point=ref, inplace=ip)
        return o.rotate90(op["ax1"], op["ax2"], k=k, reference_point=ref, inplace=ip)
    finally:
        for key, a in args.items():
            if isinstance(a, np.ndarray) and isinstance(op.get("ref" if key == "ref" else key), list):
                want = op["ref" if key == "ref" else key]
                if a.shape != (len(want),) or any(float(x) != float(y) for x, y in zip(a, want)):
                    ARG_CHANGED.append(f"{op['t']}: the array passed as {key} was changed by the call: {want} -> {a.tolist()}")


def op_json(op):
    if op.get("badarg") and not (op["badarg"] == "ref_scalar" and op.get("_nd", 2) == 1):
        return dict(t="translate", v=[], inplace=bool(op["inplace"]))     # refused by the model as well (wrong length)
    j = dict(t=op["t"], inplace=bool(op["inplace"]))
    if op["t"] == "translate":
        j["v"] = Qs(op["v"])
    elif op["t"] == "scale":
        j["f"] = Qs(op["f"]) if isinstance(op["f"], list) else Q(op["f"])
        j["ref"] = None if op["ref"] is None else Qs(op["ref"])
    else:
        j.update(ax1=op["ax1"], ax2=op["ax2"], k=int(op["k"]), ref=None if op["ref"] is None else Qs(op["ref"]))
    return j


# ------------------------------------------------------------------ comparison with model JSON
def cmp_region(name, r, mj, dis, rel=2**-40):
    """real Region vs model region JSON, tolerance relative to the coordinate magnitude"""
    got = fieldio.region_json(r)
    scale = max([abs(float(F(x))) for x in mj["pmin"] + mj["pmax"]] + [1e-300])
    for key in ("pmin", "pmax"):
        a, b = got[key], mj[key]
        if len(a) != len(b) or any(abs(F(x) - F(y)) > Fraction(rel) * Fraction(scale) for x, y in zip(a, b)):
            dis.append(f"{name}: {key} impl {[float(F(x)) for x in a]} vs model {[float(F(x)) for x in b]}")
            return
    for key in ("dims", "units"):
        if got[key] != mj[key]:
            dis.append(f"{name}: {key} impl {got[key]} vs model {mj[key]}")


def cmp_mesh(name, m, mj, dis):
    cmp_region(name + ".region", m.region, mj["region"], dis)
    if [int(k) for k in m.n] != mj["n"]:
        dis.append(f"{name}: n impl {[int(k) for k in m.n]} vs model {mj['n']}")
    if m.bc != mj["bc"]:
        dis.append(f"{name}: bc impl {m.bc!r} vs model {mj['bc']!r}")
    names = list(m.subregions.keys())
    if names != [s["name"] for s in mj["subs"]]:
        dis.append(f"{name}: subregion names impl {names} vs model {[s['name'] for s in mj['subs']]}")
        return
    for k, s in zip(names, mj["subs"]):
        cmp_region(f"{name}.subregions[{k}]", m.subregions[k], s, dis)


def cmp_obj(name, o, mj, dis):
    if isinstance(o, df.Field):
        cmp_mesh(name + ".mesh", o.mesh, mj["mesh"], dis)
        fieldio.cmp_field(name, o, mj, dis, exact=False, rel=2**-36)
    elif isinstance(o, df.Mesh):
        cmp_mesh(name, o, mj, dis)
    else:
        cmp_region(name, o, mj, dis)
