"""Shared by C12 / C13 / C14: building objects, applying transformation ops to the real
code, snapshots, invariants, op generators."""
import copy
from fractions import Fraction

import json
import numpy as np

from . import fieldio
from .core import Q, Qs, F

import discretisedfield as df


# ------------------------------------------------------------------ snapshots
def snap_region(r):
    return dict(pmin=[float(x) for x in r.pmin], pmax=[float(x) for x in r.pmax], dims=list(r.dims),
                units=list(r.units), tol=float(r.tolerance_factor))


def snap_mesh(m):
    return dict(region=snap_region(m.region), n=[int(k) for k in m.n], bc=m.bc,
                subs=[(k, snap_region(s)) for k, s in m.subregions.items()])


def snap_field(f):
    return dict(mesh=snap_mesh(f.mesh), shape=list(f.array.shape), data=f.array.tobytes(), dtype=str(f.array.dtype),
                valid=np.asarray(f.valid).tobytes(), vshape=list(np.asarray(f.valid).shape), vdtype=str(np.asarray(f.valid).dtype),
                vdims=(list(f.vdims) if f.vdims is not None else None), vmap=dict(f.vdim_mapping), unit=f.unit, nvdim=f.nvdim)


def snap(o):
    if isinstance(o, df.Field):
        return snap_field(o)
    if isinstance(o, df.Mesh):
        return snap_mesh(o)
    return snap_region(o)


def to_json(o):
    if isinstance(o, df.Field):
        return fieldio.field_json(o)
    if isinstance(o, df.Mesh):
        return fieldio.mesh_json(o)
    return fieldio.region_json(o)


def region_of(o):
    if isinstance(o, df.Field):
        return o.mesh.region
    if isinstance(o, df.Mesh):
        return o.region
    return o


# ------------------------------------------------------------------ independence probe
def disturb(o):
    """change a *returned* object in place in every public way (geometry through the Mesh methods and through the
    Region objects themselves, subregions, units, array entries, validity entries, mapping dict).  Used as
        before = snap(x); y = x.op(...); disturb(y); assert snap(x) == before
    A result that shares any mutable part with its operand (or with an earlier result) gives itself away."""
    def quiet(fn):
        try:
            fn()
        except Exception:
            pass
    if isinstance(o, df.Field):
        quiet(lambda: o.array.__setitem__(Ellipsis, o.array * 0 + 7))
        quiet(lambda: o.valid.__setitem__(Ellipsis, ~o.valid))
        quiet(lambda: o.vdim_mapping.clear())
        disturb(o.mesh)
        return
    if isinstance(o, df.Mesh):
        v = [3.0 * float(e) + 1.0 for e in o.region.edges]
        quiet(lambda: o.translate(v, inplace=True))
        for s in list(o.subregions.values()):
            disturb(s)
        quiet(lambda: o.n.__setitem__(Ellipsis, o.n + 1))
        disturb(o.region)
        return
    v = [5.0 * float(e) + 2.0 for e in o.edges]
    quiet(lambda: o.translate(v, inplace=True))
    quiet(lambda: o.scale(3.0, inplace=True))
    quiet(lambda: setattr(o, "units", ["disturbed"] * o.ndim))
    quiet(lambda: o.pmin.__setitem__(Ellipsis, o.pmin - 11))


# ------------------------------------------------------------------ invariants (C13 / C14)
def check_inv(o, fail, where=""):
    """the invariants C13 names, on a live object; `fail(text)` on violation"""
    r = region_of(o)
    nd = len(r.pmin)
    if not (len(r.pmax) == nd and len(r.dims) == nd and len(r.units) == nd and nd >= 1):
        fail(f"{where}: corner/dims/units lengths differ: {snap_region(r)}")
        return
    if not all(a < b for a, b in zip(r.pmin, r.pmax)):
        fail(f"{where}: pmin < pmax violated: pmin={list(map(float, r.pmin))} pmax={list(map(float, r.pmax))}")
    if len(set(r.dims)) != nd:
        fail(f"{where}: dims not unique {r.dims}")
    m = o.mesh if isinstance(o, df.Field) else (o if isinstance(o, df.Mesh) else None)
    if m is not None:
        n = np.asarray(m.n)
        if n.shape != (nd,) or not np.issubdtype(n.dtype, np.integer) or not (n > 0).all():
            fail(f"{where}: cell counts {m.n!r} are not positive integers, one per direction")
            return
        # relative 1e-12, plus the granularity of subnormal numbers (a cell size below 2.2e-308 is quantised in steps of
        # 4.9e-324: the property's length scales end at 1e-12, the extreme stream goes down to 1e-320)
        if not np.all(np.abs(np.asarray(m.cell) * n - r.edges) <= 1e-12 * np.abs(r.edges) + 5e-324 * (n + 1)):
            fail(f"{where}: cell*n != edges")
        check_subinv(m, fail, where)
    if isinstance(o, df.Field):
        if tuple(o.array.shape) != (*[int(k) for k in m.n], o.nvdim):
            fail(f"{where}: array shape {o.array.shape} but n={list(map(int, m.n))} nvdim={o.nvdim}")
        v = np.asarray(o.valid)
        if tuple(v.shape) != tuple(int(k) for k in m.n) or v.dtype != np.bool_:
            fail(f"{where}: validity shape {v.shape} dtype {v.dtype} but n={list(map(int, m.n))}")


def check_subinv(m, fail, where="", slack=Fraction(1, 10**6)):
    """C14: every subregion inside, whole cells, on the lattice, mesh's dims/units (exact Fractions + slack in cells)"""
    r = m.region
    cell = [Fraction(float(b)) - Fraction(float(a)) for a, b in zip(r.pmin, r.pmax)]
    cell = [e / int(k) for e, k in zip(cell, m.n)]
    for name, s in m.subregions.items():
        if tuple(s.dims) != tuple(r.dims) or tuple(s.units) != tuple(r.units):
            fail(f"{where}: subregion {name} has dims/units {s.dims}/{s.units}, mesh has {r.dims}/{r.units}")
        for ax in range(len(cell)):
            lo, hi = Fraction(float(s.pmin[ax])), Fraction(float(s.pmax[ax]))
            a, b = Fraction(float(r.pmin[ax])), Fraction(float(r.pmax[ax]))
            c = cell[ax]
            if lo < a - slack * c or hi > b + slack * c:
                fail(f"{where}: subregion {name} leaves the mesh region along axis {ax}: [{float(lo)}, {float(hi)}] vs [{float(a)}, {float(b)}]")
                break
            off = (lo - a) / c
            size = (hi - lo) / c
            if abs(off - round(off)) > slack or abs(size - round(size)) > slack or round(size) < 1:
                fail(f"{where}: subregion {name} is not on the cell lattice along axis {ax}: offset {float(off)} cells, size {float(size)} cells")
                break


def clone(o):
    """independent equal object (copy.deepcopy of a Field recurses in Field.__getattr__)"""
    if isinstance(o, df.Field):
        return df.Field(clone(o.mesh), nvdim=o.nvdim, value=np.array(o.array, copy=True),
                        vdims=(list(o.vdims) if o.vdims is not None else None), unit=o.unit,
                        valid=np.array(o.valid, copy=True), vdim_mapping=dict(o.vdim_mapping), dtype=o.array.dtype)
    if isinstance(o, df.Mesh):
        m = df.Mesh(region=clone(o.region), n=[int(k) for k in o.n], bc=o.bc)
        subs = {k: clone(s) for k, s in o.subregions.items()}
        if subs:
            try:
                m.subregions = subs          # public setter
                ok = all(np.array_equal(m.subregions[k].pmin, s.pmin) and np.array_equal(m.subregions[k].pmax, s.pmax)
                         for k, s in subs.items()) and list(m.subregions) == list(subs)
            except Exception:
                ok = False
            if not ok:
                # exact copy where the setter's absolute tolerance refuses (scale dependent, D18): bypass it; when the
                # private slot has been renamed the case says nothing about the property
                try:
                    m._subregions = subs
                except AttributeError:
                    from .core import SkipCase
                    raise SkipCase("Mesh._subregions is not available for an exact copy") from None
        return m
    return df.Region(p1=np.array(o.pmin, copy=True), p2=np.array(o.pmax, copy=True), dims=list(o.dims),
                     units=list(o.units), tolerance_factor=o.tolerance_factor)


# ------------------------------------------------------------------ building
def build_object(spec):
    kind = spec["kind"]
    def corners(a, b, flag):
        if flag and all(float(x).is_integer() for x in list(a) + list(b)):
            return [int(x) for x in a], [int(x) for x in b]
        return a, b
    if kind == "region":
        kw = {}
        if spec.get("dims"):
            kw["dims"] = spec["dims"]
        if spec.get("units"):
            kw["units"] = spec["units"]
        p1, p2 = corners(spec["p1"], spec["p2"], spec.get("intcorners"))
        return df.Region(p1=p1, p2=p2, **kw)
    subs = {}
    for k, a, b in spec.get("subs", []):
        a, b = corners(a, b, spec["mesh"].get("intcorners"))
        kw = {}
        if spec.get("alias"):                    # subregions that already carry the mesh region's names and units
            if spec["mesh"].get("dims"):
                kw["dims"] = spec["mesh"]["dims"]
            if spec["mesh"].get("units"):
                kw["units"] = spec["mesh"]["units"]
        subs[k] = df.Region(p1=a, p2=b, **kw)
    alias = spec.get("alias")
    if alias == "twonames" and subs:
        subs["zdup"] = subs[next(iter(subs))]        # ONE Region object registered under two names
    mesh = fieldio.build_mesh(spec["mesh"], subregions=subs or None)
    if alias == "ownregion":
        mesh.subregions = {**mesh.subregions, "own": mesh.region}     # the mesh's own Region object as a subregion
    elif alias == "shareddict" and subs:
        # the caller's dict of Region objects is used for a second mesh, which is then moved in place: the first
        # mesh holds its own subregions, not the caller's objects
        other = df.Mesh(region=df.Region(p1=mesh.region.pmin, p2=mesh.region.pmax, dims=mesh.region.dims, units=mesh.region.units),
                        n=mesh.n, subregions=subs)
        other.translate(mesh.region.edges, inplace=True)
        other.scale(2, inplace=True)
        for r in subs.values():
            r.translate(mesh.region.edges * 3, inplace=True)
    if kind == "mesh":
        return mesh
    nv = spec["nvdim"]
    arr = np.array(spec["data"], dtype=float).reshape((*mesh.n, nv)) * 2.0 ** spec.get("vexp", 0)
    valid = np.array(spec["valid"], dtype=bool).reshape(tuple(mesh.n))
    kw = {}
    if spec.get("vdims"):
        kw["vdims"] = spec["vdims"]
    if spec.get("vmap") is not None:
        kw["vdim_mapping"] = dict(spec["vmap"])
    if spec.get("dtype"):
        # integer / single-precision / complex storage of the same (small integer) numbers
        arr = arr.astype(spec["dtype"])
        kw["dtype"] = np.dtype(spec["dtype"])
    return df.Field(mesh, nvdim=nv, value=arr, valid=valid, unit=spec.get("unit"), **kw)


def gen_subs(rng, mspec, count):
    """random cell-aligned boxes (possibly overlapping / touching) as (name, p1, p2) with exact dyadic corners"""
    out = []
    n = mspec["n"]
    pmin = [Fraction(x) for x in mspec["p1"]]
    pmax = [Fraction(x) for x in mspec["p2"]]
    cell = [(b - a) / k for a, b, k in zip(pmin, pmax, n)]
    for j in range(count):
        lo = [rng.randint(0, k - 1) for k in n]
        hi = [rng.randint(l + 1, k) for l, k in zip(lo, n)]
        out.append((f"s{j}", [float(a + l * c) for a, l, c in zip(pmin, lo, cell)],
                    [float(a + h * c) for a, h, c in zip(pmin, hi, cell)]))
    return out


def gen_object_spec(rng, kind, ndim=None, with_subs=True, units=True):
    if kind == "region":
        ms = fieldio.gen_mesh_spec(rng, ndim=ndim)
        spec = dict(kind="region", p1=ms["p1"], p2=ms["p2"], dims=ms["dims"], intcorners=ms.get("intcorners", False))
    else:
        ms = fieldio.gen_mesh_spec(rng, ndim=ndim, max_cells=60, nmax=5, bc_prob=0.4)
        spec = dict(kind=kind, mesh=ms)
        if with_subs and rng.random() < 0.7:
            spec["subs"] = gen_subs(rng, ms, rng.randint(1, 3))
            if rng.random() < 0.3:
                spec["alias"] = rng.choice(["twonames", "ownregion", "shareddict"])
    nd = len(ms["p1"])
    if units and rng.random() < 0.6:
        u = [rng.choice(["m", "nm", "s", "T", "rad", "um"]) for _ in range(nd)]
        if kind == "region":
            spec["units"] = u
        else:
            ms["units"] = u
    if kind == "field":
        nv = rng.choice([1, 1, 2, 3, 3, 4])
        ncell = int(np.prod(ms["n"]))
        spec["nvdim"] = nv
        spec["data"] = [rng.randint(-9, 9) for _ in range(ncell * nv)]
        spec["vexp"] = rng.choice([0, 0, 0, -3, -30, -45, -60, 40])      # values = ints * 2**vexp: magnitudes 1e-18 ... 1e13, still exact
        if spec["vexp"] == 0 and rng.random() < 0.4:
            spec["dtype"] = rng.choice(["int64", "int32", "int8", "float32", "complex128"])   # small integers: exact in each
        spec["valid"] = [rng.random() < 0.8 for _ in range(ncell)]
        spec["unit"] = rng.choice([None, "A/m"])
        dims = ms["dims"] or (["x", "y", "z"][:nd] if nd <= 3 else [f"x{i}" for i in range(nd)])
        if nv > 1:
            labels = rng.choice([None, [f"c{i}" for i in range(nv)]])
            vd = labels or (["x", "y", "z"][:nv] if nv <= 3 else [f"v{i}" for i in range(nv)])
            spec["vdims"] = labels
            mode = rng.choice(["perm", "perm", "partial", "none", "default", "double"])
            if mode == "default":
                spec["vmap"] = None
            elif mode == "none":
                spec["vmap"] = []
            else:
                tgt = rng.sample(dims, min(len(dims), nv))
                if mode == "partial" and len(tgt) > 1:
                    tgt = tgt[:-1]
                order = rng.sample(vd, len(vd))
                # every label is a key; labels without a spatial axis map to None
                spec["vmap"] = [[lab, (tgt[i] if i < len(tgt) else None)] for i, lab in enumerate(order)]
                if mode == "double" and len(order) > len(tgt) >= 1:
                    # two labels mapped onto the same axis (the reversed mapping keeps the LAST of them)
                    free = [e for e in spec["vmap"] if e[1] is None]
                    rng.choice(free)[1] = rng.choice(tgt)
                elif mode == "double" and len(order) >= 2:
                    spec["vmap"][rng.randrange(1, len(order))][1] = spec["vmap"][0][1]
    return spec


def dims_of(spec):
    ms = spec if spec["kind"] == "region" else spec["mesh"]
    nd = len(ms["p1"])
    return ms.get("dims") or (["x", "y", "z"][:nd] if nd <= 3 else [f"x{i}" for i in range(nd)])


def gen_op(rng, spec, allow_bad=True, far=True, rot_ref_small=False):
    nd = len(spec["p1"] if spec["kind"] == "region" else spec["mesh"]["p1"])
    dims = dims_of(spec)
    t = rng.choice(["translate", "scale", "scale", "rotate90", "rotate90"] if nd > 1 else ["translate", "scale"])
    inplace = rng.random() < 0.5
    if spec["kind"] == "field" and t != "rotate90":
        inplace = True  # taken on field.mesh in place (Field has no translate/scale)

    def ref():
        c = rng.random()
        if c < 0.4:
            return None
        if c < 0.48:
            return [0.0] * nd                      # the origin itself (a falsy number when passed as a bare scalar in 1-d)
        if far and c > 0.85:
            return [float(rng.choice([-1, 1]) * 2 ** 20 + rng.randint(-8, 8)) for _ in range(nd)]
        return [float(Fraction(rng.randint(-64, 64), 4)) for _ in range(nd)]

    form = rng.choice(["list", "list", "tuple", "ndarray", "ndarray", "scalar" if nd == 1 else "tuple", "intlist"])
    if t == "translate":
        v = [float(Fraction(rng.randint(-80, 80), 8)) for _ in range(nd)]
        if allow_bad and rng.random() < 0.08:
            v = v + [1.0]
        return dict(t="translate", v=v, inplace=inplace, form=form)
    if t == "scale":
        choices = [2, 0.5, -1, -2, 4, 0.25, 3, -0.5, 1, 8]
        if spec.get("subs"):
            choices = [2, 0.5, -1, -2, -0.5, 1, 0.5, 0.25]  # keep magnitudes moderate (alignment tolerance is absolute, D18)
        if allow_bad:
            choices += [0]
        if rng.random() < 0.35:
            f = [float(rng.choice(choices)) for _ in range(nd)]
            if allow_bad and rng.random() < 0.1:
                f = f[:-1] if len(f) > 1 else f + [2.0]
        else:
            f = float(rng.choice(choices))
        r = ref()
        if allow_bad and r is not None and rng.random() < 0.05:
            r = r + [0.0]
        return dict(t="scale", f=f, ref=r, inplace=inplace, form=form)
    a1, a2 = rng.sample(dims, 2)
    if allow_bad and rng.random() < 0.06:
        a2 = a1
    if allow_bad and rng.random() < 0.04:
        a2 = "nope"
    r = ref()
    if rot_ref_small and r is not None:
        r = [float(Fraction(rng.randint(-64, 64), 4)) for _ in range(nd)]
    k = rng.randint(-6, 6)
    if rng.random() < 0.06:
        # many whole turns (finding D131: before repo fix d6b0640f the corner error of Region.rotate90 grew with |k|;
        # the matrix of k quarter turns is now taken from the table of k mod 4)
        k = rng.choice([1002, -1001, 10 ** 6 + 1, -(10 ** 6) - 3, 4 * 10 ** 5, -(4 * 10 ** 5) + 2])
    op = dict(t="rotate90", ax1=a1, ax2=a2, k=k, ref=r, inplace=inplace, form=form)
    if allow_bad and rng.random() < 0.08:
        # arguments only the innermost call refuses: they must be refused in both forms with nothing changed
        op["badarg"] = rng.choice(["k_float", "k_half", "ref_len", "ref_str", "ref_scalar", "ax_case", "ax_case"])
        if op["badarg"] == "ax_case" and (a1.swapcase() in dims or a1.swapcase() == a1):
            del op["badarg"]                  # the other spelling names an axis too (or there is none): not malformed
    return op


def rescale_case(spec, ops, e):
    """the same object and history with every length multiplied by 2**e (exact in binary64): meshes of nanometre
    cells whose far translations stay far below the ABSOLUTE 1e-12 of the alignment test (D18)"""
    s = 2.0 ** e if isinstance(e, int) else float(e)
    sc = lambda xs: None if xs is None else [x * s for x in xs]
    spec = json.loads(json.dumps(spec))
    tgt = spec if spec["kind"] == "region" else spec["mesh"]
    tgt["p1"], tgt["p2"] = sc(tgt["p1"]), sc(tgt["p2"])
    tgt["intcorners"] = False
    if spec.get("subs"):
        spec["subs"] = [[k, sc(a), sc(b)] for k, a, b in spec["subs"]]
    out = []
    for op in ops:
        op = dict(op)
        if op["t"] == "translate":
            op["v"] = sc(op["v"])
        else:
            op["ref"] = sc(op.get("ref"))
        if op.get("form") == "intlist":
            op["form"] = "list"
        out.append(op)
    return spec, out


def _as_form(x, form):
    """the same numbers in the form the caller would pass them: list / tuple / float ndarray / bare scalar (1-d) / ints"""
    if x is None or not isinstance(x, list):
        return x
    if form == "tuple":
        return tuple(x)
    if form == "ndarray":
        return np.array(x, dtype=float)
    if form == "scalar" and len(x) == 1:
        return x[0] if not float(x[0]).is_integer() else (int(x[0]) if x[0] == 0 else x[0])
    if form == "intlist" and all(float(v).is_integer() for v in x):
        return [int(v) for v in x]
    return list(x)


ARG_CHANGED = []      # filled by apply_op when a call changed an array that was handed to it as an argument


def apply_op(o, op, inplace=None):
    """call the real code; returns the returned object (raises on rejection)"""
    ip = op["inplace"] if inplace is None else inplace
    form = op.get("form", "list")
    if isinstance(o, df.Field) and op["t"] in ("translate", "scale"):
        # fields have no translate/scale of their own: the step is taken on the field's mesh, in place
        apply_op(o.mesh, op, inplace=True)
        return o
    args = {}
    try:
        if op["t"] == "translate":
            args["v"] = _as_form(op["v"], form)
            return o.translate(args["v"], inplace=ip)
        if op["t"] == "scale":
            args["f"], args["ref"] = _as_form(op["f"], form), _as_form(op["ref"], form)
            return o.scale(args["f"], reference_point=args["ref"], inplace=ip)
        k, ref = op["k"], _as_form(op["ref"], form)
        bad = op.get("badarg")
        if bad == "k_float":
            k = float(k)
        elif bad == "k_half":
            k = k + 0.5
        elif bad == "ref_len":
            ref = list(op["ref"] or [0.0] * len(region_of(o).pmin)) + [1.0]
        elif bad == "ref_str":
            ref = ["a"] * len(region_of(o).pmin)
        elif bad == "ref_scalar" and len(region_of(o).pmin) > 1:
            ref = 1.5
        args["ref"] = ref
        if bad == "ax_case":      # an axis name in the wrong case is not an axis name
            return o.rotate90(op["ax1"].swapcase(), op["ax2"], k=k, reference_point=ref, inplace=ip)
        return o.rotate90(op["ax1"], op["ax2"], k=k, reference_point=ref, inplace=ip)
    finally:
        for key, a in args.items():
            if isinstance(a, np.ndarray) and isinstance(op.get("ref" if key == "ref" else key), list):
                want = op["ref" if key == "ref" else key]
                if a.shape != (len(want),) or any(float(x) != float(y) for x, y in zip(a, want)):
                    ARG_CHANGED.append(f"{op['t']}: the array passed as {key} was changed by the call: {want} -> {a.tolist()}")


def op_json(op):
    if op.get("badarg") and not (op["badarg"] == "ref_scalar" and op.get("_nd", 2) == 1):
        return dict(t="translate", v=[], inplace=bool(op["inplace"]))     # refused by the model as well (wrong length)
    j = dict(t=op["t"], inplace=bool(op["inplace"]))
    if op["t"] == "translate":
        j["v"] = Qs(op["v"])
    elif op["t"] == "scale":
        j["f"] = Qs(op["f"]) if isinstance(op["f"], list) else Q(op["f"])
        j["ref"] = None if op["ref"] is None else Qs(op["ref"])
    else:
        j.update(ax1=op["ax1"], ax2=op["ax2"], k=int(op["k"]), ref=None if op["ref"] is None else Qs(op["ref"]))
    return j


# ------------------------------------------------------------------ comparison with model JSON
def cmp_region(name, r, mj, dis, rel=2**-40):
    """real Region vs model region JSON, tolerance relative to the coordinate magnitude"""
    got = fieldio.region_json(r)
    scale = max([abs(float(F(x))) for x in mj["pmin"] + mj["pmax"]] + [1e-300])
    for key in ("pmin", "pmax"):
        a, b = got[key], mj[key]
        if len(a) != len(b) or any(abs(F(x) - F(y)) > Fraction(rel) * Fraction(scale) for x, y in zip(a, b)):
            dis.append(f"{name}: {key} impl {[float(F(x)) for x in a]} vs model {[float(F(x)) for x in b]}")
            return
    for key in ("dims", "units"):
        if got[key] != mj[key]:
            dis.append(f"{name}: {key} impl {got[key]} vs model {mj[key]}")


def cmp_mesh(name, m, mj, dis):
    cmp_region(name + ".region", m.region, mj["region"], dis)
    if [int(k) for k in m.n] != mj["n"]:
        dis.append(f"{name}: n impl {[int(k) for k in m.n]} vs model {mj['n']}")
    if m.bc != mj["bc"]:
        dis.append(f"{name}: bc impl {m.bc!r} vs model {mj['bc']!r}")
    names = list(m.subregions.keys())
    if names != [s["name"] for s in mj["subs"]]:
        dis.append(f"{name}: subregion names impl {names} vs model {[s['name'] for s in mj['subs']]}")
        return
    for k, s in zip(names, mj["subs"]):
        cmp_region(f"{name}.subregions[{k}]", m.subregions[k], s, dis)


def cmp_obj(name, o, mj, dis):
    if isinstance(o, df.Field):
        cmp_mesh(name + ".mesh", o.mesh, mj["mesh"], dis)
        fieldio.cmp_field(name, o, mj, dis, exact=False, rel=2**-36)
    elif isinstance(o, df.Mesh):
        cmp_mesh(name, o, mj, dis)
    else:
        cmp_region(name, o, mj, dis)


# ------------------------------------------------------------------ store sessions (round 3): who holds which Region object
# A session is a list of statements; objects are named by the statement that produced them:
#   {"res": k}                       the Region statement k evaluated to
#   {"mesh": k, "part": "region"}    the region of the Mesh statement k evaluated to
#   {"mesh": k, "sub": name}         its subregion `name`
# statements: region / mesh / setsubs / meshop / regionop  (driver op store_session of drv_c13 replays the same list)
class _Unresolvable(Exception):
    pass


def gen_session(rng, undisciplined=False, nd=None):
    """mostly-valid session: caller-made Region objects, one or two meshes built from them (the SAME Region object as
    `region=` of both / the same candidate objects under two names / for two meshes / the mesh's own region as a
    candidate), then in-place and copying mesh steps, in-place steps on the CALLER's objects, re-assignments of
    subregions.  Since repo fix 12c808de a mesh holds a region object of its own, so all of this is judged by the
    oracle.  `undisciplined` sessions also move a mesh's OWN Region objects directly through `mesh.region` /
    `mesh.subregions[name]` (legitimate, but the caller may break that mesh's SubInv: not checked there)."""
    ms = fieldio.gen_mesh_spec(rng, ndim=nd or rng.choice([1, 2, 2, 3]), max_cells=60, nmax=5, bc_prob=0.3)
    ms["intcorners"] = False
    ndim = len(ms["p1"])
    units = [rng.choice(["m", "nm", "s", "T"]) for _ in range(ndim)] if rng.random() < 0.5 else None
    stmts = []
    kinds = []          # expected kind of what each statement evaluates to: "region" / "mesh"

    def add(st, kind):
        stmts.append(st)
        kinds.append(kind)
        return len(stmts) - 1

    def new_region(p1, p2, own_meta=False, tol=None):
        st = dict(t="region", p1=list(p1), p2=list(p2), dims=(ms["dims"] if own_meta else None), units=(units if own_meta else None), tol=tol)
        return add(st, "region")

    def cands(count, shift=None):
        out = []
        for name, a, b in gen_subs(rng, ms, count):
            if shift is not None:
                ax = rng.randrange(ndim)
                c = (ms["p2"][ax] - ms["p1"][ax]) / ms["n"][ax]
                a, b = list(a), list(b)
                a[ax] += shift * c
                b[ax] += shift * c
            out.append([name, {"res": new_region(a, b, tol=rng.choice([None, None, 1e-3, 0.5]))}])
        return out

    r0 = new_region(ms["p1"], ms["p2"], own_meta=True)
    c0 = cands(rng.randint(0, 3))
    if c0 and rng.random() < 0.3:
        c0.append(["zdup", c0[0][1]])                       # ONE Region object under two names
    m0 = add(dict(t="mesh", region={"res": r0}, n=ms["n"], bc=ms["bc"], subs=c0), "mesh")
    meshes = [m0]
    if rng.random() < 0.5:
        if rng.random() < 0.5:
            rb = r0                                          # second mesh on the SAME Region object: each gets its own copy
        else:
            rb = new_region(ms["p1"], ms["p2"], own_meta=True)
        meshes.append(add(dict(t="mesh", region={"res": rb}, n=ms["n"], bc=ms["bc"], subs=list(c0)), "mesh"))   # the same candidate objects
    spec = dict(kind="mesh", mesh=ms, subs=[1] if c0 else None)
    for _ in range(rng.randint(1, 6)):
        c = rng.random()
        mk = rng.choice(meshes)
        if c < 0.45:
            op = gen_op(rng, spec, allow_bad=rng.random() < 0.2, far=False, rot_ref_small=True)
            op.pop("badarg", None)
            k = add(dict(t="meshop", mesh=mk, op=op), "mesh")
            if not op["inplace"]:
                meshes.append(k)
        elif c < 0.6:
            # in-place (or copying) step on one of the CALLER's Region objects
            own = [i for i, (st, kd) in enumerate(zip(stmts, kinds)) if kd == "region" and i != r0 and st["t"] == "region"
                   and not any(s2["t"] == "mesh" and s2["region"].get("res") == i for s2 in stmts)]
            if own:
                op = gen_op(rng, spec, allow_bad=False, far=False, rot_ref_small=True)
                add(dict(t="regionop", obj={"res": rng.choice(own)}, op=op), "region")
        elif c < 0.7:
            # copying step on a Region object held by a mesh: a new object, the mesh does not move
            op = dict(gen_op(rng, spec, allow_bad=False, far=False, rot_ref_small=True), inplace=False)
            add(dict(t="regionop", obj={"mesh": mk, "part": "region"}, op=op), "region")
        elif c < 0.9:
            how = rng.choice(["fresh", "own", "ownregion", "other", "shifted", "empty"])
            if how == "fresh":
                subs = cands(rng.randint(1, 2))
            elif how == "shifted":
                subs = cands(1, shift=rng.choice([0.5, 0.25]))
            elif how == "own":
                subs = [[nm, {"mesh": mk, "sub": nm}] for nm, _ in c0]       # mesh.subregions = dict(mesh.subregions)
            elif how == "ownregion":
                subs = [["own", {"mesh": mk, "part": "region"}]]
            elif how == "other":
                ok = rng.choice(meshes)
                subs = [[nm, {"mesh": ok, "sub": nm}] for nm, _ in c0]       # another mesh's subregion objects as candidates
            else:
                subs = []
            add(dict(t="setsubs", mesh=mk, subs=subs), "mesh")
        elif undisciplined:
            op = dict(gen_op(rng, spec, allow_bad=False, far=False, rot_ref_small=True), inplace=True)
            tgt = {"mesh": mk, "part": "region"} if (rng.random() < 0.5 or not c0) else {"mesh": mk, "sub": c0[0][0]}
            add(dict(t="regionop", obj=tgt, op=op), "region")
        else:
            op = gen_op(rng, spec, allow_bad=False, far=False, rot_ref_small=True)
            k = add(dict(t="meshop", mesh=mk, op=op), "mesh")
            if not op["inplace"]:
                meshes.append(k)
    return dict(stmts=stmts, undisciplined=bool(undisciplined))


def _sess_resolve(results, ref):
    if "res" in ref:
        o = results[ref["res"]]
        if not isinstance(o, df.Region):
            raise _Unresolvable()
        return o
    m = results[ref["mesh"]]
    if not isinstance(m, df.Mesh):
        raise _Unresolvable()
    if "sub" in ref:
        if ref["sub"] not in m.subregions:
            raise _Unresolvable()
        return m.subregions[ref["sub"]]
    return m.region


def _sess_paths(results):
    """every way the caller can name a Region object: (path, object)"""
    out = []
    for k, o in enumerate(results):
        if isinstance(o, df.Region):
            out.append((("res", k), o))
        elif isinstance(o, df.Mesh):
            out.append((("mesh", k, "region"), o.region))
            for nm, sr in o.subregions.items():
                out.append((("mesh", k, "sub", nm), sr))
    return out


def _mesh_footprint(m):
    return [m.region] + list(m.subregions.values())


def run_session(case, fail):
    """execute the session on the real code.  Returns the statements as sent to the model (unresolvable ones replaced
    by `skip`) and, per statement, what it evaluated to, the identity classes and the values of all nameable objects.
    Property-level oracle (disciplined sessions): ownership of Region objects and the frame of in-place steps."""
    results, sent, steps = [], [], []
    disciplined = not case.get("undisciplined")
    for si, st in enumerate(case["stmts"]):
        where = f"statement {si} ({st['t']})"
        before = [(p, o, snap_region(o)) for p, o in _sess_paths(results)]
        mesh_before = [(k, o, [int(x) for x in o.n], o.bc, [(nm, id(sr)) for nm, sr in o.subregions.items()], id(o.region))
                       for k, o in enumerate(results) if isinstance(o, df.Mesh)]
        target = None
        try:
            if st["t"] == "region":
                kw = {}
                if st.get("dims"):
                    kw["dims"] = st["dims"]
                if st.get("units"):
                    kw["units"] = st["units"]
                if st.get("tol") is not None:
                    kw["tolerance_factor"] = st["tol"]
                thunk = lambda: df.Region(p1=st["p1"], p2=st["p2"], **kw)
                args = []
            elif st["t"] == "mesh":
                reg = _sess_resolve(results, st["region"])
                subs = {nm: _sess_resolve(results, r) for nm, r in st["subs"]}
                thunk = lambda: df.Mesh(region=reg, n=st["n"], bc=st.get("bc", ""), subregions=(subs or None))
                args = list(subs.values())
            elif st["t"] == "setsubs":
                target = results[st["mesh"]]
                if not isinstance(target, df.Mesh):
                    raise _Unresolvable()
                subs = {nm: _sess_resolve(results, r) for nm, r in st["subs"]}
                def thunk(target=target, subs=subs):
                    target.subregions = subs
                    return target
                args = list(subs.values())
            elif st["t"] == "meshop":
                target = results[st["mesh"]]
                if not isinstance(target, df.Mesh):
                    raise _Unresolvable()
                thunk = lambda target=target: apply_op(target, st["op"])
                args = []
            else:
                target = _sess_resolve(results, st["obj"])
                thunk = lambda target=target: apply_op(target, st["op"])
                args = []
        except _Unresolvable:
            results.append(None)
            sent.append(dict(t="skip"))
            steps.append(None)
            continue
        arg_snaps = [snap_region(a) for a in args]
        try:
            res = thunk()
        except Exception as e:
            res = None
        results.append(res)
        # ---- what the model is told
        if st["t"] == "region":
            sent.append(dict(t="region", region=fieldio.region_json(res)) if res is not None else dict(t="skip"))
        else:
            j = dict(st)
            if "op" in j:
                j["op"] = op_json(dict(st["op"], _nd=len(region_of(target).pmin)))
            sent.append(j)
        # ---- observation
        paths = _sess_paths(results)
        steps.append(dict(kind=("none" if res is None else "mesh" if isinstance(res, df.Mesh) else "region"),
                          paths=[list(p) for p, _ in paths],
                          ident=[[int(a is b) for _, b in paths] for _, a in paths],
                          vals=[fieldio.region_json(o) for _, o in paths],
                          meshes=[[k, [int(x) for x in o.n], o.bc, list(o.subregions)] for k, o in enumerate(results) if isinstance(o, df.Mesh)],
                          mident=[[int(a is b) for b in results if isinstance(b, df.Mesh)] for a in results if isinstance(a, df.Mesh)]))
        # ---- oracle: ownership and frame
        inplace_mesh = st["t"] == "meshop" and st["op"]["inplace"]
        inplace_reg = st["t"] == "regionop" and st["op"]["inplace"]
        moved = set()
        if res is not None and inplace_mesh:
            moved = {id(o) for o in _mesh_footprint(target)}
        elif res is not None and inplace_reg:
            moved = {id(target)}
        for p, o, sn in before:
            if id(o) not in moved and snap_region(o) != sn:
                what = "a rejected statement" if res is None else "a statement"
                fail(f"{where}: {what} changed the Region object {p} that it does not own: {sn['pmin']}..{sn['pmax']} -> "
                     f"{snap_region(o)['pmin']}..{snap_region(o)['pmax']}")
                break
        for k, o, n0, bc0, subs0, rid0 in mesh_before:
            if o is target and res is not None and st["t"] in ("meshop", "setsubs"):
                continue
            if [int(x) for x in o.n] != n0 or o.bc != bc0 or [(nm, id(sr)) for nm, sr in o.subregions.items()] != subs0 or id(o.region) != rid0:
                fail(f"{where}: changed mesh #{k} (n / bc / the Region objects it holds), which is not its receiver")
                break
        for a, sn in zip(args, arg_snaps):
            if snap_region(a) != sn:
                fail(f"{where}: a Region object passed as a subregion candidate was modified")
        if res is not None and st["t"] in ("mesh", "setsubs"):
            held = list(res.subregions.values())
            if any(h is a for h in held for a in args):
                fail(f"{where}: the mesh stores a Region object it was given as a candidate, not a copy")
        if res is not None and st["t"] == "mesh":
            old = {id(o) for _, o, _ in before}
            if res.region is reg or id(res.region) in old:
                fail(f"{where}: the mesh holds the Region object it was given as region= (or another existing object), not one of its own")
        if st["t"] == "meshop" and res is not None:
            if st["op"]["inplace"] and res is not target:
                fail(f"{where}: the in-place form did not return the mesh itself")
            if not st["op"]["inplace"]:
                old = {id(o) for _, o, _ in before}
                if res is target or any(id(o) in old for o in _mesh_footprint(res)):
                    fail(f"{where}: the mesh returned by the copying form shares a Region object with an existing object")
        live = []
        for o in results:
            if isinstance(o, df.Mesh) and not any(o is q for q in live):
                live.append(o)
        seen = {}
        for mi, mm in enumerate(live):
            for o in _mesh_footprint(mm):
                if id(o) in seen:
                    fail(f"{where}: one Region object is held twice ({'by the same mesh' if seen[id(o)] == mi else 'by two meshes'})")
                    break
                seen[id(o)] = mi
            if disciplined:
                check_subinv(mm, fail, where)
    return dict(sent=sent, steps=steps, nres=sum(r is not None for r in results))


def _sess_cmp_region(name, a, b, dis, mag):
    sc = max([abs(F(x)) for x in b["pmin"] + b["pmax"]] + [mag])
    for key in ("pmin", "pmax"):
        if len(a[key]) != len(b[key]) or any(abs(F(x) - F(y)) > Fraction(1, 2**40) * sc for x, y in zip(a[key], b[key])):
            dis.append(f"{name}: {key} impl {[float(F(x)) for x in a[key]]} vs model {[float(F(x)) for x in b[key]]}")
            return
    for key in ("dims", "units"):
        if a[key] != b[key]:
            dis.append(f"{name}: {key} impl {a[key]} vs model {b[key]}")
    if F(a["tol"]) != F(b["tol"]):
        dis.append(f"{name}: tolerance_factor impl {float(F(a['tol']))} vs model {float(F(b['tol']))}")


def cmp_session(case, obs, resp, dis):
    """model replay (driver op store_session) vs the real session, statement by statement: what the statement evaluated
    to, which names denote the SAME object (`is` vs equal ids), and the value of every nameable Region object"""
    mag = Fraction(1)
    for st in obs["sent"]:
        for key in ("ref", "v"):
            for x in (st.get("op", {}) or {}).get(key) or []:
                mag = max(mag, abs(F(x)))
    mret = []
    for si, (step, mr) in enumerate(zip(obs["steps"], resp)):
        ret = mr["ret"]
        mret.append(ret)
        if step is None:
            continue
        mkind = "none" if ret is None else ("mesh" if "mesh" in ret else "region")
        if step["kind"] != mkind:
            dis.append(f"statement {si} {case['stmts'][si]['t']}: impl evaluated to {step['kind']}, model to {mkind}")
            return
        store = mr["store"]
        ids = []
        for p in step["paths"]:
            r = mret[p[1]]
            if p[0] == "res":
                ids.append(r["reg"] if r and "reg" in r else None)
            else:
                mo = store["meshes"][r["mesh"]] if r and "mesh" in r else None
                if mo is None:
                    ids.append(None)
                elif p[2] == "region":
                    ids.append(mo["region"])
                else:
                    ids.append(dict(map(tuple, mo["subs"])).get(p[3]))
        if any(i is None for i in ids):
            dis.append(f"statement {si}: the model cannot name {[p for p, i in zip(step['paths'], ids) if i is None]}")
            return
        for a in range(len(ids)):
            for b in range(a):
                if bool(step["ident"][a][b]) != (ids[a] == ids[b]):
                    dis.append(f"statement {si}: {step['paths'][a]} and {step['paths'][b]} are "
                               f"{'the same object' if step['ident'][a][b] else 'different objects'} in the implementation, "
                               f"{'the same' if ids[a] == ids[b] else 'different'} in the model")
                    return
        for p, i, v in zip(step["paths"], ids, step["vals"]):
            _sess_cmp_region(f"statement {si}: {p}", v, store["regs"][i], dis, mag)
            if dis:
                return
        mids = []
        for k, n, bc, names in step["meshes"]:
            r = mret[k]
            mo = store["meshes"][r["mesh"]]
            mids.append(r["mesh"])
            if mo["n"] != n or mo["bc"] != bc or [s[0] for s in mo["subs"]] != names:
                dis.append(f"statement {si}: mesh of statement {k}: impl n={n} bc={bc!r} subregions={names}, "
                           f"model n={mo['n']} bc={mo['bc']!r} subregions={[s[0] for s in mo['subs']]}")
                return
        for a in range(len(mids)):
            for b in range(a):
                if bool(step["mident"][a][b]) != (mids[a] == mids[b]):
                    dis.append(f"statement {si}: mesh identity differs between implementation and model")
                    return
