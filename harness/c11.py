"""C11 — field FFTs are the discrete Fourier transform at the k-mesh's frequencies."""
import itertools
import random
from fractions import Fraction

import numpy as np
import scipy.fft as spfft

from . import core, fieldio
from .core import Q, Qs, F

import discretisedfield as df

PID = "C11"
RULE = ("four streams. 'freqs': scipy fftfreq/rfftfreq for n=1..24 against the model lists. 'mesh': Mesh.fftn(rfft=False/True) "
        "and Mesh.ifftn(rfft, shape) on 1-4-d meshes (sizes from {1,2,3,4,5,6,8} and up to 40, anisotropic dyadic cells, any "
        "position, random dims/units), every shape probe (none, original, last+-1, zero, wrong length, wrong leading entry, scalar): "
        "accept/reject and n, dims, units, tolerance factor compared exactly, corners exactly in the exact regime (all n and "
        "cells powers of two) / to 2^-40 otherwise. 'kmesh': Mesh.ifftn(rfft, shape) on k-space meshes that did NOT come from Mesh.fftn "
        "(names and units with, without and with a doubled prefix / reciprocal form, near-miss spellings, names that collide once k_ is "
        "stripped, any position, 9 shape probes) - accept/reject and the returned mesh against the model - and Mesh.fftn of every "
        "accepted result against the model. 'field': every shape over {1,2,3}^d small scopes + random mixes, 1-4 components, "
        "integer or Gaussian-integer data, default/custom/'ft_'-prefixed/absent labels, default/empty/custom mapping: fftn, rfftn, "
        "ifftn (of integer k-space data), irfftn (of integer half spectra, Hermitian-consistent or ARBITRARY - numpy's convention, model "
        "irfftnNP - shape none/even/odd) compared with the model's symbolic output evaluated at exp(-2 pi i j/n) (1e-11 * l1 norm of the "
        "coefficients); on small fields also the compositions ifftn().fftn() and irfftn(shape).rfftn() computed symbolically by the model "
        "end to end (driver op chain) against the real compositions (mesh, labels, mapping, unit, values). Oracle on the real code: "
        "k-cell centres = shifted fftfreq / rfftfreq, reciprocal names/units, direct O(N^2) DFT at the k-mesh's own cell centres, "
        "round trips in both orders (mesh counts and cell sizes, values, labels, mapping), rfftn = matching half of fftn, zero-frequency "
        "cell = plain sum, linearity, component-wise, irfftn real, rfftn(irfftn G) = G off the self-mirror planes for every G and on "
        "them for consistent G. non-trivial = at least 2 cells and non-constant data (field) / at least one axis with >= 2 cells (mesh)")
TRUSTED = ["harness/c11.py + driver JSON glue (cfOfJson builds Poly constants, denseJ prints the non-zero entries of the model function "
           "Poly.dense); final floating-point evaluation of the printed coefficient table with numpy exp(-2 pi i j/n) (eval_coef); that this "
           "table, evaluated exactly at primitive roots, IS the value of the model over the ring is proved (poly_dense_value, "
           "driver_evaluates_to_model, driver_irfftn_np_evaluates_to_model, driver_fftn_is_dft, driver_rfftn_is_dft, driver_ifftn_is_idft, "
           "driver_irfftn_is_idft)",
           "scipy.fft (pocketfft) fftn/ifftn/rfftn/irfftn/fftfreq/rfftfreq and numpy fftshift/ifftshift modelled by their documented contracts "
           "(the contracts are exercised by this run); for irfftn on half spectra that are not Hermitian-consistent the contract is numpy's "
           "convention (imaginary part of the self-mirror entries ignored after the leading axes are inverted = the planes with last index 0 "
           "and n/2 replaced by their Hermitian part, model symPlanes), exercised by the 'half-spectrum:arbitrary' cases"]
ASSUMPTIONS = ["theorems about values are over a commutative ring with per-axis root parameters satisfying explicit hypotheses "
               "(w^n=1, w*wi=1, ninv*n=1, orthogonality); exp(-2 pi i/n) in C satisfies them (proved in Lemmas/C11Complex.lean), and the "
               "driver's formal roots evaluated with the harness's substitution are exactly those complex roots (driver_complex); over C the "
               "phases are exp(-+2 pi i k.r) with k the k-cell centre (fftn_is_dft_exp, rfftn_is_dft_exp, ifftn_is_idft_exp)",
               "irfftn is modelled on EVERY half spectrum (irfftnNP: inverse DFT of the Hermitian extension after the self-mirror planes were "
               "replaced by their Hermitian part); on Hermitian-consistent half spectra (what rfftn produces: rfftn_output_hermitian_planes) "
               "it equals the plain inverse DFT of the Hermitian extension (irfftn_np_eq_irfftn); it is real on every input "
               "(irfftn_np_returns_real); the constant 1/2 enters as a parameter with the hypothesis half*2=1"]
UNPROVED = ["the floating-point evaluation of exp(-2 pi i j/n) and of the dot product with the printed coefficients (harness eval_coef) and "
            "the rounding of pocketfft ('to rounding' in the property) are outside Lean; they are covered by the 1e-11 * l1 comparator only",
            "that pocketfft's c2r step equals the inverse DFT of the Hermitian extension with the two self-mirror planes replaced by their "
            "Hermitian part is a model DEFINITION (symPlanes, numpy's convention), not derived from a code-shaped c2r recursion (leading "
            "axes c2c, last axis c2r with the imaginary part of entries 0 and n/2 dropped); it is tied to the library by the correspondence "
            "check on arbitrary half spectra; the closed forms over the full box and over the stored half spectrum (irfftn_is_idft, "
            "irfftn_np_is_idft, irfftn_half_sum) are proved from that definition",
            "Field attribute-name clashes of component labels (hasattr(self, label) in the vdims setter) and non-list shape arguments of "
            "Field.irfftn (int / ndarray) are not modelled; Mesh.ifftn's int / str shape handling is probed against the real code only"]
BUDGET = {"quick": 100, "thorough": 1200}

SIZES = [1, 2, 3, 4, 5, 6, 8]
LABELS = ["a", "b", "c", "d", "mx", "my", "mz", "u_1", "p", "q"]
DIMS = ["x", "y", "z", "a", "b", "c", "u", "v", "w", "t"]
UNITS = ["m", "nm", "s", "T", "rad", "(m)", "1/m"]


# ------------------------------------------------------------------ generators
def gen_spec(rng, ndim=None, n=None, max_cells=60, exact=False, sizes=SIZES):
    ndim = ndim or (len(n) if n else rng.choice([1, 2, 2, 3, 3, 4]))
    if n is None:
        pool = [1, 2, 4, 8] if exact else sizes
        n = [rng.choice(pool) for _ in range(ndim)]
        while int(np.prod(n)) > max_cells:
            k = rng.randrange(ndim)
            smaller = [s for s in pool if s < n[k]]
            if smaller:
                n[k] = rng.choice(smaller)
            elif all(x == 1 for x in n):
                break
    if exact:
        cell = [Fraction(1, 2 ** rng.randint(0, 3)) * 2 ** rng.randint(0, 2) for _ in range(ndim)]
    else:
        cell = [Fraction(rng.choice([1, 1, 3, 5]), 2 ** rng.randint(0, 3)) * (k + 1) for k in range(ndim)]
    pmin = [Fraction(rng.randint(-40, 40), 2 ** rng.randint(0, 2)) for _ in range(ndim)]
    pmax = [a + k * c for a, k, c in zip(pmin, n, cell)]
    dims = rng.sample(DIMS, ndim) if rng.random() < 0.5 else None
    units = [rng.choice(UNITS) for _ in range(ndim)] if rng.random() < 0.5 else None
    return dict(p1=[float(x) for x in pmin], p2=[float(x) for x in pmax], n=list(n), dims=dims, units=units, exact=bool(exact))


def cases(rng, tier):
    quick = tier == "quick"
    # --- library contract
    for n in range(1, 25 if quick else 65):
        yield dict(kind="freqs", n=n, d=Q(Fraction(rng.choice([1, 3, 5]), 2 ** rng.randint(0, 3))))
    # --- mesh geometry
    for n in range(1, 13):  # every 1-d size
        yield dict(kind="mesh", mesh=gen_spec(rng, n=[n]), sub=rng.getrandbits(32))
    for _ in range(100 if quick else 600):
        yield dict(kind="mesh", mesh=gen_spec(rng, exact=True, max_cells=4096), sub=rng.getrandbits(32))
    for _ in range(400 if quick else 2500):
        big = rng.random() < 0.3
        yield dict(kind="mesh", mesh=gen_spec(rng, max_cells=10 ** 6, sizes=(list(range(1, 41)) if big else SIZES)),
                   sub=rng.getrandbits(32))
    # --- Mesh.ifftn on k-space meshes that did NOT come from Mesh.fftn (names / units with, without and with a doubled prefix,
    #     names that collide once the prefix is stripped, any position)
    for _ in range(160 if quick else 1200):
        yield kmesh_case(rng)
    # --- fields: small scopes exhaustively (every mix of single / even / odd axes)
    for n in range(1, 10):
        yield field_case(rng, gen_spec(rng, n=[n]))
    for shape in itertools.product([1, 2, 3, 4, 5], repeat=2):
        yield field_case(rng, gen_spec(rng, n=list(shape)))
    three = list(itertools.product([1, 2, 3], repeat=3))
    four = list(itertools.product([1, 2, 3], repeat=4))
    if quick:
        four = rng.sample(four, 16)
    for shape in three + four:
        yield field_case(rng, gen_spec(rng, n=list(shape)))
    for _ in range(260 if quick else 1700):
        yield field_case(rng, gen_spec(rng, max_cells=(48 if quick else 96)))
    for _ in range(6 if quick else 40):
        yield field_case(rng, gen_spec(rng, max_cells=(120 if quick else 200)), nvdim=1)


KDIMS = ["x", "y", "z", "k_x", "k_y", "k_z", "k_k_x", "a", "k_a", "kx", "K_x", "k_xk_"]
KUNITS = ["m", "nm", "(m)$^{-1}$", "(nm)$^{-1}$", "((m)$^{-1}$)$^{-1}$", "(m)", "m)$^{-1}$", "1/m", "(s", "(m)$^{-1}$ "]


def kmesh_case(rng):
    ndim = rng.choice([1, 2, 2, 3, 3, 4])
    spec = gen_spec(rng, ndim=ndim, max_cells=10 ** 6, sizes=SIZES + [7, 9, 10, 12], exact=rng.random() < 0.3)
    spec["dims"] = rng.sample(KDIMS, ndim)
    spec["units"] = [rng.choice(KUNITS) for _ in range(ndim)]
    return dict(kind="kmesh", mesh=spec, sub=rng.getrandbits(32))


def field_case(rng, spec, nvdim=None):
    ndim = len(spec["n"])
    nvdim = nvdim or rng.choice([1, 1, 2, 3, 3, 4, ndim])
    lab = rng.choice(["default", "default", "custom", "custom", "ftpref", "absent"])
    if lab == "absent" and (nvdim == 1 or nvdim == ndim):
        lab = "default"   # Field(vdims=[]) is refused by the constructor itself when nvdim == ndim
    mp = rng.choice(["default", "empty", "custom"])
    return dict(kind="field", mesh=spec, nvdim=nvdim, cplx=rng.random() < 0.4, labels=lab, mapping=mp,
                unit=rng.choice([None, "A/m", "T"]), irshape=rng.choice(["none", "even", "odd"]), sub=rng.getrandbits(32),
                masked=rng.random() < 0.35,
                # half spectrum handed to irfftn: Hermitian-consistent (what rfftn produces) or arbitrary (library-defined
                # behaviour: numpy's convention, modelled by irfftnNP)
                herm=rng.random() < 0.5,
                # forward o inverse on the k-space fields also run through the model (symbolic, cubic in the cell count)
                chain=int(np.prod(spec["n"])) * nvdim <= 18 and rng.random() < 0.6)


# ------------------------------------------------------------------ helpers
def build_mesh(spec):
    kw = {}
    if spec.get("dims"):
        kw["dims"] = spec["dims"]
    if spec.get("units"):
        kw["units"] = spec["units"]
    return df.Mesh(region=df.Region(p1=spec["p1"], p2=spec["p2"], **kw), n=spec["n"])


def cf_json(f):
    """field with (possibly complex) exactly representable data -> driver JSON"""
    nv = f.nvdim
    arr = np.asarray(f.array).reshape(-1, nv)
    d = dict(mesh=fieldio.mesh_json(f.mesh), nvdim=int(nv),
             re=[Qs(row) for row in np.real(arr).tolist()],
             vdims=(list(f.vdims) if f.vdims is not None else None),
             vmap=[[k, v] for k, v in f.vdim_mapping.items()], unit=f.unit)
    if np.iscomplexobj(arr):
        d["im"] = [Qs(row) for row in np.imag(arr).tolist()]
    return d


def try_(fn):
    try:
        return ("ok", fn())
    except Exception as e:  # the properties say "rejected with an error", not which one
        return ("err", type(e).__name__)


def eval_coef(ok):
    """model output (symbolic) -> complex array (*shape, nvdim) and the l1 norm scale"""
    ns = ok["ns"]
    w = np.ones(1, dtype=complex)
    for n in ns:  # C order of exponent vectors
        w = np.multiply.outer(w, np.exp(-2j * np.pi * (np.arange(n) % n) / n)).reshape(-1)
    shape = ok["shape"]
    nv = ok["nvdim"]
    out = np.zeros((len(ok["coef"]), nv), dtype=complex)
    l1 = 0.0
    for k, cell in enumerate(ok["coef"]):
        for c, terms in enumerate(cell):
            if terms:
                idx = np.array([t[0] for t in terms])
                co = np.array([complex(float(F(t[1])), float(F(t[2]))) for t in terms])
                out[k, c] = np.dot(co, w[idx])
                l1 = max(l1, float(np.abs(co).sum()))
    return out.reshape(*shape, nv), l1


def exact_centres(n, cell, rfft_last=False):
    """the frequencies the property names, exactly: shifted fftfreq / rfftfreq of n samples of spacing cell"""
    cell = Fraction(cell)
    if rfft_last and n > 1:
        return [Fraction(j) / (n * cell) for j in range(n // 2 + 1)]
    return [Fraction(j - n // 2) / (n * cell) for j in range(n)]


def centres_of(mesh):
    return [np.asarray(getattr(mesh.cells, d), dtype=float) for d in mesh.region.dims]


def check_kmesh(m, k, rfft, fail, what):
    nd = m.region.ndim
    if tuple(k.region.dims) != tuple("k_" + d for d in m.region.dims):
        fail(f"{what}: dims {k.region.dims} are not k_<dim> of {m.region.dims}")
    if tuple(k.region.units) != tuple("(" + u + ")$^{-1}$" for u in m.region.units):
        fail(f"{what}: units {k.region.units} are not the reciprocal units of {m.region.units}")
    cs = centres_of(k)
    for a in range(nd):
        exp = exact_centres(int(m.n[a]), Fraction(float(m.cell[a])), rfft and a == nd - 1)
        if int(k.n[a]) != len(exp) or len(cs[a]) != len(exp):
            fail(f"{what}: axis {a} has {int(k.n[a])} k-cells, the DFT of {int(m.n[a])} samples has {len(exp)} frequencies here")
            continue
        tol = 1e-12 / float(m.cell[a])
        for j, (got, e) in enumerate(zip(cs[a], exp)):
            if abs(float(got) - float(e)) > tol:
                fail(f"{what}: axis {a} (n={int(m.n[a])}, cell={float(m.cell[a])}) k-cell {j} is centred at {float(got)!r}, "
                     f"the DFT sample frequency is {float(e)!r}")
                break


def check_back(m, b, fail, what, n_expected=None):
    """b should be the mesh of the original counts and cell size centred at the origin"""
    n_expected = [int(x) for x in (m.n if n_expected is None else n_expected)]
    if [int(x) for x in b.n] != n_expected:
        fail(f"{what}: n {b.n.tolist()} instead of {n_expected}")
        return
    if tuple(b.region.dims) != tuple(m.region.dims) or tuple(b.region.units) != tuple(m.region.units):
        fail(f"{what}: dims/units {b.region.dims} {b.region.units} instead of {m.region.dims} {m.region.units}")
    for a in range(m.region.ndim):
        e = float(m.region.edges[a])
        if n_expected[a] == int(m.n[a]) and abs(float(b.cell[a]) - float(m.cell[a])) > 1e-12 * float(m.cell[a]):
            fail(f"{what}: cell {b.cell.tolist()} instead of {m.cell.tolist()}")
            break
        if abs(float(b.region.pmin[a] + b.region.pmax[a])) > 1e-12 * e:
            fail(f"{what}: not centred at the origin: pmin {b.region.pmin.tolist()} pmax {b.region.pmax.tolist()}")
            break


def last_default(nk):
    return 1 if nk == 1 else (nk - 1) * 2


# ------------------------------------------------------------------ real code
def run_impl(case):
    obs = {"oracle": [], "tags": ["kind:" + case["kind"]], "stage": "setup"}
    try:
        return _run_impl(case, obs)
    except Exception as e:  # the real code raised on a valid input: a failure of the property, not of the machinery
        obs["oracle"].append(f"{obs['stage']}: the real code raised {type(e).__name__}: {str(e)[:200]}")
        obs["crashed"] = True
        obs["tags"].append("impl-raised")
        return obs


def _run_impl(case, obs):
    fail = obs["oracle"].append
    if case["kind"] == "freqs":
        n, d = case["n"], float(F(case["d"]))
        obs["fftfreq"] = Qs(spfft.fftfreq(n, d))
        obs["rfftfreq"] = Qs(spfft.rfftfreq(n, d))
        obs["shifted"] = Qs(np.fft.fftshift(spfft.fftfreq(n, d)))
        return obs
    m = build_mesh(case["mesh"])
    nd = m.region.ndim
    nlist = [int(x) for x in m.n]
    obs["tags"] += [f"ndim:{nd}", "axes:" + "".join(sorted({"s" if x == 1 else "e" if x % 2 == 0 else "o" for x in nlist})),
                    "regime:" + ("exact" if case["mesh"].get("exact") else "tol")]
    if case["kind"] == "mesh":
        rng = random.Random(case["sub"])
        obs["m"] = fieldio.mesh_json(m)
        obs["stage"] = "Mesh.fftn on a valid mesh"
        k = m.fftn()
        kr = m.fftn(rfft=True)
        obs["k"], obs["kr"] = fieldio.mesh_json(k), fieldio.mesh_json(kr)
        check_kmesh(m, k, False, fail, "Mesh.fftn()")
        check_kmesh(m, kr, True, fail, "Mesh.fftn(rfft=True)")
        obs["stage"] = "Mesh.ifftn of Mesh.fftn"
        b = k.ifftn()
        check_back(m, b, fail, "mesh.fftn().ifftn()")
        b2 = kr.ifftn(rfft=True, shape=nlist)
        check_back(m, b2, fail, "mesh.fftn(rfft=True).ifftn(rfft=True, shape=n)")
        if nlist[-1] % 2 == 0 or nlist[-1] == 1:
            check_back(m, kr.ifftn(rfft=True), fail, "mesh.fftn(rfft=True).ifftn(rfft=True) [last count even or 1]")
        # probes of Mesh.ifftn's shape handling
        nk = [int(x) for x in kr.n]
        probes = [("k", False, None), ("kr", True, None), ("kr", True, nlist), ("k", False, nlist),
                  ("kr", True, nk[:-1] + [2 * (nk[-1] - 1)]), ("kr", True, nk[:-1] + [2 * (nk[-1] - 1) + 1]),
                  ("kr", True, nk[:-1] + [2 * nk[-1]]), ("kr", True, nk[:-1] + [max(0, 2 * (nk[-1] - 1) - 1)]),
                  ("kr", True, nk[:-1] + [0]), ("kr", True, nlist + [2]), ("kr", True, nlist[:-1]),
                  ("k", False, [2 * (nlist[-1] - 1) + rng.randint(0, 1)] if nd == 1 else [nlist[0] + 1] + nlist[1:]),
                  ("kr", False, nk[:-1] + [2 * (nk[-1] - 1) + 1])]
        obs["probes"] = []
        for tgt, rf, shp in probes:
            src = k if tgt == "k" else kr
            if shp is not None and len(shp) == 0:
                continue
            st, val = try_(lambda: src.ifftn(rfft=rf, shape=(None if shp is None else list(shp))))
            obs["probes"].append(dict(tgt=tgt, rfft=rf, shape=shp, st=st, mesh=(fieldio.mesh_json(val) if st == "ok" else None)))
            if st == "ok" and shp is not None and [int(x) for x in val.n] != list(shp):
                fail(f"Mesh.ifftn(shape={shp}) returned n={val.n.tolist()}")
            if st == "ok" and shp is not None and rf and tgt == "kr":
                # an accepted shape is "the shape of the original mesh": its real transform must be this k-mesh again
                again = [int(x) for x in val.fftn(rfft=True).n]
                if again != nk:
                    fail(f"Mesh.ifftn(rfft=True, shape={shp}) accepted on a k-mesh with n={nk}, but a mesh of that shape "
                         f"transforms to n={again}: the shape cannot be the original one")
        if nd == 1:  # scalar shape
            st, val = try_(lambda: kr.ifftn(rfft=True, shape=nlist[0]))
            obs["probes"].append(dict(tgt="kr", rfft=True, shape=[nlist[0]], st=st, mesh=(fieldio.mesh_json(val) if st == "ok" else None)))
        st, _ = try_(lambda: kr.ifftn(rfft=True, shape="ab"))
        if st == "ok":
            fail("Mesh.ifftn accepts a string as shape")
        obs["nontrivial"] = max(nlist) >= 2
        return obs

    if case["kind"] == "kmesh":
        rng = random.Random(case["sub"])
        obs["m"] = fieldio.mesh_json(m)
        last = nlist[-1]
        probes = [(False, None), (True, None), (False, nlist), (True, nlist[:-1] + [2 * (last - 1)]),
                  (True, nlist[:-1] + [2 * (last - 1) + 1]), (False, nlist[:-1] + [2 * (last - 1) + 1]),
                  (True, nlist[:-1] + [2 * last]), (True, [x + (1 if i == 0 and nd > 1 else 0) for i, x in enumerate(nlist[:-1])] + [2 * (last - 1)]),
                  (rng.random() < 0.5, nlist + [1])]
        stripped = [d[2:] if d.startswith("k_") else d for d in m.region.dims]
        obs["tags"].append("names:" + ("collide" if len(set(stripped)) < nd else "distinct"))
        obs["probes"] = []
        for rf, shp in probes:
            obs["stage"] = f"Mesh.ifftn(rfft={rf}, shape={shp}) on a k-space mesh that did not come from fftn"
            st, val = try_(lambda: m.ifftn(rfft=rf, shape=(None if shp is None else list(shp))))
            rec = dict(rfft=rf, shape=shp, st=st, mesh=(fieldio.mesh_json(val) if st == "ok" else None), back=None)
            obs["probes"].append(rec)
            if st != "ok":
                continue
            exp_n = list(shp) if shp is not None else (nlist[:-1] + [2 * (last - 1)] if rf and last != 1 else nlist)
            if [int(x) for x in val.n] != exp_n:
                fail(f"Mesh.ifftn(rfft={rf}, shape={shp}) returned n={val.n.tolist()} instead of {exp_n}")
                continue
            for a in range(nd):
                e = float(val.region.edges[a])
                if abs(float(val.region.pmin[a] + val.region.pmax[a])) > 1e-12 * e:
                    fail(f"Mesh.ifftn(rfft={rf}, shape={shp}): result not centred at the origin")
                    break
            # back: the k-mesh of the result has the counts and cell sizes of the k-mesh it was made from
            obs["stage"] = f"Mesh.fftn(rfft={rf}) of Mesh.ifftn(rfft={rf}, shape={shp})"
            kb = val.fftn(rfft=rf)
            rec["back"] = fieldio.mesh_json(kb)
            check_kmesh(val, kb, rf, fail, f"mesh.ifftn(rfft={rf}, shape={shp}).fftn(rfft={rf})")
            if rf or exp_n == nlist:   # the counts used are the "original" ones of this k-mesh for this kind of transform
                if [int(x) for x in kb.n] != nlist:
                    fail(f"mesh.ifftn(rfft={rf}, shape={shp}).fftn(rfft={rf}) has n={kb.n.tolist()}, the k-mesh n={nlist}")
                else:
                    for a in range(nd):
                        if abs(float(kb.cell[a]) - float(m.cell[a])) > 1e-12 * float(m.cell[a]):
                            fail(f"mesh.ifftn(rfft={rf}, shape={shp}).fftn(rfft={rf}) has cell {kb.cell.tolist()}, the k-mesh {m.cell.tolist()}")
                            break
        obs["nontrivial"] = max(nlist) >= 2
        return obs

    # ---------------- field
    rng = random.Random(case["sub"])
    nv = case["nvdim"]
    N = int(np.prod(nlist))

    def ints(shape, cplx):
        a = np.array([rng.randint(-9, 9) for _ in range(int(np.prod(shape)))], dtype=float).reshape(shape)
        if cplx:
            a = a + 1j * np.array([rng.randint(-9, 9) for _ in range(int(np.prod(shape)))], dtype=float).reshape(shape)
        return a

    labs = rng.sample(LABELS, nv)
    kw = {}
    if case["labels"] in ("custom", "ftpref"):
        kw["vdims"] = [("ft_" + s if (case["labels"] == "ftpref" and (i % 2 == 0)) else s) for i, s in enumerate(labs)]
    elif case["labels"] == "absent":
        kw["vdims"] = []
    dims = list(m.region.dims)
    if case["mapping"] == "empty":
        kw["vdim_mapping"] = {}
    elif case["mapping"] == "custom" and (kw.get("vdims") or (case["labels"] == "default" and nv > 1)):
        keys = kw.get("vdims") or (["x", "y", "z"][:nv] if nv <= 3 else [f"v{i}" for i in range(nv)])
        pool = dims + ["k_" + dims[0], "q"]
        order = list(keys)
        if rng.random() < 0.5:
            rng.shuffle(order)          # the caller's dict need not list the labels in the order of vdims
        kw["vdim_mapping"] = {kk: rng.choice(pool) for kk in order}
    arr = ints((*nlist, nv), case["cplx"])
    if case.get("masked"):
        # a validity mask with invalid cells that hold ordinary (non-zero) values: the transforms are sums over ALL cells
        # of the array - validity has no say in them - and their results are valid everywhere
        vm = np.array([rng.random() < 0.6 for _ in range(int(np.prod(nlist)))], dtype=bool).reshape(tuple(nlist))
        if vm.all():
            vm.reshape(-1)[rng.randrange(vm.size)] = False
        kw = dict(kw, valid=vm)
        obs["tags"].append(f"validity-mask:{int((~vm).sum())}-of-{vm.size}-invalid")
    f = df.Field(m, nvdim=nv, value=arr, unit=case["unit"], **kw)
    snap = f.array.copy()
    obs["f"] = cf_json(f)
    obs["tags"] += [f"nvdim:{nv}", f"cplx:{case['cplx']}", "labels:" + case["labels"], "mapping:" + case["mapping"],
                    "chain:" + ("model" if case.get("chain") else "not-run-too-large")]
    named = f.vdims is not None
    res = {}

    # ---- forward, full
    obs["stage"] = "Field.fftn on a valid field"
    Ff = f.fftn()
    res["fftn"] = Ff
    check_kmesh(m, Ff.mesh, False, fail, "Field.fftn mesh")
    cs = centres_of(Ff.mesh)
    pos = [np.arange(n) * float(m.cell[a]) for a, n in enumerate(nlist)]  # r counted from the first cell

    def direct(kcs, shape_k):
        """sum_r f[r] exp(-2 pi i k.r) at the given per-axis k centres"""
        out = arr.astype(complex)
        for a in range(nd):
            E = np.exp(-2j * np.pi * np.outer(kcs[a], pos[a]))       # (nk_a, n_a)
            out = np.moveaxis(np.tensordot(E, out, axes=([1], [a])), 0, a)
        return out

    l1 = float(np.abs(arr).sum(axis=tuple(range(nd))).max()) + 1.0
    tol = 1e-10 * l1
    if Ff.array.shape != (*nlist, nv):
        fail(f"fftn array shape {Ff.array.shape}")
    else:
        D = direct(cs, nlist)
        if not np.allclose(Ff.array, D, rtol=0, atol=tol):
            i = np.unravel_index(np.argmax(np.abs(Ff.array - D)), D.shape)
            fail(f"fftn: k-cell {tuple(int(x) for x in i[:-1])} comp {int(i[-1])} holds {complex(Ff.array[i])}, the sum of value*exp(-2 pi i k.r) "
                 f"at that cell's centre is {complex(D[i])}")
        zero = tuple(n // 2 for n in nlist)
        if all(abs(float(cs[a][zero[a]])) < 1e-12 / float(m.cell[a]) for a in range(nd)):
            if not np.allclose(Ff.array[zero], arr.sum(axis=tuple(range(nd))), rtol=0, atol=tol):
                fail(f"fftn: zero-frequency cell {zero} holds {Ff.array[zero].tolist()}, the plain sum is {arr.sum(axis=tuple(range(nd))).tolist()}")
        else:
            fail(f"fftn mesh: no cell centred at zero frequency at index {zero}")
        if abs(float(np.sum(np.abs(Ff.array) ** 2)) - N * float(np.sum(np.abs(arr) ** 2))) > 1e-9 * (N * float(np.sum(np.abs(arr) ** 2)) + 1):
            fail("fftn: Parseval sum differs")
    if named:
        if list(Ff.vdims) != ["ft_" + v for v in f.vdims]:
            fail(f"fftn labels {Ff.vdims} from {f.vdims}")
        if Ff.vdim_mapping != {"ft_" + kk: "k_" + vv for kk, vv in f.vdim_mapping.items()}:
            fail(f"fftn mapping {Ff.vdim_mapping} from {f.vdim_mapping}")
    if Ff.nvdim != nv:
        fail("fftn changes the component count")
    obs["stage"] = "Field.fftn (linearity / component probes)"
    # linear, component-wise
    arr2 = ints((*nlist, nv), case["cplx"])
    g = df.Field(m, nvdim=nv, value=arr2, **kw)
    lin = df.Field(m, nvdim=nv, value=2 * arr - 3 * arr2, **kw).fftn()
    if not np.allclose(lin.array, 2 * Ff.array - 3 * g.fftn().array, rtol=0, atol=10 * tol):
        fail("fftn is not linear: F(2f-3g) != 2F(f)-3F(g)")
    if nv > 1:
        c = rng.randrange(nv)
        one = df.Field(m, nvdim=1, value=arr[..., c:c + 1]).fftn()
        if not np.allclose(one.array[..., 0], Ff.array[..., c], rtol=0, atol=tol):
            fail(f"fftn: component {c} transformed alone differs from component {c} of the transform")
    # round trip
    obs["stage"] = "Field.ifftn of Field.fftn"
    back = Ff.ifftn()
    res_back = back
    check_back(m, back.mesh, fail, "Field.fftn().ifftn() mesh")
    if back.array.shape == arr.shape and not np.allclose(back.array, arr, rtol=0, atol=tol):
        fail("ifftn(fftn(f)) differs from f")
    if named and (list(back.vdims) != list(f.vdims) or back.vdim_mapping != f.vdim_mapping):
        fail(f"ifftn(fftn(f)) labels/mapping {back.vdims} {back.vdim_mapping} instead of {f.vdims} {f.vdim_mapping}")
    if back.unit != f.unit:
        fail("ifftn(fftn(f)) changes the unit")

    # ---- forward, real
    if not case["cplx"]:
        obs["stage"] = "Field.rfftn on a valid real field"
        Fr = f.rfftn()
        res["rfftn"] = Fr
        check_kmesh(m, Fr.mesh, True, fail, "Field.rfftn mesh")
        nk = [int(x) for x in Fr.mesh.n]
        if Fr.array.shape != (*nk, nv):
            fail(f"rfftn array shape {Fr.array.shape} vs k-mesh {nk}")
        else:
            csr = centres_of(Fr.mesh)
            Dr = direct(csr, nk)
            if not np.allclose(Fr.array, Dr, rtol=0, atol=tol):
                i = np.unravel_index(np.argmax(np.abs(Fr.array - Dr)), Dr.shape)
                fail(f"rfftn: k-cell {tuple(int(x) for x in i[:-1])} comp {int(i[-1])} holds {complex(Fr.array[i])}, the sum of value*exp(-2 pi i k.r) "
                     f"at that cell's centre is {complex(Dr[i])}")
            # the matching half of the full transform: the fftn cell of the same DFT frequency (same centre; for an even
            # count the Nyquist frequency +1/(2 cell) of the real transform is the cell -1/(2 cell) of the full one)
            off = nlist[-1] // 2
            sel = [(j + off) % nlist[-1] for j in range(nk[-1])]
            half = np.take(Ff.array, sel, axis=nd - 1)
            if half.shape != Fr.array.shape or not np.allclose(half, Fr.array, rtol=0, atol=tol):
                fail("rfftn differs from the matching (non-negative frequency) half of fftn along the last axis")
            else:
                dk = (cs[-1][sel] - csr[-1]) * float(m.cell[-1])   # must be 0, or -1 for the Nyquist alias
                if not all(abs(x) < 1e-12 or (abs(x + 1) < 1e-12 and 2 * j == nlist[-1]) for j, x in enumerate(dk)):
                    fail("rfftn k-cells are not centred where the matching fftn cells are")
            zero = tuple(n // 2 for n in nlist[:-1]) + (0,)
            if not np.allclose(Fr.array[zero], arr.sum(axis=tuple(range(nd))), rtol=0, atol=tol):
                fail(f"rfftn: zero-frequency cell {zero} holds {Fr.array[zero].tolist()}, the plain sum is {arr.sum(axis=tuple(range(nd))).tolist()}")
        if named and (list(Fr.vdims) != list(Ff.vdims) or Fr.vdim_mapping != Ff.vdim_mapping):
            fail("rfftn labels/mapping differ from fftn's")
        obs["stage"] = f"Field.irfftn(shape={nlist}) of Field.rfftn"
        rb = Fr.irfftn(shape=nlist)
        check_back(m, rb.mesh, fail, "Field.rfftn().irfftn(shape=n) mesh")
        if rb.array.shape == arr.shape and not np.allclose(rb.array, arr, rtol=0, atol=tol):
            fail("irfftn(rfftn(f), shape=n) differs from f")
        if named and (list(rb.vdims) != list(f.vdims) or rb.vdim_mapping != f.vdim_mapping or rb.unit != f.unit):
            fail("irfftn(rfftn(f)) labels/mapping/unit not restored")
        if nlist[-1] % 2 == 0 or nlist[-1] == 1:
            obs["stage"] = "Field.irfftn() of Field.rfftn, last count even or 1"
            rb2 = Fr.irfftn()
            check_back(m, rb2.mesh, fail, "Field.rfftn().irfftn() mesh [last count even or 1]")
            if rb2.array.shape == arr.shape and not np.allclose(rb2.array, arr, rtol=0, atol=tol):
                fail("irfftn(rfftn(f)) differs from f although the last count is even")

    # ---- inverse of integer k-space data (correspondence of ifftn / irfftn themselves)
    obs["stage"] = "building k-space fields"
    kmesh = m.fftn()
    kkw = {}
    if kw.get("vdims"):
        kkw["vdims"] = ["ft_" + v if rng.random() < 0.8 else v for v in kw["vdims"]]
        if "vdim_mapping" in kw and kw["vdim_mapping"]:
            kkw["vdim_mapping"] = {kk2: ("k_" + vv if rng.random() < 0.8 else vv)
                                   for kk2, vv in zip(kkw["vdims"], kw["vdim_mapping"].values())}
        elif "vdim_mapping" in kw:
            kkw["vdim_mapping"] = {}
    elif "vdims" in kw:
        kkw["vdims"] = []
    if kw.get("vdims") and nv >= 2 and rng.random() < 0.08:
        # two labels that collide once the prefix is stripped: the constructor must refuse the result
        kkw["vdims"] = ["ft_" + labs[0], labs[0]] + kkw["vdims"][2:]
        if kkw.get("vdim_mapping"):
            kkw["vdim_mapping"] = dict(zip(kkw["vdims"], kkw["vdim_mapping"].values()))
        obs["tags"].append("labels:collide")
    karr = ints((*nlist, nv), True)
    kf = df.Field(kmesh, nvdim=nv, value=karr, unit=case["unit"], **kkw)
    obs["kf"] = cf_json(kf)
    st, val = try_(kf.ifftn)
    res["ifftn"] = val if st == "ok" else None
    obs["ifftn_st"] = st
    if st == "ok":
        check_back(m, val.mesh, fail, "Field.ifftn mesh (k-mesh of the original)")
        obs["stage"] = "Field.fftn of Field.ifftn"
        fb = val.fftn()
        res["fftn_ifftn"] = fb
        check_kmesh(val.mesh, fb.mesh, False, fail, "Field.ifftn().fftn() mesh")
        if [int(x) for x in fb.mesh.n] != nlist or any(abs(float(fb.mesh.cell[a]) - float(kmesh.cell[a])) > 1e-12 * float(kmesh.cell[a]) for a in range(nd)):
            fail(f"fftn(ifftn(F)) lives on n={fb.mesh.n.tolist()} cell={fb.mesh.cell.tolist()}, F on n={nlist} cell={kmesh.cell.tolist()}")
        if fb.array.shape == karr.shape and not np.allclose(fb.array, karr, rtol=0, atol=1e-10 * (float(np.abs(karr).sum()) + 1)):
            fail("fftn(ifftn(F)) differs from F")

    krmesh = m.fftn(rfft=True)
    nk = [int(x) for x in krmesh.n]
    if case["irshape"] == "none":
        tshape, target_last = None, last_default(nk[-1])
    elif case["irshape"] == "even":
        tshape, target_last = nk[:-1] + [2 * (nk[-1] - 1)], 2 * (nk[-1] - 1)
    else:
        tshape, target_last = nk[:-1] + [2 * (nk[-1] - 1) + 1], 2 * (nk[-1] - 1) + 1
    G = ints((*nk, nv), True)
    # make the planes that are their own mirror image conjugate-symmetric (what rfftn of real data produces)
    lead = tuple(range(nd - 1))

    def herm(P):  # P: (*lead shape, nv) -> P + conj(P[-k'])
        Pm = P
        for a in lead:
            Pm = np.roll(np.flip(Pm, axis=a), 1, axis=a)
        return P + np.conj(Pm)

    consistent = case.get("herm", True)
    obs["tags"].append("half-spectrum:" + ("consistent" if consistent else "arbitrary"))
    if target_last >= 1 and consistent:
        G[(slice(None),) * (nd - 1) + (0,)] = herm(G[(slice(None),) * (nd - 1) + (0,)])
        if target_last % 2 == 0 and target_last // 2 < nk[-1]:
            j = target_last // 2
            G[(slice(None),) * (nd - 1) + (j,)] = herm(G[(slice(None),) * (nd - 1) + (j,)])
    A = np.fft.fftshift(G, axes=lead) if lead else G
    krf = df.Field(krmesh, nvdim=nv, value=A, unit=case["unit"], **kkw)
    obs["krf"] = cf_json(krf)
    obs["tshape"] = tshape
    st, val = try_(lambda: krf.irfftn(shape=tshape))
    obs["irfftn_st"] = st
    res["irfftn"] = val if st == "ok" else None
    if st == "ok":
        exp_n = nk[:-1] + [target_last]
        if [int(x) for x in val.mesh.n] != exp_n or val.array.shape != (*exp_n, nv):
            fail(f"irfftn(shape={tshape}): mesh n {val.mesh.n.tolist()}, array {val.array.shape}, expected {exp_n}")
        else:
            if np.iscomplexobj(val.array) and float(np.abs(np.imag(val.array)).max()) > 0:
                fail(f"irfftn(shape={tshape}) returned data with a non-zero imaginary part")
            # forward real transform of the result returns the half spectrum (the property speaks about consistent ones)
            obs["stage"] = "Field.rfftn of Field.irfftn"
            rr = val.rfftn()
            res["rfftn_irfftn"] = rr
            if [int(x) for x in rr.mesh.n] != nk:
                fail(f"rfftn(irfftn(G, shape={tshape})) lives on a mesh with n={rr.mesh.n.tolist()}, G on n={nk}")
            elif consistent and rr.array.shape == A.shape and not np.allclose(rr.array, A, rtol=0, atol=1e-10 * (float(np.abs(A).sum()) + 1)):
                fail(f"rfftn(irfftn(G, shape={tshape})) differs from the Hermitian-consistent half spectrum G")
            elif rr.array.shape == A.shape:
                # off the two self-mirror planes every half spectrum is read back unchanged (rfftn_irfftn)
                keep = [j for j in range(nk[-1]) if j != 0 and 2 * j != target_last]
                if keep and not np.allclose(np.take(rr.array, keep, axis=nd - 1), np.take(A, keep, axis=nd - 1), rtol=0,
                                            atol=1e-10 * (float(np.abs(A).sum()) + 1)):
                    fail(f"rfftn(irfftn(G, shape={tshape})) differs from G off the planes with last index 0 and n/2")
            for a in range(nd):
                if abs(float(rr.mesh.cell[a]) - float(krmesh.cell[a])) > 1e-12 * float(krmesh.cell[a]):
                    fail(f"rfftn(irfftn(G)) mesh cell {rr.mesh.cell.tolist()} instead of {krmesh.cell.tolist()}")
                    break
    if not np.array_equal(snap, f.array):
        fail("a transform modified its operand")
    obs["res"] = res
    obs["nontrivial"] = N >= 2 and float(np.abs(arr - arr.reshape(-1, nv)[0]).max()) > 0
    del res_back
    return obs


# ------------------------------------------------------------------ model side
def model_requests(case, obs):
    if obs.get("crashed"):
        return []
    if case["kind"] == "freqs":
        return [dict(op="freqs", n=case["n"], d=case["d"])]
    if case["kind"] == "mesh":
        reqs = [dict(op="mesh_fftn", mesh=obs["m"], rfft=False), dict(op="mesh_fftn", mesh=obs["m"], rfft=True)]
        for p in obs["probes"]:
            reqs.append(dict(op="mesh_ifftn", mesh=obs[p["tgt"]], rfft=p["rfft"], shape=p["shape"]))
        return reqs
    if case["kind"] == "kmesh":
        reqs = []
        for p in obs["probes"]:
            reqs.append(dict(op="mesh_ifftn", mesh=obs["m"], rfft=p["rfft"], shape=p["shape"]))
            if p["st"] == "ok" and p["back"] is not None:
                reqs.append(dict(op="mesh_fftn", mesh=p["mesh"], rfft=p["rfft"]))
        return reqs
    reqs = [dict(op="field", kind="fftn", field=obs["f"])]
    if "rfftn" in obs["res"]:
        reqs.append(dict(op="field", kind="rfftn", field=obs["f"]))
    reqs.append(dict(op="field", kind="ifftn", field=obs["kf"]))
    reqs.append(dict(op="field", kind="irfftn", field=obs["krf"], shape=obs["tshape"]))
    if case.get("chain"):
        reqs.append(dict(op="chain", kind="ifftn_fftn", field=obs["kf"]))
        reqs.append(dict(op="chain", kind="irfftn_rfftn", field=obs["krf"], shape=obs["tshape"]))
    return reqs


def cmp_mesh(name, got, mj, exact, dis):
    """got: fieldio.mesh_json of the real mesh; mj: model mesh JSON"""
    if got["n"] != mj["n"]:
        dis.append(f"{name}: n impl {got['n']} vs model {mj['n']}")
        return
    for key in ("dims", "units"):
        if list(got["region"][key]) != list(mj["region"][key]):
            dis.append(f"{name}: {key} impl {got['region'][key]} vs model {mj['region'][key]}")
    if F(got["region"]["tol"]) != F(mj["region"]["tol"]):
        dis.append(f"{name}: tolerance factor impl {got['region']['tol']} vs model {mj['region']['tol']}")
    if got["bc"] != mj["bc"] or len(got["subs"]) != len(mj["subs"]):
        dis.append(f"{name}: bc/subregions impl {got['bc']!r},{len(got['subs'])} vs model {mj['bc']!r},{len(mj['subs'])}")
    lo, hi = [F(x) for x in mj["region"]["pmin"]], [F(x) for x in mj["region"]["pmax"]]
    for key, mod in (("pmin", lo), ("pmax", hi)):
        a = [F(x) for x in got["region"][key]]
        for ax, (x, y) in enumerate(zip(a, mod)):
            bound = 0 if exact else Fraction(1, 2 ** 40) * (hi[ax] - lo[ax])
            if abs(x - y) > bound:
                dis.append(f"{name}: {key}[{ax}] impl {float(x)!r} vs model {float(y)!r} ({'exact regime' if exact else 'tolerance 2^-40 edge'})")
                return


def cmp_cf(name, fld, r, dis, in_sum=0.0):
    if fld is None:
        if "ok" in r:
            dis.append(f"{name}: impl raised, model ok")
        return
    if "ok" not in r:
        dis.append(f"{name}: impl ok, model {r}")
        return
    ok = r["ok"]
    cmp_mesh(name + " mesh", fieldio.mesh_json(fld.mesh), ok["mesh"], False, dis)
    if int(fld.nvdim) != ok["nvdim"]:
        dis.append(f"{name}: nvdim impl {fld.nvdim} vs model {ok['nvdim']}")
        return
    iv = list(fld.vdims) if fld.vdims is not None else None
    if iv != ok["vdims"]:
        dis.append(f"{name}: vdims impl {iv} vs model {ok['vdims']}")
    if sorted(fld.vdim_mapping.items()) != sorted(tuple(p) for p in ok["vmap"]):
        dis.append(f"{name}: vdim_mapping impl {fld.vdim_mapping} vs model {ok['vmap']}")
    if fld.unit != ok["unit"]:
        dis.append(f"{name}: unit impl {fld.unit} vs model {ok['unit']}")
    if list(fld.array.shape[:-1]) != ok["shape"]:
        dis.append(f"{name}: array shape impl {fld.array.shape} vs model {ok['shape']}")
        return
    if not bool(np.all(fld.valid)):
        dis.append(f"{name}: impl result has invalid cells")
    val, l1 = eval_coef(ok)
    tol = 1e-11 * max(l1, in_sum, 1e-300)   # l1 norm of the model's coefficients / of the input: bounds the rounding of an FFT
    if not np.allclose(np.asarray(fld.array, dtype=complex), val, rtol=0, atol=tol):
        i = np.unravel_index(np.argmax(np.abs(fld.array - val)), val.shape)
        dis.append(f"{name}: value at cell {tuple(int(x) for x in i[:-1])} comp {int(i[-1])}: impl {complex(fld.array[i])} vs model {complex(val[i])}")


def compare(case, obs, rs):
    dis = []
    if obs.get("crashed"):
        return dis
    if case["kind"] == "freqs":
        r = rs[0]
        for key in ("fftfreq", "rfftfreq", "shifted"):
            a, b = [F(x) for x in obs[key]], [F(x) for x in r[key]]
            if len(a) != len(b) or any(abs(x - y) > Fraction(1, 2 ** 50) * max(abs(y), 1) for x, y in zip(a, b)):
                dis.append(f"scipy {key}({case['n']}, {case['d']}): {obs[key]} vs model {r[key]}")
        return dis
    exact = bool(case["mesh"].get("exact"))
    if case["kind"] == "mesh":
        for name, key, r in (("Mesh.fftn()", "k", rs[0]), ("Mesh.fftn(rfft=True)", "kr", rs[1])):
            if "ok" not in r:
                dis.append(f"{name}: impl ok vs model {r}")
            else:
                cmp_mesh(name, obs[key], r["ok"], exact, dis)
        for p, r in zip(obs["probes"], rs[2:]):
            name = f"Mesh.ifftn(rfft={p['rfft']}, shape={p['shape']}) on {p['tgt']}"
            if (p["st"] == "ok") != ("ok" in r):
                dis.append(f"{name}: impl {p['st']} vs model {'ok' if 'ok' in r else r}")
            elif p["st"] == "ok":
                cmp_mesh(name, p["mesh"], r["ok"], exact and p["shape"] in (None, obs["m"]["n"]), dis)
        return dis
    if case["kind"] == "kmesh":
        it = iter(rs)
        for p in obs["probes"]:
            r = next(it)
            name = f"Mesh.ifftn(rfft={p['rfft']}, shape={p['shape']}) on a k-space mesh"
            if (p["st"] == "ok") != ("ok" in r):
                dis.append(f"{name}: impl {p['st']} vs model {'ok' if 'ok' in r else r}")
            elif p["st"] == "ok":
                cmp_mesh(name, p["mesh"], r["ok"], False, dis)
            if p["st"] == "ok" and p["back"] is not None:
                r2 = next(it)
                if "ok" not in r2:
                    dis.append(f"{name}.fftn(): impl ok vs model {r2}")
                else:
                    cmp_mesh(name + f".fftn(rfft={p['rfft']})", p["back"], r2["ok"], False, dis)
        return dis
    it = iter(rs)

    def insum(key):
        return sum(abs(float(F(x))) for part in ("re", "im") for row in obs[key].get(part, []) for x in row)

    cmp_cf("Field.fftn", obs["res"]["fftn"], next(it), dis, insum("f"))
    if "rfftn" in obs["res"]:
        cmp_cf("Field.rfftn", obs["res"]["rfftn"], next(it), dis, insum("f"))
    cmp_cf("Field.ifftn", obs["res"]["ifftn"], next(it), dis, insum("kf"))
    cmp_cf(f"Field.irfftn(shape={obs['tshape']})", obs["res"]["irfftn"], next(it), dis, insum("krf"))
    if case.get("chain"):
        cmp_cf("Field.ifftn().fftn()", obs["res"].get("fftn_ifftn"), next(it), dis, insum("kf"))
        cmp_cf(f"Field.irfftn(shape={obs['tshape']}).rfftn()", obs["res"].get("rfftn_irfftn"), next(it), dis, insum("krf"))
    return dis


def nontrivial(case, obs):
    return bool(obs.get("nontrivial")) if case["kind"] != "freqs" else case["n"] >= 2


def known(case, text):
    return None


def search(case, rng):
    for _ in range(200):
        spec = gen_spec(rng, max_cells=24)
        yield field_case(rng, spec)
        yield dict(kind="mesh", mesh=spec, sub=rng.getrandbits(32))
        yield kmesh_case(rng)
