"""C12 — quarter-turn rotations move values, vectors, validity and geometry together."""
import itertools
import random
from fractions import Fraction

import numpy as np

from . import core, fieldio, tcommon as tc
from .c13 import cmp_json, same_state
from .core import Q, Qs, F

import discretisedfield as df

PID = "C12"
RULE = ("2-4-d fields with distinct integer data, anisotropic counts and dyadic cell sizes, masks, 0-2 subregions, 1-4 components with "
        "permuted / partial / empty / default component-to-axis mappings; every ordered axis pair x k in -6..6 (sampled per case, "
        "exhaustive over pairs x k for one 3-d field per run), reference point default or dyadic, both forms. Oracle on the real code: "
        "g(R+Q(p-R)) = Q f(p) with the exact integer matrix for every cell centre, validity and subregions moved with the cells, n/units "
        "swap for odd k, names kept, k == k mod 4, four turns and k then -k are the identity, k1 then k2 == k1+k2, region/mesh/field "
        "consistent, in-place == copy, unmapped vector fields refused unchanged. Model (np.rot90 index map + exact component rotation) "
        "compared on every returned object. non-trivial = k mod 4 != 0 and at least two cells along one rotated axis")
TRUSTED = ["harness/c12.py, harness/tcommon.py + driver JSON glue", "np.rot90 modelled by its flip/transpose definition"]
ASSUMPTIONS = ["float cos/sin(k*pi/2) within 2^-50 of the exact integers (2^-36 relative bound on values, 2^-40 on corners)"]
UNPROVED = ["periodic direction turned onto an axis with a multi-character name: the code leaves bc unchanged (open finding D57); the theorems state the exact condition - both axis names single characters (periodic_directions_turn) - and the failure otherwise (rotBc leaves bc alone for every k: periodic_direction_lost_multichar, d57_witness); nothing is proved about what bc 'should' become there",
            "in-place Mesh.rotate90 assigns bc through the bc setter (str.lower + check), the model assigns the swapped string directly: equal for well-formed bc (BcWf: bc lower-case and checked, single-character dimension names lower-case) by rotBc_lowercase / rotBc_keeps_bcOk; meshes whose single-character dimension names are upper-case are outside every bc theorem (there the real in-place call raises after having turned region, subregions and n - reported witness)",
            "fields after k then l vs k+l are proved equal on mesh, labels, mapping, unit and entry by entry on every index of the shape (field_compose, field_compose_values); equality of the arrays as total functions outside the shape is not claimed, and four successive quarter turns of a FIELD are not stated as one theorem (they follow from rotate_mod4 + field_compose + field_turn_zero only up to that in-range equality)",
            "the value invariant FldVInv (len(value) = nvdim = len(vdims), mapping keys unique) is a hypothesis of field_inverse_values / field_compose_values, proved preserved by every step (value_invariant_kept) but established for freshly constructed fields by the constructor only on the real code (observed), not in the model; Fld.rDim takes the first pair mapping onto an axis, Python's reversed dict the last - equal unless two components map to the same axis (never generated)"]
BUDGET = {"quick": 90, "thorough": 900}


def cases(rng, tier):
    n = 360 if tier == "quick" else 2400
    for k in range(n):
        spec = tc.gen_object_spec(rng, "field", ndim=rng.choice([2, 3, 3, 4]))
        dims = tc.dims_of(spec)
        a1, a2 = rng.sample(dims, 2)
        nd = len(dims)
        ref = None if rng.random() < 0.4 else [float(Fraction(rng.randint(-64, 64), 4)) for _ in range(nd)]
        if ref is not None and rng.random() < 0.1:
            ref = [0.0] * nd
        yield dict(obj=spec, ax1=a1, ax2=a2, k=rng.randint(-6, 6), ref=ref, k2=rng.randint(-5, 5),
                   form=rng.choice(["list", "tuple", "ndarray", "intlist"]))
    # exhaustive over ordered pairs x k on one 3-d vector field with permuted mapping
    base = tc.gen_object_spec(random.Random(7), "field", ndim=3)
    base["nvdim"] = 3
    ncell = int(np.prod(base["mesh"]["n"]))
    base["data"] = list(range(1, 3 * ncell + 1))
    base["vdims"] = ["a", "b", "c"]
    d = tc.dims_of(base)
    base["vmap"] = [["b", d[0]], ["c", d[1]], ["a", d[2]]]
    for a1, a2 in itertools.permutations(d, 2):
        for k in range(-5, 6):
            yield dict(obj=base, ax1=a1, ax2=a2, k=k, ref=None, k2=1, _exh=True)


def qmat(k):
    return [(1, 0), (0, 1), (-1, 0), (0, -1)][k % 4]  # (cos, sin)


def rot_point(p, R, i1, i2, k):
    c, s = qmat(k)
    q = list(p)
    q[i1] = R[i1] + c * (p[i1] - R[i1]) - s * (p[i2] - R[i2])
    q[i2] = R[i2] + s * (p[i1] - R[i1]) + c * (p[i2] - R[i2])
    return q


def run_impl(case):
    obs = {"oracle": [], "tags": []}
    fail = obs["oracle"].append
    f = tc.build_object(case["obj"])
    a1, a2, k, ref = case["ax1"], case["ax2"], case["k"], case["ref"]
    ref_arg = tc._as_form(ref, case.get("form", "list"))          # the same point as list / tuple / ndarray / ints
    dims = list(f.mesh.region.dims)
    i1, i2 = dims.index(a1), dims.index(a2)
    obs["start"] = tc.to_json(f)
    before = tc.snap(f)
    mapped = True
    if f.nvdim > 1:
        rmap = {v: kk for kk, v in f.vdim_mapping.items()}
        mapped = rmap.get(a1) in (f.vdims or []) and rmap.get(a2) in (f.vdims or [])
    obs["tags"] += [f"ndim:{len(dims)}", f"nvdim:{f.nvdim}", f"k%4:{k % 4}", f"mapped:{mapped}", f"ref:{'default' if ref is None else 'given'}"]
    try:
        g = f.rotate90(a1, a2, k=k, reference_point=ref_arg)
        st = "ok"
    except Exception as e:
        g, st = None, "err"
    obs["st"] = st
    if not same_state(tc.snap(f), before, rel=0):
        fail("copying rotate90 modified the field")
    twin = tc.clone(f)
    try:
        r2 = twin.rotate90(a1, a2, k=k, reference_point=ref_arg, inplace=True)
        st2 = "ok"
    except Exception:
        r2, st2 = None, "err"
    if st != st2:
        fail(f"copy form {st}, in-place form {st2}")
    if isinstance(ref_arg, np.ndarray) and ref_arg.tolist() != list(ref):
        fail(f"the array passed as reference_point was changed by rotate90: {ref} -> {ref_arg.tolist()}")
    if st2 == "err" and not same_state(tc.snap(twin), before, rel=0):
        fail("refused in-place rotate90 modified the field")
    if not mapped:
        if st == "ok":
            fail(f"vector field without mapping for {a1}/{a2} was rotated (mapping {f.vdim_mapping})")
        obs["nontrivial"] = False
        return obs
    if st != "ok":
        fail(f"rotate90({a1},{a2},k={k},ref={ref}) refused for a mapped field")
        return obs
    if st2 == "ok":
        if r2 is not twin:
            fail("in-place rotate90 did not return the field itself")
        if not same_state(tc.snap(g), tc.snap(twin)):
            fail("in-place rotate90 differs from the copying form")
    obs["res"] = tc.to_json(g)
    tc.check_inv(g, fail, "rotated field")
    # ---- geometry + values: g(R + Q(p - R)) = Q f(p) at every cell centre
    R = [Fraction(x) for x in ref] if ref is not None else [Fraction(float(a)) / 2 + Fraction(float(b)) / 2 for a, b in zip(f.mesh.region.pmin, f.mesh.region.pmax)]
    c, s = qmat(k)
    c1 = c2 = None
    if f.nvdim > 1:
        c1, c2 = f.vdims.index(rmap[a1]), f.vdims.index(rmap[a2])
    n = [int(x) for x in f.mesh.n]
    bad = 0
    for idx in itertools.product(*[range(x) for x in n]):
        p = [Fraction(float(x)) for x in f.mesh.index2point(idx)]
        q = rot_point(p, R, i1, i2, k)
        try:
            j = g.mesh.point2index([float(x) for x in q])
        except Exception:
            fail(f"image {list(map(float, q))} of cell centre {list(map(float, p))} is outside the rotated mesh")
            bad += 1
            break
        cq = g.mesh.index2point(j)
        if any(abs(Fraction(float(x)) - y) > Fraction(1, 2**30) * max(1, abs(y)) for x, y in zip(cq, q)):
            fail(f"image of cell centre {list(map(float, p))} is {list(map(float, q))}, not a cell centre of the rotated mesh (nearest {cq.tolist()})")
            break
        v = [Fraction(float(x)) for x in f.array[idx]]
        if c1 is not None:
            w = list(v)
            w[c1] = c * v[c1] - s * v[c2]
            w[c2] = s * v[c1] + c * v[c2]
        else:
            w = v
        gv = g.array[tuple(j)]
        vtol = Fraction(1, 10**9) * max([abs(x) for x in v] + [Fraction(0)])      # relative to the cell's own magnitude
        if any(abs(Fraction(float(x)) - y) > vtol for x, y in zip(gv, w)):
            fail(f"g(R+Q(p-R)) = {gv.tolist()} but Q f(p) = {list(map(float, w))} at p={list(map(float, p))} (k={k}, axes {a1}->{a2}, mapping {f.vdim_mapping})")
            break
        if bool(g.valid[tuple(j)]) != bool(f.valid[idx]):
            fail(f"validity did not move with the cell at p={list(map(float, p))}")
            break
    # subregions: images of the source subregions
    for name, sr in f.mesh.subregions.items():
        if name not in g.mesh.subregions:
            fail(f"subregion {name} lost")
            continue
        a = rot_point([Fraction(float(x)) for x in sr.pmin], R, i1, i2, k)
        b = rot_point([Fraction(float(x)) for x in sr.pmax], R, i1, i2, k)
        lo = [min(x, y) for x, y in zip(a, b)]
        hi = [max(x, y) for x, y in zip(a, b)]
        gs = g.mesh.subregions[name]
        if any(abs(Fraction(float(x)) - y) > Fraction(1, 2**30) * max(1, abs(y)) for x, y in zip(list(gs.pmin) + list(gs.pmax), lo + hi)):
            fail(f"subregion {name} is not the image of the source subregion")
    exp_n = list(n)
    exp_u = list(f.mesh.region.units)
    if k % 2 == 1:
        exp_n[i1], exp_n[i2] = exp_n[i2], exp_n[i1]
        exp_u[i1], exp_u[i2] = exp_u[i2], exp_u[i1]
    if [int(x) for x in g.mesh.n] != exp_n or list(g.mesh.region.units) != exp_u:
        fail(f"n/units after k={k}: {list(map(int, g.mesh.n))}/{g.mesh.region.units}, expected {exp_n}/{exp_u}")
    if list(g.mesh.region.dims) != dims or (g.vdims and list(g.vdims)) != (f.vdims and list(f.vdims)) or g.vdim_mapping != f.vdim_mapping or g.unit != f.unit:
        fail("dimension names, component labels, mapping or unit changed")
    # ---- group laws (explicit reference so that all turns are about the same point)
    Rf = [float(x) for x in R]
    same = lambda x, y: same_state(tc.snap(x), tc.snap(y), rel=2**-36)
    if not same(f.rotate90(a1, a2, k=k % 4, reference_point=Rf), f.rotate90(a1, a2, k=k, reference_point=Rf)):
        fail(f"rotation by k={k} differs from k mod 4 = {k % 4}")
    h = f
    for _ in range(4):
        h = h.rotate90(a1, a2, reference_point=Rf)
    if not same(h, f):
        fail("four quarter turns are not the identity")
    if not same(f.rotate90(a1, a2, k=k, reference_point=Rf).rotate90(a1, a2, k=-k, reference_point=Rf), f):
        fail(f"turn by {k} followed by {-k} is not the identity")
    k2 = case["k2"]
    if not same(f.rotate90(a1, a2, k=k, reference_point=Rf).rotate90(a1, a2, k=k2, reference_point=Rf),
                f.rotate90(a1, a2, k=k + k2, reference_point=Rf)):
        fail(f"k={k} then k={k2} differs from k={k + k2}")
    # ---- the copying form returns an object of its own, whatever k: changing the result in place (geometry,
    #      subregions, array, validity) must leave the original as it was (whole turns included)
    for kk in sorted({k, k % 4, 4 * (k // 4), 0, -4}):
        for what, src in (("field", f), ("mesh", f.mesh), ("region", f.mesh.region)):
            keep = tc.snap(f)
            try:
                out = src.rotate90(a1, a2, k=kk, reference_point=Rf)
            except Exception:
                continue
            tc.disturb(out)
            if not same_state(tc.snap(f), keep, rel=0):
                fail(f"changing the {what} returned by the copying rotate90(k={kk}) in place changed the original")
                break
    # ---- region / mesh / field consistent
    gm = f.mesh.rotate90(a1, a2, k=k, reference_point=ref)
    if not same_state(tc.snap(gm), tc.snap(g.mesh)):
        fail("mesh of the rotated field differs from the rotated mesh")
    gr = f.mesh.region.rotate90(a1, a2, k=k, reference_point=ref)
    if not same_state(tc.snap(gr), tc.snap(gm.region)):
        fail("region of the rotated mesh differs from the rotated region")
    obs["nontrivial"] = k % 4 != 0 and max(n[i1], n[i2]) >= 2
    return obs


def model_requests(case, obs):
    if "start" not in obs:
        return []
    op = dict(t="rotate90", ax1=case["ax1"], ax2=case["ax2"], k=case["k"], ref=case["ref"], inplace=False)
    return [dict(op="field_history", field=obs["start"], ops=[tc.op_json(op)])]


def compare(case, obs, rs):
    dis = []
    if not rs:
        return dis
    mr = rs[0][0]
    if (obs["st"] == "ok") != ("ok" in mr):
        dis.append(f"rotate90: impl {obs['st']} vs model {'ok' if 'ok' in mr else mr}")
    elif obs["st"] == "ok" and "res" in obs:
        cmp_json("rotate90 result", obs["res"], mr["ok"]["ret"], dis)
    return dis


def nontrivial(case, obs):
    return bool(obs.get("nontrivial"))


def known(case, text):
    return None


def search(case, rng):
    for _ in range(60):
        c = dict(case)
        c["k"] = rng.randint(-6, 6)
        dims = tc.dims_of(case["obj"])
        c["ax1"], c["ax2"] = rng.sample(dims, 2)
        yield c
