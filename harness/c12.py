"""C12 — quarter-turn rotations move values, vectors, validity and geometry together."""
import itertools
import random
from fractions import Fraction

import numpy as np

from . import core, fieldio, tcommon as tc
from .c13 import cmp_json, same_state
from .core import Q, Qs, F

import discretisedfield as df

PID = "C12"
RULE = ("2-4-d fields with distinct integer data, anisotropic counts and dyadic cell sizes, masks, 0-2 subregions, 1-4 components with "
        "permuted / partial / empty / default component-to-axis mappings; every ordered axis pair x k in -6..6 (sampled per case, "
        "exhaustive over pairs x k for one 3-d field per run), reference point default or dyadic, both forms. Oracle on the real code: "
        "g(R+Q(p-R)) = Q f(p) with the exact integer matrix for every cell centre, validity and subregions moved with the cells, n/units "
        "swap for odd k, names kept, k == k mod 4, four turns and k then -k are the identity, k1 then k2 == k1+k2, region/mesh/field "
        "consistent, in-place == copy, unmapped vector fields refused unchanged. Model (np.rot90 index map + exact component rotation) "
        "compared on every returned object, values EXACTLY for every storage kind (int / float32 / float64 / complex with zero imaginary part; dtype kept); k also "
        "1002, -1001, 10^6+1, -(10^6)-3; the model's constructor mkFld? builds every field (field_ctor) and refuses the malformed-constructor stream (labels of wrong "
        "length / repeated, mapping keys that are not the labels, arrays of wrong shape). non-trivial = k mod 4 != 0 and at least two cells along one rotated axis")
TRUSTED = ["harness/c12.py, harness/tcommon.py + driver JSON glue", "np.rot90 modelled by its flip/transpose definition"]
ASSUMPTIONS = ["corners: ref + M_k (p - ref) with the exact integer matrix of k quarter turns in model and (since repo fix d6b0640f) code; the two roundings per coordinate of the subtraction/addition of the reference point are bridged by a 2^-40 relative bound; VALUES are compared exactly"]
UNPROVED = ["periodic direction turned onto an axis with a multi-character name: the code leaves bc unchanged (open finding D57); the theorems state the exact condition - both axis names single characters (periodic_directions_turn) - and the failure otherwise (rotBc leaves bc alone for every k: periodic_direction_lost_multichar, d57_witness); nothing is proved about what bc 'should' become there",
            "in-place Mesh.rotate90 assigns bc through the bc setter (str.lower + check): the value model assigns the swapped string directly, the STORE model (Model/C13Store.lean) goes through the setter, and DFV.C13.inplace_mesh_step_in_store proves the two equal for well-formed bc (BcWf: bc lower-case and checked, single-character dimension names lower-case); meshes whose single-character dimension names are upper-case are outside every bc theorem (since repo fix be43fa9b the code leaves bc alone there, like rotBc)",
            "fields after k then l vs k+l, after k then -k and after four quarter turns (field_compose, field_compose_values, field_inverse_complete, field_four_turns - now ONE theorem with acceptance of all four calls) are proved equal on mesh, labels, mapping, unit and entry by entry on every index of the shape; equality of the arrays as total functions outside the shape is not claimed",
            "the value invariant FldVInv is now ESTABLISHED by the model of the constructor (mkFld?: array check, valid setter, vdims setter, vdim_mapping setter in the code's order; constructor_establishes_invariants, constructed_field_turns; tied to Field.__init__ by the field_ctor correspondence incl. malformed labels / mappings / arrays) - not modelled there: dtype and norm arguments, the hasattr test of the vdims setter (labels colliding with attribute names of Field), values given as scalars / callables / dicts (C02), numpy broadcasting of arrays that do not already have shape (*n, nvdim)",
            "storage kinds: the model's values are rationals; integer / float32 / float64 storage is covered by the closure theorem (field_rotation_closed: any set of numbers closed under negation is preserved, field_rotation_keeps_integers) and by EXACT comparison of every value with the code (dtype kept); outside the model: complex values with non-zero imaginary part, and UNSIGNED-integer or Boolean storage of a turned VECTOR field, which cannot represent the negated component (uint8 (3,3) -> (253,3) for k=1; OverflowError for k=2,3 - an observation, such storage is not generated)",
            "non-injective component-to-axis mappings: the component turned for an axis is the LAST label mapped onto it (turned_label_is_last; Fld.rDim follows _r_dim_mapping); labels sharing an axis with a later label are carried along unchanged - nothing is proved about whether that is what a user of such a mapping wants"]
BUDGET = {"quick": 90, "thorough": 900}


def cases(rng, tier):
    n = 360 if tier == "quick" else 2400
    for k in range(n):
        spec = tc.gen_object_spec(rng, "field", ndim=rng.choice([2, 3, 3, 4]))
        dims = tc.dims_of(spec)
        a1, a2 = rng.sample(dims, 2)
        nd = len(dims)
        ref = None if rng.random() < 0.4 else [float(Fraction(rng.randint(-64, 64), 4)) for _ in range(nd)]
        if ref is not None and rng.random() < 0.1:
            ref = [0.0] * nd
        kk = rng.randint(-6, 6)
        if rng.random() < 0.05:
            kk = rng.choice([1002, -1001, 10 ** 6 + 1, -(10 ** 6) - 3])      # many whole turns (finding D131, fixed d6b0640f)
        yield dict(obj=spec, ax1=a1, ax2=a2, k=kk, ref=ref, k2=rng.randint(-5, 5),
                   form=rng.choice(["list", "tuple", "ndarray", "intlist"]))
    # the constructor itself (round 3: the model builds the field, `field_ctor`): malformed labels / mappings / arrays
    # must be refused by Field.__init__ and by the model's mkFld? alike; well-formed ones are compared in every case above
    for k in range(60 if tier == "quick" else 400):
        spec = tc.gen_object_spec(rng, "field", ndim=rng.choice([2, 3]))
        bad = rng.choice(["vdims_len", "vdims_dup", "vmap_key", "vmap_missing", "rowlen", "shape"])
        nv = spec["nvdim"]
        if bad in ("vdims_dup", "vmap_key", "vmap_missing") and (nv < 2 or not spec.get("vmap")):
            bad = "rowlen"
        dims = tc.dims_of(spec)
        a1, a2 = rng.sample(dims, 2)
        yield dict(obj=spec, ax1=a1, ax2=a2, k=1, ref=None, k2=1, ctorbad=bad)
    # exhaustive over ordered pairs x k on one 3-d vector field with permuted mapping
    base = tc.gen_object_spec(random.Random(7), "field", ndim=3)
    base["nvdim"] = 3
    ncell = int(np.prod(base["mesh"]["n"]))
    base["data"] = list(range(1, 3 * ncell + 1))
    base["vdims"] = ["a", "b", "c"]
    d = tc.dims_of(base)
    base["vmap"] = [["b", d[0]], ["c", d[1]], ["a", d[2]]]
    for a1, a2 in itertools.permutations(d, 2):
        for k in range(-5, 6):
            yield dict(obj=base, ax1=a1, ax2=a2, k=k, ref=None, k2=1, _exh=True)


def ctor_args(spec, bad=None):
    """the arguments Field.__init__ is called with (as tcommon.build_object builds them), optionally made malformed"""
    nv = spec["nvdim"]
    n = list(spec["mesh"]["n"])
    ncell = int(np.prod(n))
    rows = [[float(x) * 2.0 ** spec.get("vexp", 0) for x in spec["data"][c * nv:(c + 1) * nv]] for c in range(ncell)]
    shape = list(n)
    labels = spec.get("vdims") or (None if nv == 1 else (["x", "y", "z"][:nv] if nv <= 3 else [f"v{i}" for i in range(nv)]))
    vdims = spec.get("vdims")
    vmap = spec.get("vmap")
    vmap = None if vmap is None else [list(e) for e in vmap]
    if bad == "vdims_len":
        vdims = list(labels or ["s"]) + ["extra"]
    elif bad == "vdims_dup":
        vdims = [labels[0]] * nv
    elif bad == "vmap_key":
        vmap[0][0] = "zz"
    elif bad == "vmap_missing":
        vmap = vmap[1:] if len(vmap) > 1 else [["zz", vmap[0][1]]]
    elif bad == "rowlen":
        rows = [r + [0.0] for r in rows]
    elif bad == "shape":
        shape[0] += 1
        rows = rows + rows[:int(np.prod(shape)) - ncell]
    return dict(nvdim=nv, shape=shape, rows=rows, valid=list(spec["valid"]), vdims=vdims, vmap=vmap, unit=spec.get("unit"))


def build_field(spec, bad=None):
    if bad is None:
        return tc.build_object(spec)
    mesh = tc.build_object(dict(spec, kind="mesh"))
    a = ctor_args(spec, bad)
    arr = np.array(a["rows"], dtype=float).reshape((*a["shape"], len(a["rows"][0])))
    kw = {}
    if a["vdims"]:
        kw["vdims"] = a["vdims"]
    if a["vmap"] is not None:
        kw["vdim_mapping"] = {k: v for k, v in a["vmap"]}
    return df.Field(mesh, nvdim=a["nvdim"], value=arr, valid=np.array(a["valid"], dtype=bool).reshape(tuple(mesh.n)),
                    unit=a["unit"], **kw)


def ctor_request(mesh_json, spec, bad=None):
    a = ctor_args(spec, bad)
    return dict(op="field_ctor", mesh=mesh_json, nvdim=a["nvdim"], shape=a["shape"], data=[Qs(r) for r in a["rows"]],
                vshape=list(spec["mesh"]["n"]), valid=a["valid"], vdims=(a["vdims"] or None), vmap=a["vmap"], unit=a["unit"])


def qmat(k):
    return [(1, 0), (0, 1), (-1, 0), (0, -1)][k % 4]  # (cos, sin)


def rot_point(p, R, i1, i2, k):
    c, s = qmat(k)
    q = list(p)
    q[i1] = R[i1] + c * (p[i1] - R[i1]) - s * (p[i2] - R[i2])
    q[i2] = R[i2] + s * (p[i1] - R[i1]) + c * (p[i2] - R[i2])
    return q


def run_impl(case):
    obs = {"oracle": [], "tags": []}
    fail = obs["oracle"].append
    bad = case.get("ctorbad")
    if bad:
        obs["tags"] += ["ctor:" + bad]
        obs["mesh0"] = tc.to_json(tc.build_object(dict(case["obj"], kind="mesh")))
        try:
            build_field(case["obj"], bad)
            obs["ctor"] = "ok"
            fail(f"Field.__init__ accepted malformed arguments ({bad})")
        except Exception:
            obs["ctor"] = "err"
        obs["nontrivial"] = True
        return obs
    f = tc.build_object(case["obj"])
    obs["ctor"] = "ok"
    obs["mesh0"] = tc.to_json(f.mesh)
    a1, a2, k, ref = case["ax1"], case["ax2"], case["k"], case["ref"]
    ref_arg = tc._as_form(ref, case.get("form", "list"))          # the same point as list / tuple / ndarray / ints
    dims = list(f.mesh.region.dims)
    i1, i2 = dims.index(a1), dims.index(a2)
    obs["start"] = tc.to_json(f)
    before = tc.snap(f)
    mapped = True
    if f.nvdim > 1:
        rmap = {v: kk for kk, v in f.vdim_mapping.items()}
        mapped = rmap.get(a1) in (f.vdims or []) and rmap.get(a2) in (f.vdims or [])
    obs["tags"] += [f"ndim:{len(dims)}", f"nvdim:{f.nvdim}", f"k%4:{k % 4}", f"mapped:{mapped}", f"ref:{'default' if ref is None else 'given'}"]
    try:
        g = f.rotate90(a1, a2, k=k, reference_point=ref_arg)
        st = "ok"
    except Exception as e:
        g, st = None, "err"
    obs["st"] = st
    if not same_state(tc.snap(f), before, rel=0):
        fail("copying rotate90 modified the field")
    twin = tc.clone(f)
    try:
        r2 = twin.rotate90(a1, a2, k=k, reference_point=ref_arg, inplace=True)
        st2 = "ok"
    except Exception:
        r2, st2 = None, "err"
    if st != st2:
        fail(f"copy form {st}, in-place form {st2}")
    if isinstance(ref_arg, np.ndarray) and ref_arg.tolist() != list(ref):
        fail(f"the array passed as reference_point was changed by rotate90: {ref} -> {ref_arg.tolist()}")
    if st2 == "err" and not same_state(tc.snap(twin), before, rel=0):
        fail("refused in-place rotate90 modified the field")
    if not mapped:
        if st == "ok":
            fail(f"vector field without mapping for {a1}/{a2} was rotated (mapping {f.vdim_mapping})")
        obs["nontrivial"] = False
        return obs
    if st != "ok":
        fail(f"rotate90({a1},{a2},k={k},ref={ref}) refused for a mapped field")
        return obs
    if st2 == "ok":
        if r2 is not twin:
            fail("in-place rotate90 did not return the field itself")
        if not same_state(tc.snap(g), tc.snap(twin)):
            fail("in-place rotate90 differs from the copying form")
    obs["res"] = tc.to_json(g)
    if g.array.dtype != f.array.dtype or (st2 == "ok" and twin.array.dtype != f.array.dtype):
        fail(f"rotate90 changed the storage type of the values: {f.array.dtype} -> {g.array.dtype} (copy) / "
             f"{twin.array.dtype if st2 == 'ok' else '-'} (in place)")
    tc.check_inv(g, fail, "rotated field")
    # ---- geometry + values: g(R + Q(p - R)) = Q f(p) at every cell centre
    R = [Fraction(x) for x in ref] if ref is not None else [Fraction(float(a)) / 2 + Fraction(float(b)) / 2 for a, b in zip(f.mesh.region.pmin, f.mesh.region.pmax)]
    c, s = qmat(k)
    c1 = c2 = None
    if f.nvdim > 1:
        c1, c2 = f.vdims.index(rmap[a1]), f.vdims.index(rmap[a2])
    n = [int(x) for x in f.mesh.n]
    bad = 0
    for idx in itertools.product(*[range(x) for x in n]):
        p = [Fraction(float(x)) for x in f.mesh.index2point(idx)]
        q = rot_point(p, R, i1, i2, k)
        try:
            j = g.mesh.point2index([float(x) for x in q])
        except Exception:
            fail(f"image {list(map(float, q))} of cell centre {list(map(float, p))} is outside the rotated mesh")
            bad += 1
            break
        cq = g.mesh.index2point(j)
        if any(abs(Fraction(float(x)) - y) > Fraction(1, 2**30) * max(1, abs(y)) for x, y in zip(cq, q)):
            fail(f"image of cell centre {list(map(float, p))} is {list(map(float, q))}, not a cell centre of the rotated mesh (nearest {cq.tolist()})")
            break
        v = [Fraction(float(x)) for x in f.array[idx]]
        if c1 is not None:
            w = list(v)
            w[c1] = c * v[c1] - s * v[c2]
            w[c2] = s * v[c1] + c * v[c2]
        else:
            w = v
        gv = g.array[tuple(j)]
        vtol = Fraction(1, 10**9) * max([abs(x) for x in v] + [Fraction(0)])      # relative to the cell's own magnitude
        if any(abs(Fraction(float(x)) - y) > vtol for x, y in zip(gv, w)):
            fail(f"g(R+Q(p-R)) = {gv.tolist()} but Q f(p) = {list(map(float, w))} at p={list(map(float, p))} (k={k}, axes {a1}->{a2}, mapping {f.vdim_mapping})")
            break
        if bool(g.valid[tuple(j)]) != bool(f.valid[idx]):
            fail(f"validity did not move with the cell at p={list(map(float, p))}")
            break
    # subregions: images of the source subregions
    for name, sr in f.mesh.subregions.items():
        if name not in g.mesh.subregions:
            fail(f"subregion {name} lost")
            continue
        a = rot_point([Fraction(float(x)) for x in sr.pmin], R, i1, i2, k)
        b = rot_point([Fraction(float(x)) for x in sr.pmax], R, i1, i2, k)
        lo = [min(x, y) for x, y in zip(a, b)]
        hi = [max(x, y) for x, y in zip(a, b)]
        gs = g.mesh.subregions[name]
        if any(abs(Fraction(float(x)) - y) > Fraction(1, 2**30) * max(1, abs(y)) for x, y in zip(list(gs.pmin) + list(gs.pmax), lo + hi)):
            fail(f"subregion {name} is not the image of the source subregion")
    exp_n = list(n)
    exp_u = list(f.mesh.region.units)
    if k % 2 == 1:
        exp_n[i1], exp_n[i2] = exp_n[i2], exp_n[i1]
        exp_u[i1], exp_u[i2] = exp_u[i2], exp_u[i1]
    if [int(x) for x in g.mesh.n] != exp_n or list(g.mesh.region.units) != exp_u:
        fail(f"n/units after k={k}: {list(map(int, g.mesh.n))}/{g.mesh.region.units}, expected {exp_n}/{exp_u}")
    if list(g.mesh.region.dims) != dims or (g.vdims and list(g.vdims)) != (f.vdims and list(f.vdims)) or g.vdim_mapping != f.vdim_mapping or g.unit != f.unit:
        fail("dimension names, component labels, mapping or unit changed")
    # ---- group laws (explicit reference so that all turns are about the same point)
    Rf = [float(x) for x in R]
    same = lambda x, y: same_state(tc.snap(x), tc.snap(y), rel=2**-36)
    if not same(f.rotate90(a1, a2, k=k % 4, reference_point=Rf), f.rotate90(a1, a2, k=k, reference_point=Rf)):
        fail(f"rotation by k={k} differs from k mod 4 = {k % 4}")
    h = f
    for _ in range(4):
        h = h.rotate90(a1, a2, reference_point=Rf)
    if not same(h, f):
        fail("four quarter turns are not the identity")
    if not same(f.rotate90(a1, a2, k=k, reference_point=Rf).rotate90(a1, a2, k=-k, reference_point=Rf), f):
        fail(f"turn by {k} followed by {-k} is not the identity")
    k2 = case["k2"]
    if not same(f.rotate90(a1, a2, k=k, reference_point=Rf).rotate90(a1, a2, k=k2, reference_point=Rf),
                f.rotate90(a1, a2, k=k + k2, reference_point=Rf)):
        fail(f"k={k} then k={k2} differs from k={k + k2}")
    # ---- the copying form returns an object of its own, whatever k: changing the result in place (geometry,
    #      subregions, array, validity) must leave the original as it was (whole turns included)
    for kk in sorted({k, k % 4, 4 * (k // 4), 0, -4}):
        for what, src in (("field", f), ("mesh", f.mesh), ("region", f.mesh.region)):
            keep = tc.snap(f)
            try:
                out = src.rotate90(a1, a2, k=kk, reference_point=Rf)
            except Exception:
                continue
            tc.disturb(out)
            if not same_state(tc.snap(f), keep, rel=0):
                fail(f"changing the {what} returned by the copying rotate90(k={kk}) in place changed the original")
                break
    # ---- region / mesh / field consistent
    gm = f.mesh.rotate90(a1, a2, k=k, reference_point=ref)
    if not same_state(tc.snap(gm), tc.snap(g.mesh)):
        fail("mesh of the rotated field differs from the rotated mesh")
    gr = f.mesh.region.rotate90(a1, a2, k=k, reference_point=ref)
    if not same_state(tc.snap(gr), tc.snap(gm.region)):
        fail("region of the rotated mesh differs from the rotated region")
    obs["nontrivial"] = k % 4 != 0 and max(n[i1], n[i2]) >= 2
    return obs


def model_requests(case, obs):
    if "mesh0" not in obs:
        return []
    reqs = [ctor_request(obs["mesh0"], case["obj"], case.get("ctorbad"))]
    if "start" in obs:
        op = dict(t="rotate90", ax1=case["ax1"], ax2=case["ax2"], k=case["k"], ref=case["ref"], inplace=False)
        reqs.append(dict(op="field_history", field=obs["start"], ops=[tc.op_json(op)]))
    return reqs


def exact_data(name, a, b, dis):
    """values as exact rationals (the component rotation multiplies by 0, 1, -1 only: integer, single-precision and
    double storage alike come out exactly, since repo fix 1656fb93)"""
    if len(a) != len(b):
        dis.append(f"{name}: cell count impl {len(a)} vs model {len(b)}")
        return
    for k, (ra, rb) in enumerate(zip(a, b)):
        if len(ra) != len(rb) or any(F(x) != F(y) for x, y in zip(ra, rb)):
            dis.append(f"{name}: value at flat cell {k}: impl {ra} vs model {rb} (exact comparison)")
            return


def compare(case, obs, rs):
    dis = []
    if not rs:
        return dis
    cr = rs[0]
    if (obs["ctor"] == "ok") != ("ok" in cr):
        dis.append(f"Field.__init__ ({case.get('ctorbad') or 'well-formed'}): impl {obs['ctor']} vs model {'ok' if 'ok' in cr else cr}")
        return dis
    if obs["ctor"] == "ok" and "start" in obs:
        # the field the model's constructor builds is the field the real constructor built
        cmp_json("Field.__init__ result", obs["start"], cr["ok"], dis)
        exact_data("Field.__init__ result", obs["start"]["data"], cr["ok"]["data"], dis)
    if len(rs) < 2 or dis:
        return dis
    mr = rs[1][0]
    if (obs["st"] == "ok") != ("ok" in mr):
        dis.append(f"rotate90: impl {obs['st']} vs model {'ok' if 'ok' in mr else mr}")
    elif obs["st"] == "ok" and "res" in obs:
        cmp_json("rotate90 result", obs["res"], mr["ok"]["ret"], dis)
        exact_data("rotate90 result", obs["res"]["data"], mr["ok"]["ret"]["data"], dis)
    return dis


def nontrivial(case, obs):
    return bool(obs.get("nontrivial"))


def known(case, text):
    return None


def search(case, rng):
    for _ in range(60):
        c = dict(case)
        c["k"] = rng.randint(-6, 6)
        dims = tc.dims_of(case["obj"])
        c["ax1"], c["ax2"] = rng.sample(dims, 2)
        yield c
