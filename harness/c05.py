"""C05 — grad, div, curl and Laplacian are the textbook combinations of the derivatives."""
import itertools
import random
import re
from fractions import Fraction

import numpy as np

from . import core, fieldio
from .core import Q, F

import discretisedfield as df

PID = "C05"
RULE = ("(a) Field.grad/div/curl/laplace on 1-4-d meshes with anisotropic dyadic cells, renamed dims, random component "
        "labels (including labels that spell OTHER axes' names), every kind of component-to-axis mapping (default, every "
        "permutation - exhaustively in 2-d and 3-d -, empty, non-injective, onto a non-axis), scalar fields with and without a "
        "manual label, nvdim equal / unequal to ndim, open and periodic directions, with and without invalid cells: result "
        "arrays, validity, labels, mapping, unit and accept/refuse must equal the rational model (exactly in the exact regime, "
        "absolute bound 2^-30*(max|f|/h + max|f|/h^2) otherwise); (b) one quarter turn Field.rotate90 of the operand (random "
        "axis pair, also the same axis twice / an unknown axis) against the model's rot90Fld, and Field.rotate90 with a random integer k in "
        "-9..9 (negative, multiples of 4, |k|>4) against the model's rot90FldK: geometry, n, bc, units, validity, "
        "labels, mapping, values (scalars exactly, vectors within 2^-40 because the code multiplies by cos/sin(k*pi/2)); "
        "(c) constructor path and the vdims / vdim_mapping setters (valid and malformed): labels, mapping, reversed mapping and "
        "accept/refuse must equal the model; (d) __getattr__ and << against the model. Oracle on the real code alone: refusals "
        "exactly as the property lists them; exactness on polynomials of total degree <=2 (n>=3 per axis, open, fully valid) "
        "against the analytic operator paired through the mapping; curl(grad)=0 and div(curl)=0 on every fully valid mesh; "
        "invariance of div and curl under storage permutation + relabelling; vector-Laplacian pairing; commutation of all four "
        "with rotate90 for ordered axis pairs and k=1..3 (two random triples per case, all triples on a share of the cases), "
        "with and without masks and periodic directions; the same commutation at object level (one call per case): explicit dyadic reference point "
        "(also far outside the region), in-place and copying form for field and result independently, a mesh WITH a subregion of whole cells, random "
        "k in -7..6 - values, validity and the mesh (region, n, bc, subregions) of the two results must agree, the in-place call must return its receiver; "
        "relabelling transports the mapping position-wise; operands untouched. "
        "non-trivial = non-constant data and at least one operator accepted, or a meta/parts case")
TRUSTED = ["harness/c05.py, harness/fieldio.py + driver JSON glue",
           "Field.diff modelled by DFV.C04.diff (tied to the code by C04's own correspondence run and re-exercised here through all four operators)",
           "np.stack / np.rot90 (index maps of Model/Transform.lean) / broadcasting / dict update semantics modelled by contract; cos/sin(k*pi/2) modelled by their exact values"]
ASSUMPTIONS = ["exact-regime inputs (dyadic corners, cells 2^-k, small-integer polynomial coefficients): every binary64 operation on the code path of the four operators is exact, so equality is demanded",
               "component labels are not names of Field attributes (the hasattr test of the vdims setter is not modelled)",
               "operands of + - << inside the operators live on the same mesh object (mesh equality is modelled as structural equality); the meshes of the model-vs-code comparison carry no subregions (the object-level oracle adds one on the real code)",
               "findings D55 (vector Laplacian lost labels and mapping) and D56 (Mesh.rotate90 kept bc) are fixed in /repo; their witnesses are corpus cases that must pass"]
UNPROVED = ["ops_commute_rot90 is proved for every integer k, every validity mask, every mesh dimension (grad: the general rule of the default labels, "
            "v0..v(n-1) pairwise different by injectivity of the decimal representation), every combination of open and periodic axes in the plane, "
            "ANY reference point, the in-place and the copying form, and meshes WITH subregions (*_rot90_quarter, *_rot90_iter, *_rot90_all_k on rot90FldK; "
            "*_rotate90_obj on the shared object-level model T.rotate90F of C12/C13, through rotate90_obj_refines_scalar/vector and *_congr; values, validity "
            "and the mesh incl. subregions of the two results). What remains hypothesis: (i) TurnWf for planes with a periodic axis - it holds automatically "
            "when neither axis of the plane is periodic, whatever the names (turnWf_of_open_plane, turnWf_of_no_bc), and it is sharp: turnWf_needed "
            "replays open finding D57 inside the model (2 vs 10); (ii) on meshes WITH subregions the acceptance of the turn of the operand (the mesh "
            "constructor re-validates the turned subregions - C14's property); without subregions acceptance is proved for every reference point "
            "(rotate90_obj_accepts_scalar/vector); (iii) object level, vector fields: one-to-one mapping (OneToOne) - the shared model reads the FIRST key "
            "mapped onto an axis, the code's _r_dim_mapping the LAST; they coincide exactly for one-to-one mappings (rDim_eq_rDimLast); (iv) scalar fields "
            "are plain (no manual label) in the *_defined / *_iter / *_all_k / *_obj theorems",
            "div_perm / curl_perm are proved for a relocation pi given with its inverse (any bijection of the component positions), any new labels, the mapping "
            "carried along; the statement fixes how g is obtained from f (same mesh, validity, values relocated), it does not construct g",
            "binary64 rounding of the operators (curl(grad)=0 / div(curl)=0 'to rounding', cos/sin(k*pi/2) in Field.rotate90) is covered by the tolerance regime of "
            "the correspondence run, not by theorems (the identities are proved exactly over the rationals)"]
BUDGET = {"quick": 120, "thorough": 1200}

DIMPOOL = ["x", "y", "z", "a", "b", "c", "u", "v", "w", "t", "yy", "pq"]
LABELPOOL = ["p", "q", "r", "s", "g", "h", "e", "k", "ma", "mb", "mc", "b1", "b2", "b3"]
OPS = ("grad", "div", "curl", "laplace")


# ------------------------------------------------------------------ polynomials over Fractions
def poly_gen(rng, ndim, deg, nterms=None):
    """random polynomial of total degree <= deg as list of [exps, coef]"""
    monos = [e for e in itertools.product(range(deg + 1), repeat=ndim) if sum(e) <= deg]
    k = nterms or rng.randint(min(2, len(monos)), min(len(monos), 6))
    chosen = rng.sample(monos, min(k, len(monos)))
    top = [e for e in monos if sum(e) == deg]
    if top and not any(sum(e) == deg for e in chosen):
        chosen[0] = rng.choice(top)
    return [[list(e), rng.choice([-3, -2, -1, 1, 2, 3])] for e in chosen]


def poly_eval(p, x):
    s = Fraction(0)
    for e, c in p:
        t = Fraction(c)
        for xa, ea in zip(x, e):
            t *= xa ** ea
        s += t
    return s


def poly_d(p, ax, order=1):
    for _ in range(order):
        q = []
        for e, c in p:
            if e[ax] > 0:
                e2 = list(e)
                e2[ax] -= 1
                q.append([e2, c * e[ax]])
        p = q
    return p


def poly_add(p, q, sq=1):
    return list(p) + [[e, sq * c] for e, c in q]


# ------------------------------------------------------------------ generators
def gen_mesh(rng, exact=True, ndim=None, min_n=1, nmax=5, max_cells=150, bc_prob=0.3, rename=0.6):
    ndim = ndim or rng.choice([1, 2, 2, 3, 3, 3, 4])
    n = [rng.randint(min_n, max(nmax, min_n)) for _ in range(ndim)]
    while int(np.prod(n)) > max_cells and any(x > min_n for x in n):
        k = rng.randrange(ndim)
        n[k] = max(min_n, n[k] - 1)
    exps = rng.sample(range(-1, 4), ndim) if ndim <= 5 else [0] * ndim  # all cell sizes different
    cell = [Fraction(1, 2) ** e if e >= 0 else Fraction(2) ** (-e) for e in exps]
    if not exact:
        cell = [c * rng.choice([3, 5, 7]) for c in cell]
    pmin = [Fraction(rng.randint(-24, 24), 2 ** rng.randint(0, 2)) for _ in range(ndim)]
    pmax = [a + k * c for a, k, c in zip(pmin, n, cell)]
    dims = rng.sample(DIMPOOL, ndim) if rng.random() < rename else None
    if dims is not None and ndim in (2, 3) and rng.random() < 0.2:
        # the default names in another order: default component labels x, y(, z) of results then spell axis names
        # that are NOT the axes the components lie along
        dims = ["x", "y", "z"][:ndim]
        while dims == ["x", "y", "z"][:ndim]:
            rng.shuffle(dims)
    dd = dims or (["x", "y", "z"][:ndim] if ndim <= 3 else [f"x{i}" for i in range(ndim)])
    bc = ""
    if rng.random() < bc_prob and all(len(d) == 1 for d in dd):
        bc = "".join(d for d in dd if rng.random() < 0.5)
    elif rng.random() < bc_prob / 3 and any(len(d) == 1 for d in dd):
        # periodic directions next to axes with multi-character names (bc can only name single-character axes)
        bc = "".join(d for d in dd if len(d) == 1 and rng.random() < 0.7)
    if rng.random() < 0.12:
        dims, bc = fieldio.word_dims(rng, ndim, pool=DIMPOOL)
    # corners given in random order (p1/p2 need not be pmin/pmax)
    flip = [rng.random() < 0.3 for _ in range(ndim)]
    p1 = [float(b if f else a) for a, b, f in zip(pmin, pmax, flip)]
    p2 = [float(a if f else b) for a, b, f in zip(pmin, pmax, flip)]
    return dict(p1=p1, p2=p2, n=n, dims=dims, bc=bc)


def mesh_dims(spec):
    nd = len(spec["n"])
    return spec["dims"] or (["x", "y", "z"][:nd] if nd <= 3 else [f"x{i}" for i in range(nd)])


def gen_labels(rng, nv, dims):
    r = rng.random()
    if r < 0.3:
        return None
    if r < 0.5 and nv == len(dims) and nv > 1:
        # labels spelled like the axes but deranged: pairing by spelling would be wrong
        lab = list(dims)
        while lab == list(dims):
            rng.shuffle(lab)
        if all(not hasattr(df.Field, x) for x in lab):
            return lab
    return rng.sample(LABELPOOL, nv)


def eff_labels(nv, vdims):
    if vdims is not None:
        return list(vdims)
    if nv == 1:
        return None
    return ["x", "y", "z"][:nv] if nv <= 3 else [f"v{i}" for i in range(nv)]


def gen_field_spec(rng, mspec, exact=True, want=None):
    dims = mesh_dims(mspec)
    nd = len(dims)
    want = want or rng.choice(["scalar", "scalar", "vec", "vec", "vec", "vec", "other"])
    if want == "scalar":
        nv = 1
        if rng.random() < 0.3:
            vdims = [rng.choice(LABELPOOL)]
            vmap = rng.choice([None, None, [[vdims[0], rng.choice(dims)]], []])
            mk = "scalar-labelled"
        else:
            vdims, vmap, mk = None, None, "scalar"
    elif want == "vec":
        nv = nd
        vdims = gen_labels(rng, nv, dims) if nv > 1 else [rng.choice(LABELPOOL)]
        lab = eff_labels(nv, vdims)
        r = rng.random()
        if nv == 1:
            vmap, mk = [[lab[0], dims[0]]], "vec1"
        elif r < 0.2:
            vmap, mk = None, "default"
        elif r < 0.7:
            perm = list(dims)
            rng.shuffle(perm)
            pairs = [[l, d] for l, d in zip(lab, perm)]
            rng.shuffle(pairs)  # dict insertion order is not storage order either
            vmap, mk = pairs, ("identity" if perm == list(dims) else "perm")
        elif r < 0.8:
            vmap, mk = [], "empty"
        elif r < 0.9:
            tgt = [rng.choice(dims) for _ in lab]
            if len(set(tgt)) == len(tgt):
                tgt[0] = tgt[-1]
            vmap, mk = [[l, d] for l, d in zip(lab, tgt)], "noninjective"
        else:
            perm = list(dims)
            rng.shuffle(perm)
            perm[rng.randrange(nv)] = "nodim"
            vmap, mk = [[l, d] for l, d in zip(lab, perm)], "nonaxis"
    else:
        nv = rng.choice([k for k in (2, 3, 4, 5) if k != nd])
        vdims = gen_labels(rng, nv, dims)
        lab = eff_labels(nv, vdims)
        if rng.random() < 0.5:
            vmap, mk = None, "other-default"
        else:
            vmap, mk = [[l, rng.choice(dims)] for l in lab], "other-mapped"
    deg = rng.choice([0, 1, 2, 2, 2, 3]) if exact else rng.choice([1, 2, 3])
    polys = [poly_gen(rng, nd, deg) for _ in range(nv)]
    dens = rng.choice([1.0, 1.0, 1.0, 0.85, 0.6])
    return dict(nvdim=nv, vdims=vdims, vmap=vmap, mapkind=mk, deg=deg, polys=polys, density=dens,
                unit=rng.choice([None, "T", "A/m"]))


def cases(rng, tier):
    quick = tier == "quick"
    # ---- exhaustive small scope: every permutation as mapping, 2-d and 3-d, default and renamed dims
    for nd in (2, 3):
        for perm in itertools.permutations(range(nd)):
            for renamed in (False, True):
                ms = gen_mesh(rng, ndim=nd, min_n=3, nmax=4, bc_prob=0.0, rename=1.0 if renamed else 0.0)
                dims = mesh_dims(ms)
                lab = rng.sample(LABELPOOL, nd)
                fs = dict(nvdim=nd, vdims=lab, vmap=[[lab[c], dims[perm[c]]] for c in range(nd)],
                          mapkind="identity" if list(perm) == list(range(nd)) else "perm", deg=2,
                          polys=[poly_gen(rng, nd, 2) for _ in range(nd)], density=1.0, unit=None)
                yield dict(kind="ops", exact=True, mesh=ms, field=fs, sub=rng.getrandbits(32))
    # ---- random operator cases, exact regime
    for _ in range(420 if quick else 2400):
        big = rng.random() < 0.6
        ms = gen_mesh(rng, min_n=3 if big else 1, nmax=5 if quick else 7, max_cells=130 if quick else 300)
        yield dict(kind="ops", exact=True, mesh=ms, field=gen_field_spec(rng, ms), sub=rng.getrandbits(32),
                   allrot=(rng.random() < (0.1 if quick else 0.3)))
    # ---- tolerance regime (cells 3,5,7 * 2^-k, float coefficients)
    for _ in range(70 if quick else 450):
        ms = gen_mesh(rng, exact=False, min_n=rng.choice([1, 3]), nmax=5)
        yield dict(kind="ops", exact=False, mesh=ms, field=gen_field_spec(rng, ms, exact=False), sub=rng.getrandbits(32))
    # ---- constructor path / setters, valid and malformed
    for _ in range(400 if quick else 2400):
        ms = gen_mesh(rng, nmax=2, max_cells=8)
        yield dict(kind="meta", mesh=ms, sub=rng.getrandbits(32))
    # ---- __getattr__ and <<
    for _ in range(80 if quick else 500):
        ms = gen_mesh(rng, nmax=3, max_cells=30)
        yield dict(kind="parts", mesh=ms, a=gen_field_spec(rng, ms), b=gen_field_spec(rng, ms), sub=rng.getrandbits(32))


# ------------------------------------------------------------------ adapters
def centres(spec):
    pmin = [min(Fraction(a), Fraction(b)) for a, b in zip(spec["p1"], spec["p2"])]
    pmax = [max(Fraction(a), Fraction(b)) for a, b in zip(spec["p1"], spec["p2"])]
    cell = [(b - a) / k for a, b, k in zip(pmin, pmax, spec["n"])]
    return [[a + (i + Fraction(1, 2)) * c for i in range(k)] for a, c, k in zip(pmin, cell, spec["n"])], cell


def build_array(spec, polys, scale=1.0):
    cs, _ = centres(spec)
    n = spec["n"]
    arr = np.zeros((*n, len(polys)))
    for idx in np.ndindex(*n):
        x = [cs[a][idx[a]] for a in range(len(n))]
        for c, p in enumerate(polys):
            arr[idx + (c,)] = float(poly_eval(p, x)) * scale
    return arr


def build_field(mesh, mspec, fs, rng, exact=True):
    scale = 1.0 if exact else rng.uniform(0.1, 10.0)
    arr = build_array(mspec, fs["polys"], scale)
    if fs["density"] < 1.0:
        mask = np.array([rng.random() < fs["density"] for _ in range(int(np.prod(mspec["n"])))], dtype=bool).reshape(mspec["n"])
    else:
        mask = True
    kw = {}
    if fs["vdims"] is not None:
        kw["vdims"] = list(fs["vdims"])
    if fs["vmap"] is not None:
        kw["vdim_mapping"] = {k: v for k, v in fs["vmap"]}
    return df.Field(mesh, nvdim=fs["nvdim"], value=arr, valid=mask, unit=fs["unit"], **kw), scale


def attempt(fn):
    try:
        return fn()
    except Exception as e:  # noqa: BLE001 - the property only says "refused"
        return ("err", type(e).__name__)


def is_err(x):
    return isinstance(x, tuple) and len(x) == 2 and x[0] == "err"


def pairing(f):
    """axis index paired with each stored component (None if unmapped / not an axis)"""
    dims = list(f.mesh.region.dims)
    if f.vdims is None:
        return None
    out = []
    for v in f.vdims:
        d = f.vdim_mapping.get(v)
        out.append(dims.index(d) if d in dims else None)
    return out


def frac_arr(a):
    return [Fraction(float(x)) for x in np.asarray(a).reshape(-1)]


def noise(f):
    """magnitude a rounding error of the operators is measured against (tolerance regime)"""
    m = float(np.max(np.abs(f.array))) if f.array.size else 0.0
    h = float(min(f.mesh.cell))
    return m / h + m / (h * h) + 1e-300


def expected_ops(mspec, fs, f):
    """analytic operator values at the cell centres, as Fraction arrays (dict op -> list of per-component polys)"""
    nd = len(mspec["n"])
    P = fs["polys"]
    out = {}
    if fs["nvdim"] == 1:
        out["grad"] = [poly_d(P[0], a) for a in range(nd)]
    pr = pairing(f)
    if fs["nvdim"] == nd and pr is not None and all(x is not None for x in pr):
        tot = []
        for c, a in enumerate(pr):
            tot = poly_add(tot, poly_d(P[c], a))
        out["div"] = [tot]
        if nd == 3 and sorted(pr) == [0, 1, 2]:
            rho = [pr.index(a) for a in range(3)]  # component paired with axis a
            out["curl"] = [poly_add(poly_d(P[rho[2]], 1), poly_d(P[rho[1]], 2), -1),
                           poly_add(poly_d(P[rho[0]], 2), poly_d(P[rho[2]], 0), -1),
                           poly_add(poly_d(P[rho[1]], 0), poly_d(P[rho[0]], 1), -1)]
    lap = []
    for c in range(fs["nvdim"]):
        tot = []
        for a in range(nd):
            tot = poly_add(tot, poly_d(P[c], a, 2))
        lap.append(tot)
    out["laplace"] = lap
    return out


def check_exactness(case, f, res, scale, fail):
    ms, fs = case["mesh"], case["field"]
    if not (fs["deg"] <= 2 and min(ms["n"]) >= 3 and ms["bc"] == "" and fs["density"] >= 1.0):
        return False
    cs, _ = centres(ms)
    exp = expected_ops(ms, fs, f)
    for op, polys in exp.items():
        r = res[op]
        if is_err(r):
            continue  # refusals are judged separately
        arr = r.array
        if arr.shape[-1] != len(polys):
            fail(f"exactness: {op} has {arr.shape[-1]} components, the textbook operator has {len(polys)}")
            continue
        for idx in np.ndindex(*ms["n"]):
            x = [cs[a][idx[a]] for a in range(len(ms["n"]))]
            for c, p in enumerate(polys):
                want = poly_eval(p, x) * Fraction(scale)
                got = Fraction(float(arr[idx + (c,)]))
                ok = (got == want) if case["exact"] else abs(got - want) <= Fraction(2) ** -30 * Fraction(noise(f))
                if not ok:
                    fail(f"exactness: {op} component {c} at cell {list(idx)} is {float(got)}, the analytic operator of the "
                         f"degree-{fs['deg']} polynomial field (components paired through vdim_mapping {f.vdim_mapping}, "
                         f"dims {list(f.mesh.region.dims)}) gives {float(want)}")
                    break
            else:
                continue
            break
    return True


def check_refusals(f, res, fail):
    nd, nv = f.mesh.region.ndim, f.nvdim
    pr = pairing(f)
    mapped = pr is not None and all(x is not None for x in pr)
    if nv != 1 and not is_err(res["grad"]):
        fail(f"refusal: grad of a field with nvdim={nv} accepted")
    if nv == 1 and is_err(res["grad"]):
        fail(f"refusal: grad of a scalar field refused ({res['grad'][1]})")
    if (nv != nd or not mapped) and not is_err(res["div"]):
        fail(f"refusal: div accepted although nvdim={nv}, ndim={nd}, mapping={f.vdim_mapping}, dims={list(f.mesh.region.dims)}")
    if nv == nd and mapped and is_err(res["div"]):
        fail(f"refusal: div refused ({res['div'][1]}) although every component is mapped onto an axis")
    if (nv != 3 or nd != 3 or not mapped) and not is_err(res["curl"]):
        fail(f"refusal: curl accepted although nvdim={nv}, ndim={nd}, mapping={f.vdim_mapping}")
    if nv == 3 and nd == 3 and mapped and sorted(pr) == [0, 1, 2] and is_err(res["curl"]):
        fail(f"refusal: curl refused ({res['curl'][1]}) although the three components are mapped onto the three axes")
    if f.vdims is not None or nv == 1:
        if is_err(res["laplace"]):
            fail(f"refusal: laplace refused ({res['laplace'][1]})")


def check_identities(case, f, res, scale, fail):
    if case["field"]["density"] < 1.0 or f.mesh.region.ndim != 3:
        return
    if f.nvdim == 1 and not is_err(res["grad"]):
        cg = attempt(lambda: res["grad"].curl)
        if is_err(cg):
            fail(f"identity: curl(grad f) refused ({cg[1]})")
        else:
            bound = 0.0 if case["exact"] else 2.0 ** -30 * noise(f)
            if float(np.max(np.abs(cg.array))) > bound:
                fail(f"identity: curl(grad f) is not zero on a fully valid mesh (max |.| = {float(np.max(np.abs(cg.array)))}, bc={f.mesh.bc!r})")
    if f.nvdim == 3 and not is_err(res["curl"]):
        dc = attempt(lambda: res["curl"].div)
        if is_err(dc):
            fail(f"identity: div(curl v) refused ({dc[1]})")
        else:
            bound = 0.0 if case["exact"] else 2.0 ** -30 * noise(f)
            if float(np.max(np.abs(dc.array))) > bound:
                fail(f"identity: div(curl v) is not zero on a fully valid mesh (max |.| = {float(np.max(np.abs(dc.array)))}, bc={f.mesh.bc!r})")


def check_permutation(case, f, res, rng, fail):
    """div and curl are decided by the mapping, not by storage order or label spelling"""
    pr = pairing(f)
    if f.nvdim < 2 or f.nvdim != f.mesh.region.ndim or pr is None or any(x is None for x in pr):
        return
    if sorted(pr) != list(range(f.nvdim)):
        return  # the property speaks about permutations as mapping
    nv = f.nvdim
    perm = list(range(nv))
    rng.shuffle(perm)
    newlab = rng.sample(LABELPOOL, nv)
    dims = list(f.mesh.region.dims)
    g = df.Field(f.mesh, nvdim=nv, value=f.array[..., perm], valid=f.valid, vdims=newlab,
                 vdim_mapping={newlab[k]: dims[pr[perm[k]]] for k in range(nv)})
    for op in ("div", "curl"):
        if is_err(res[op]):
            continue
        r2 = attempt(lambda: getattr(g, op))
        if is_err(r2):
            fail(f"pairing: {op} refused ({r2[1]}) after permuting the storage order {perm} together with the mapping")
        elif not (np.array_equal(r2.array, res[op].array) if case["exact"]
                  else np.all(np.abs(r2.array - res[op].array) <= 2.0 ** -30 * noise(f))):
            fail(f"pairing: {op} changes when the components are stored in order {perm} and relabelled {newlab} with the mapping carried along")


def check_laplace_pairing(case, f, res, fail):
    L = res["laplace"]
    if is_err(L) or f.nvdim < 2:
        return
    pin, pout = pairing(f), pairing(L)
    if pin is None or pout is None or any(x is None for x in pin) or any(x is None for x in pout):
        return
    if sorted(pin) != list(range(f.nvdim)) or sorted(pout) != list(range(f.nvdim)):
        return
    for a in range(f.nvdim):
        cin, cout = pin.index(a), pout.index(a)
        want = getattr(f, f.vdims[cin]).laplace.array[..., 0]
        same = (np.array_equal(L.array[..., cout], want) if case["exact"]
                else bool(np.all(np.abs(L.array[..., cout] - want) <= 2.0 ** -30 * noise(f))))
        if not same:
            fail(f"laplace-pairing: the component of laplace(v) paired with axis {f.mesh.region.dims[a]} (label {L.vdims[cout]}) is not the "
                 f"Laplacian of the component of v paired with that axis (label {f.vdims[cin]}); v.vdim_mapping={f.vdim_mapping}, "
                 f"result mapping={L.vdim_mapping}")
            return


def check_rot90(case, f, res, rng, tier, scale, fail):
    dims = list(f.mesh.region.dims)
    if len(dims) < 2:
        return
    triples = [(a, b, k) for a, b in itertools.permutations(dims, 2) for k in (1, 2, 3)]
    if tier != "all":
        triples = rng.sample(triples, 2)
    for a, b, k in triples:
        pr = pairing(f)
        if f.nvdim > 1 and (pr is None or sorted(x for x in pr if x is not None) != list(range(len(dims))) or len(pr) != len(dims)):
            continue  # rotating the vectors needs a one-to-one pairing of components and axes
        fr = attempt(lambda: f.rotate90(a, b, k=k))
        if is_err(fr):
            continue  # vector field without the mapping rotate90 needs: nothing to compare
        for op in OPS:
            if is_err(res[op]):
                continue
            A = attempt(lambda: getattr(fr, op))
            B = attempt(lambda: res[op].rotate90(a, b, k=k))
            if is_err(B):
                continue
            tag = f"rot90({a},{b},k={k}) {op}:"
            if is_err(A):
                fail(f"{tag} {op} of the rotated field refused ({A[1]})")
                continue
            tol = 1e-9 * (float(np.max(np.abs(B.array))) + float(np.max(np.abs(A.array))) + noise(f))
            if A.array.shape != B.array.shape or not np.all(np.abs(A.array - B.array) <= tol):
                fail(f"{tag} {op}(rotate90(f)) differs from rotate90({op}(f)); bc={f.mesh.bc!r}, mapping={f.vdim_mapping}, "
                     f"max difference {float(np.max(np.abs(A.array - B.array))) if A.array.shape == B.array.shape else 'shape'}")
            elif not np.array_equal(A.valid, B.valid):
                fail(f"{tag} validity of {op}(rotate90(f)) differs from rotate90({op}(f))")


def check_rot90_obj(case, f, res, rng, fail):
    """object-level commutation (the `*_rotate90_obj` theorems) on the real code: an explicit reference point (dyadic, also far
    outside the region), the in-place form, a mesh WITH a subregion made of whole cells, a random integer k; compared are values,
    validity and the mesh of the two results (region, n, bc, subregions).  The turn of the operand is a premise (the mesh constructor
    re-validates the turned subregion): when the code refuses it there is nothing to compare."""
    dims = list(f.mesh.region.dims)
    if len(dims) < 2:
        return
    pr = pairing(f)
    if f.nvdim > 1 and (pr is None or sorted(x for x in pr if x is not None) != list(range(len(dims))) or len(pr) != len(dims)):
        return
    a, b = rng.sample(dims, 2)
    k = rng.choice([-7, -5, -3, -2, -1, 1, 2, 3, 5, 6])
    ctr = [float(x) for x in f.mesh.region.centre]
    ref = rng.choice([None, [c + rng.choice([-1, 1]) * rng.choice([0.25, 0.5, 1.0, 3.0, 64.0]) for c in ctr]])
    inpl_f, inpl_r = rng.random() < 0.5, rng.random() < 0.5
    # a subregion of whole cells: cells [lo, hi) per axis
    n = [int(x) for x in f.mesh.n]
    pmin = [float(x) for x in f.mesh.region.pmin]
    cell = [float(x) for x in f.mesh.cell]
    lo = [rng.randrange(0, m) for m in n]
    hi = [rng.randint(l + 1, m) for l, m in zip(lo, n)]
    sub = attempt(lambda: df.Region(p1=[p + l * c for p, l, c in zip(pmin, lo, cell)], p2=[p + h * c for p, h, c in zip(pmin, hi, cell)],
                                    dims=dims, units=list(f.mesh.region.units)))
    kw = dict(subregions={"s": sub}) if (not is_err(sub) and rng.random() < 0.8) else {}

    def clone(g):
        m = df.Mesh(region=df.Region(p1=g.mesh.region.pmin, p2=g.mesh.region.pmax, dims=dims, units=list(g.mesh.region.units)),
                    n=g.mesh.n, bc=g.mesh.bc, **kw)
        fk = {}
        if g.vdims is not None:
            fk["vdims"] = list(g.vdims)
        return df.Field(m, nvdim=g.nvdim, value=g.array.copy(), valid=g.valid.copy(), vdim_mapping=dict(g.vdim_mapping), **fk)

    f1 = attempt(lambda: clone(f))
    if is_err(f1):
        return
    recv = f1
    fr = attempt(lambda: recv.rotate90(a, b, k=k, reference_point=ref, inplace=inpl_f))
    if is_err(fr):
        return
    tagf = f"rotate90({a},{b},k={k},ref={ref},inplace={inpl_f}/{inpl_r},subregions={bool(kw)})"
    if inpl_f and fr is not recv:
        fail(f"{tagf}: the in-place turn did not return the receiver")
    rtag = "rot-obj:" + ("ref" if ref is not None else "centre") + ("+sub" if kw else "") + ("+inplace" if inpl_f or inpl_r else "")
    for op in OPS:
        if is_err(res[op]):
            continue
        base = attempt(lambda: getattr(clone(f), op))
        if is_err(base):
            fail(f"{tagf} {op}: refused on the same field with subregions ({base[1]})")
            continue
        A = attempt(lambda: getattr(fr, op))
        B = attempt(lambda: base.rotate90(a, b, k=k, reference_point=ref, inplace=inpl_r))
        if is_err(A):
            fail(f"{tagf} {op}: {op} of the turned field refused ({A[1]})")
            continue
        if is_err(B):
            fail(f"{tagf} {op}: the same turn refused the result of {op} ({B[1]})")
            continue
        tol = 1e-9 * (float(np.max(np.abs(B.array))) + float(np.max(np.abs(A.array))) + noise(f))
        if A.array.shape != B.array.shape or not np.all(np.abs(A.array - B.array) <= tol):
            fail(f"{tagf} {op}: {op}(rotate90(f)) differs from rotate90({op}(f)); bc={f.mesh.bc!r}, mapping={f.vdim_mapping}, "
                 f"max difference {float(np.max(np.abs(A.array - B.array))) if A.array.shape == B.array.shape else 'shape'}")
        elif not np.array_equal(A.valid, B.valid):
            fail(f"{tagf} {op}: validity of {op}(rotate90(f)) differs from rotate90({op}(f))")
        elif not (np.array_equal(A.mesh.n, B.mesh.n) and A.mesh.bc == B.mesh.bc
                  and np.array_equal(A.mesh.region.pmin, B.mesh.region.pmin) and np.array_equal(A.mesh.region.pmax, B.mesh.region.pmax)
                  and sorted(A.mesh.subregions) == sorted(B.mesh.subregions)
                  and all(np.array_equal(A.mesh.subregions[s_].pmin, B.mesh.subregions[s_].pmin)
                          and np.array_equal(A.mesh.subregions[s_].pmax, B.mesh.subregions[s_].pmax) for s_ in A.mesh.subregions)):
            fail(f"{tagf} {op}: the two results live on different meshes (region / n / bc / subregions)")
    return rtag


def check_storage_and_scale(f, res, fail):
    """the operators see numbers, not their storage or their size: (a) the same (integer) values stored as int64 give the
    result of their float64 copy, bit for bit; (b) the operators are homogeneous: values times 2^-40 (exact in binary64, far
    from under- and overflow here) give results times 2^-40, bit for bit - no absolute threshold anywhere"""
    kw = dict(nvdim=f.nvdim, valid=f.valid.copy(), vdims=f.vdims, vdim_mapping=dict(f.vdim_mapping))
    ints = np.round(np.asarray(f.array, dtype=float) * 8)
    if not np.all(np.abs(ints) < 2 ** 40):
        return
    fi = df.Field(f.mesh, value=ints.astype(np.int64), dtype=np.int64, **kw)
    ff = df.Field(f.mesh, value=ints.astype(np.float64), **kw)
    c = 2.0 ** -40
    fs_ = df.Field(f.mesh, value=ints.astype(np.float64) * c, **kw)
    for op in OPS:
        if is_err(res[op]):
            continue
        with np.errstate(all="ignore"):
            a, b, d = attempt(lambda: getattr(ff, op)), attempt(lambda: getattr(fi, op)), attempt(lambda: getattr(fs_, op))
        if is_err(a):
            continue
        if is_err(b) or not np.array_equal(np.asarray(a.array), np.asarray(b.array, dtype=float)):
            fail(f"storage: {op} of integer values stored as int64 differs from {op} of the same values stored as float64"
                 + ("" if is_err(b) else f" (e.g. {np.asarray(b.array).reshape(-1)[:4].tolist()} vs {np.asarray(a.array).reshape(-1)[:4].tolist()})"))
        if is_err(d) or not np.array_equal(np.asarray(d.array), c * np.asarray(a.array)):
            fail(f"scale: {op}(2^-40 * f) is not 2^-40 * {op}(f): the operators must not depend on the size of the values"
                 + ("" if is_err(d) else f" (largest deviation {float(np.max(np.abs(np.asarray(d.array) - c * np.asarray(a.array)))):.3g})"))


def run_ops(case, obs):
    rng = random.Random(case["sub"])
    fail = obs["oracle"].append
    ms, fs = case["mesh"], case["field"]
    mesh = fieldio.build_mesh(ms)
    f, scale = build_field(mesh, ms, fs, rng, case["exact"])
    snap = (f.array.copy(), f.valid.copy(), list(f.vdims) if f.vdims else None, dict(f.vdim_mapping))
    obs["field"] = fieldio.field_json(f)
    obs["tol"] = 2.0 ** -30 * noise(f)
    obs["rot_tol"] = 2.0 ** -40 * (float(np.max(np.abs(f.array))) + 1e-300)
    res = {op: attempt(lambda: getattr(f, op)) for op in OPS}
    obs["res"] = res
    dims_ = list(f.mesh.region.dims)
    # one quarter turn of the operand itself, tied to the model's rot90Fld (incl. refusals: same axis twice, unknown axis)
    r = rng.random()
    if len(dims_) >= 2 and r < 0.9:
        ra, rb = rng.sample(dims_, 2)
    elif r < 0.95:
        ra = rb = dims_[0]
    else:
        ra, rb = dims_[0], "nodim"
    obs["rot_axes"] = [ra, rb]
    obs["rot"] = attempt(lambda: f.rotate90(ra, rb))
    # Field.rotate90 with an arbitrary integer k (negative, multiples of 4, |k| > 4), tied to the model's rot90FldK
    obs["rot_k"] = rng.choice([-9, -8, -7, -6, -5, -4, -3, -2, -1, 0, 2, 3, 4, 5, 6, 7, 8, 9])
    obs["rotk"] = attempt(lambda: f.rotate90(ra, rb, k=obs["rot_k"]))
    check_refusals(f, res, fail)
    exact_applies = check_exactness(case, f, res, scale, fail)
    check_identities(case, f, res, scale, fail)
    check_permutation(case, f, res, rng, fail)
    check_laplace_pairing(case, f, res, fail)
    check_rot90(case, f, res, rng, "all" if case.get("allrot") else "two", scale, fail)
    rtag = check_rot90_obj(case, f, res, rng, fail)
    if case["sub"] % 3 == 0:
        check_storage_and_scale(f, res, fail)
    if not (np.array_equal(snap[0], f.array) and np.array_equal(snap[1], f.valid)
            and snap[2] == (list(f.vdims) if f.vdims else None) and snap[3] == dict(f.vdim_mapping)):
        fail("an operator modified its operand")
    nd = len(ms["n"])
    obs["tags"] += [f"ndim:{nd}", "nvdim:" + ("1" if fs["nvdim"] == 1 else "ndim" if fs["nvdim"] == nd else "other"),
                    "map:" + fs["mapkind"], "bc:" + ("periodic" if ms["bc"] else "open"),
                    "mask:" + ("full" if fs["density"] >= 1.0 else "gaps"), f"deg:{fs['deg']}",
                    "regime:" + ("exact" if case["exact"] else "tolerance"),
                    "dims:" + ("renamed" if ms["dims"] else "default"),
                    "accepted:" + "".join(op[0] for op in OPS if not is_err(res[op]))]
    if rtag:
        obs["tags"].append(rtag)
    if exact_applies:
        obs["tags"].append("oracle:polynomial-exactness")
    obs["nontrivial"] = fs["deg"] >= 1 and any(not is_err(res[op]) for op in OPS)


def gen_meta(rng, dims):
    nd = len(dims)
    nv = rng.choice([1, 1, nd, nd, nd, rng.randint(2, 5)])
    r = rng.random()
    if r < 0.25:
        vd = None
    elif r < 0.75:
        vd = rng.sample(LABELPOOL + ["x", "y", "z"], nv)
    elif r < 0.82:
        vd = []
    elif r < 0.9:
        vd = rng.sample(LABELPOOL, max(1, nv + rng.choice([-1, 1])))
    else:
        vd = [rng.choice(LABELPOOL)] * nv
    lab = vd if (vd and len(vd) == nv) else eff_labels(nv, None)
    r = rng.random()
    if r < 0.3 or lab is None:
        mp = None if (r < 0.3 or rng.random() < 0.5) else [["s", rng.choice(dims)]]
    elif r < 0.6:
        tg = [rng.choice(dims + ["nodim"]) for _ in lab]
        mp = [[l, d] for l, d in zip(lab, tg)]
        rng.shuffle(mp)
    elif r < 0.7:
        mp = []
    elif r < 0.85:
        mp = [[l, rng.choice(dims)] for l in lab][: max(1, len(lab) - 1)]
    else:
        mp = [[l, rng.choice(dims)] for l in rng.sample(LABELPOOL, len(lab))]
    if mp is not None:  # what reaches the setter is a dict: duplicate keys collapse
        mp = [[k, v] for k, v in {k: v for k, v in mp}.items()]
    return nv, vd, mp


def run_meta(case, obs):
    rng = random.Random(case["sub"])
    fail = obs["oracle"].append
    mesh = fieldio.build_mesh(case["mesh"])
    dims = list(mesh.region.dims)
    nv, vd, mp = gen_meta(rng, dims)
    obs["mk"] = dict(nvdim=nv, vdims=vd, vmap=mp)

    def ctor():
        kw = {}
        if vd is not None:
            kw["vdims"] = list(vd)
        if mp is not None:
            kw["vdim_mapping"] = {k: v for k, v in mp}
        return df.Field(mesh, nvdim=nv, **kw)

    f = attempt(ctor)
    obs["mk_res"] = f if is_err(f) else dict(vdims=list(f.vdims) if f.vdims is not None else None,
                                              vmap=[[k, v] for k, v in f.vdim_mapping.items()])
    obs["steps"] = []
    obs["tags"] += ["mk:" + ("err" if is_err(f) else "ok")]
    if is_err(f):
        return
    # a few setter steps on the live field
    for _ in range(rng.randint(1, 3)):
        before = fieldio.field_json(f)
        old_v = list(f.vdims) if f.vdims is not None else None
        old_m = dict(f.vdim_mapping)
        old_r = dict(core.private(f, "_r_dim_mapping"))
        if rng.random() < 0.6:
            r = rng.random()
            if r < 0.6:
                new = rng.sample(LABELPOOL + ["x", "y", "z"], f.nvdim)
            elif r < 0.7:
                new = None
            elif r < 0.8:
                new = []
            elif r < 0.9:
                new = rng.sample(LABELPOOL, max(1, f.nvdim + rng.choice([-1, 1])))
            else:
                new = [rng.choice(LABELPOOL)] * max(2, f.nvdim)

            def step():
                f.vdims = new
            out = attempt(step)
            kind = "set_vdims"
            arg = new
            if not is_err(out) and old_v is not None and f.vdims is not None and len(old_m) > 0:
                for k, (nl, ol) in enumerate(zip(f.vdims, old_v)):
                    if f.vdim_mapping.get(nl) != old_m.get(ol):
                        fail(f"relabel: after vdims {old_v} -> {list(f.vdims)} component {k} is mapped to {f.vdim_mapping.get(nl)!r}, before to {old_m.get(ol)!r}")
                        break
                newr = core.private(f, "_r_dim_mapping")
                for d in (dims if len(set(old_m.values())) == len(old_m) else []):
                    i_old = old_v.index(old_r[d]) if old_r.get(d) in old_v else None
                    i_new = list(f.vdims).index(newr[d]) if newr.get(d) in list(f.vdims) else None
                    if i_old != i_new:
                        fail(f"relabel: axis {d} was paired with component {i_old}, after relabelling with component {i_new}")
                        break
        else:
            _, _, m2 = gen_meta(random.Random(rng.getrandbits(32)), dims)
            lab = list(f.vdims) if f.vdims is not None else None
            if lab is not None and rng.random() < 0.6:
                m2 = [[l, rng.choice(dims)] for l in lab]
                rng.shuffle(m2)
                m2 = [[k, v] for k, v in {k: v for k, v in m2}.items()]

            def step():
                f.vdim_mapping = None if m2 is None else {k: v for k, v in m2}
            out = attempt(step)
            kind = "set_vmap"
            arg = m2
        obs["steps"].append(dict(kind=kind, arg=arg, before=before,
                                 res=out if is_err(out) else dict(vdims=list(f.vdims) if f.vdims is not None else None,
                                                                  vmap=[[k, v] for k, v in f.vdim_mapping.items()]),
                                 rdim_before=[old_r.get(d) for d in dims]))
        obs["tags"].append(kind + ":" + ("err" if is_err(out) else "ok"))
    obs["nontrivial"] = True


def run_parts(case, obs):
    rng = random.Random(case["sub"])
    mesh = fieldio.build_mesh(case["mesh"])
    a, _ = build_field(mesh, case["mesh"], case["a"], rng)
    b, _ = build_field(mesh, case["mesh"], case["b"], rng)
    obs["a"], obs["b"] = fieldio.field_json(a), fieldio.field_json(b)
    obs["lshift"] = attempt(lambda: a << b)
    labs = (list(a.vdims) if a.vdims is not None else []) + ["nolabel"]
    obs["labels"] = labs
    obs["comps"] = [attempt(lambda: getattr(a, l)) for l in labs]
    fail = obs["oracle"].append
    for l, c in zip(labs[:-1], obs["comps"]):
        if is_err(c):
            fail(f"component {l} of a field with vdims {a.vdims} refused")
        elif not np.array_equal(c.array[..., 0], a.array[..., a.vdims.index(l)]):
            fail(f"component {l} is not the stored component {a.vdims.index(l)}")
    if not is_err(obs["lshift"]):
        if not np.array_equal(obs["lshift"].array, np.concatenate([a.array, b.array], axis=-1)):
            fail("a << b is not the concatenation of the components")
    obs["tags"].append("lshift:" + ("err" if is_err(obs["lshift"]) else "ok"))
    obs["nontrivial"] = True


def run_impl(case):
    obs = {"oracle": [], "tags": ["kind:" + case["kind"]]}
    if case["kind"] == "ops":
        run_ops(case, obs)
    elif case["kind"] == "meta":
        run_meta(case, obs)
    else:
        run_parts(case, obs)
    return obs


# ------------------------------------------------------------------ model side
def model_requests(case, obs):
    if "field" not in obs and case["kind"] == "ops":
        return []
    if case["kind"] == "ops":
        return [dict(op=op, field=obs["field"]) for op in OPS] + \
               [dict(op="rot90", field=obs["field"], a=obs["rot_axes"][0], b=obs["rot_axes"][1]),
                dict(op="rot90k", field=obs["field"], a=obs["rot_axes"][0], b=obs["rot_axes"][1], k=obs["rot_k"])]
    if case["kind"] == "meta":
        if "mk" not in obs:
            return []
        mk = obs["mk"]
        reqs = [dict(op="mk", mesh=fieldio.mesh_json(fieldio.build_mesh(case["mesh"])), nvdim=mk["nvdim"],
                     vdims=mk["vdims"], vmap=mk["vmap"])]
        for st in obs["steps"]:
            if st["kind"] == "set_vdims":
                reqs.append(dict(op="set_vdims", field=st["before"], vdims=st["arg"]))
            else:
                reqs.append(dict(op="set_vmap", field=st["before"], vmap=st["arg"]))
            reqs.append(dict(op="rdim", field=st["before"]))
        return reqs
    if "a" not in obs:
        return []
    return [dict(op="lshift", a=obs["a"], b=obs["b"])] + [dict(op="comp", field=obs["a"], label=l) for l in obs["labels"]]


def cmp_meta(name, impl, r, dis):
    if is_err(impl):
        if "err" not in r:
            dis.append(f"{name}: impl refused ({impl[1]}), model accepted {r}")
        return
    if "ok" not in r:
        dis.append(f"{name}: impl accepted {impl}, model refused {r}")
        return
    m = r["ok"]
    if impl["vdims"] != m["vdims"]:
        dis.append(f"{name}: vdims impl {impl['vdims']} vs model {m['vdims']}")
    if sorted(map(tuple, impl["vmap"])) != sorted(map(tuple, m["vmap"])):
        dis.append(f"{name}: vdim_mapping impl {impl['vmap']} vs model {m['vmap']}")


def cmp_res(name, impl, r, dis, exact=True, tol=0.0, geometry=False):
    if is_err(impl):
        if "err" not in r:
            dis.append(f"{name}: impl refused ({impl[1]}), model accepted")
    elif "ok" not in r:
        dis.append(f"{name}: impl accepted, model refused ({r})")
    elif exact:
        fieldio.cmp_field(name, impl, r["ok"], dis, exact=True)
    else:
        # tolerance regime: metadata and validity exactly, values within the stated absolute bound
        mj = r["ok"]
        got = fieldio.field_json(impl)
        if geometry:
            for key in ("pmin", "pmax"):
                a, b = got["mesh"]["region"][key], mj["mesh"]["region"][key]
                ext = max([abs(F(y)) for y in b] + [Fraction(1)])
                if len(a) != len(b) or any(abs(F(x) - F(y)) > Fraction(2) ** -40 * ext for x, y in zip(a, b)):
                    dis.append(f"{name}: region {key} impl {a} vs model {b}")
                    return
            for key in ("dims", "units"):
                if got["mesh"]["region"][key] != mj["mesh"]["region"][key]:
                    dis.append(f"{name}: region {key} impl {got['mesh']['region'][key]} vs model {mj['mesh']['region'][key]}")
                    return
            if got["mesh"]["bc"] != mj["mesh"]["bc"]:
                dis.append(f"{name}: bc impl {got['mesh']['bc']!r} vs model {mj['mesh']['bc']!r}")
                return
        for key, a, b in (("n", got["mesh"]["n"], mj["mesh"]["n"]), ("nvdim", got["nvdim"], mj["nvdim"]),
                          ("vdims", got["vdims"], mj["vdims"]), ("unit", got["unit"], mj["unit"]),
                          ("valid", got["valid"], mj["valid"]),
                          ("vdim_mapping", sorted(map(tuple, got["vmap"])), sorted(map(tuple, mj["vmap"])))):
            if a != b:
                dis.append(f"{name}: {key} impl {str(a)[:200]} vs model {str(b)[:200]}")
                return
        for k, (ra, rb) in enumerate(zip(got["data"], mj["data"])):
            for c, (x, y) in enumerate(zip(ra, rb)):
                if abs(F(x) - F(y)) > Fraction(tol):
                    dis.append(f"{name}: value at flat cell {k} comp {c}: impl {float(F(x))} vs model {float(F(y))} (bound {tol})")
                    return


def compare(case, obs, rs):
    dis = []
    if not rs:
        return dis
    if case["kind"] == "ops":
        for op, r in zip(OPS, rs):
            cmp_res(f"Field.{op}", obs["res"][op], r, dis, exact=case["exact"], tol=obs.get("tol", 0.0))
        # rotate90: scalars are moved (exact); vectors are multiplied by cos/sin(pi/2) in binary64 (6e-17 instead of 0)
        fs = case["field"]
        targets = [v for _, v in obs["field"]["vmap"]]
        if len(set(targets)) == len(targets):
            # (which of two components mapped onto the SAME axis the reversed mapping keeps is incidental: not compared)
            cmp_res(f"Field.rotate90({obs['rot_axes'][0]},{obs['rot_axes'][1]})", obs["rot"], rs[len(OPS)], dis,
                    exact=False, tol=(0.0 if (case["exact"] and fs["nvdim"] == 1) else obs.get("rot_tol", 0.0)), geometry=True)
            if "rotk" in obs and len(rs) > len(OPS) + 1:
                cmp_res(f"Field.rotate90({obs['rot_axes'][0]},{obs['rot_axes'][1]},k={obs['rot_k']})", obs["rotk"],
                        rs[len(OPS) + 1], dis, exact=False,
                        tol=(0.0 if (case["exact"] and fs["nvdim"] == 1) else obs.get("rot_tol", 0.0)), geometry=True)
    elif case["kind"] == "meta":
        cmp_meta("Field(...) labels/mapping", obs["mk_res"], rs[0], dis)
        pos = 1
        for st in obs["steps"]:
            cmp_meta(f"{st['kind']}({st['arg']})", st["res"], rs[pos], dis)
            tg = [v for _, v in st["before"]["vmap"]]
            if len(set(tg)) == len(tg) and rs[pos + 1]["ok"] != st["rdim_before"]:
                dis.append(f"_r_dim_mapping impl {st['rdim_before']} vs model {rs[pos + 1]['ok']}")
            pos += 2
    else:
        cmp_res("a << b", obs["lshift"], rs[0], dis)
        for l, c, r in zip(obs["labels"], obs["comps"], rs[1:]):
            cmp_res(f"getattr(a, {l!r})", c, r, dis)
    return dis


def nontrivial(case, obs):
    return bool(obs.get("nontrivial"))


def known(case, text):
    # D55 (vector Laplacian lost labels/mapping) and D56 (Mesh.rotate90 kept bc) are FIXED in /repo: the corpus keeps
    # both witnesses as regression cases and nothing is excused any more.
    # D57 (open): the bc string cannot follow an odd quarter turn that exchanges a periodic axis with an axis whose
    # name has several characters; only that class is excused.
    m = re.match(r"rot(?:90|ate90)\(([^,]+),([^,]+),k=(-?\d+)[,)]", text)
    bc = (case.get("mesh") or {}).get("bc") or ""
    if m and bc and int(m.group(3)) % 2 == 1:
        a, b = m.group(1), m.group(2)
        if (a in bc or b in bc) and (len(a) > 1 or len(b) > 1 or a != a.lower() or b != b.lower()):
            return "D57"
    return None


def search(case, rng):
    for _ in range(200):
        ms = gen_mesh(rng, min_n=3, nmax=4, max_cells=80)
        yield dict(kind="ops", exact=True, mesh=ms, field=gen_field_spec(rng, ms), sub=rng.getrandbits(32), allrot=True)
