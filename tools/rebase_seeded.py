#!/venv/bin/python
"""Re-bases seeded patches that no longer apply to /repo's HEAD (later `fix:` commits touched the same lines).
For each seeded/<id>/patch.diff failing `git apply --check`: try `git apply --3way` in a scratch worktree; when it
merges without conflicts the regenerated diff replaces patch.diff (the original is kept as patch.orig.diff and
meta.json records the re-base); conflicts are reported for manual handling."""
import json, os, subprocess, sys, glob
ROOT = os.path.dirname(os.path.dirname(os.path.abspath(__file__)))
def run(cmd, cwd=None):
    p = subprocess.run(cmd, cwd=cwd, capture_output=True, text=True); return p.returncode, p.stdout + p.stderr
head = run(["git", "-C", "/repo", "rev-parse", "--short=8", "HEAD"])[1].strip()
wt = f"/tmp/seedtest/rebase-{os.getpid()}"
os.makedirs("/tmp/seedtest", exist_ok=True)
for d in sorted(glob.glob(os.path.join(ROOT, "seeded", "*"))):
    patch = os.path.join(d, "patch.diff")
    if not os.path.exists(patch): continue
    rc, _ = run(["git", "-C", "/repo", "apply", "--check", patch])
    if rc == 0: continue
    run(["git", "-C", "/repo", "worktree", "remove", "--force", wt])
    run(["git", "-C", "/repo", "worktree", "add", "--detach", wt, "HEAD"])
    rc, out = run(["git", "apply", "--3way", patch], cwd=wt)
    conflict = "<<<<<<<" in "".join(open(os.path.join(wt, f)).read() for f in run(["git", "diff", "--name-only", "HEAD"], cwd=wt)[1].split() if os.path.exists(os.path.join(wt, f)))
    if rc != 0 or conflict:
        print(os.path.basename(d), "CONFLICT", out.strip().splitlines()[-1] if out.strip() else "")
    else:
        new = run(["git", "diff", "HEAD"], cwd=wt)[1]
        if not os.path.exists(os.path.join(d, "patch.orig.diff")):
            os.rename(patch, os.path.join(d, "patch.orig.diff"))
        open(patch, "w").write(new)
        mp = os.path.join(d, "meta.json"); m = json.load(open(mp)); m["rebased_onto"] = head; json.dump(m, open(mp, "w"), indent=1)
        print(os.path.basename(d), "rebased onto", head)
    run(["git", "-C", "/repo", "worktree", "remove", "--force", wt])
