#!/bin/bash
# run the repository suite for every seeded change whose meta.json lacks suite_ok (3 at a time)
cd /verif
for m in seeded/*/meta.json; do
  if ! grep -q suite_ok $m; then
    id=$(basename $(dirname $m)); pid=${id%-*}; x=${id#*-}
    echo "$pid $x"
  fi
done | xargs -P 3 -L 1 bash -c 'd=/verif/seeded/$0-$1; needs=$(python3 -c "import json;print(json.load(open(\"$d/meta.json\")).get(\"needs\",\"\"))"); /verif/tools/seedtest.py $0 $1 $d/patch.diff $d/demo.py --suite --needs "$needs" > /tmp/suite_$0_$1.log 2>&1; tail -3 /tmp/suite_$0_$1.log | head -1'
