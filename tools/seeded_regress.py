#!/venv/bin/python
"""Re-confirm every seeded change in seeded/ against the checks as they are now.

usage: tools/seeded_regress.py [-j N] [--suite-missing] [--tier quick] [ids...]

For each seeded/<id>/ runs tools/seedtest.py (scratch worktree under /tmp/seedtest, removed
afterwards) and rewrites its meta.json.  --suite-missing also runs the repository's test suite
for entries whose meta.json has no suite result yet.  Prints one line per entry; exit 1 if any
seeded change is MISSED by the check of its property."""
import argparse, json, os, subprocess, sys
from concurrent.futures import ThreadPoolExecutor

ROOT = os.path.dirname(os.path.dirname(os.path.abspath(__file__)))


SEED = None


def one(sid, suite_missing, tier):
    d = os.path.join(ROOT, "seeded", sid)
    meta = json.load(open(os.path.join(d, "meta.json")))
    pid, name = sid.split("-", 1)
    cmd = [os.path.join(ROOT, "tools", "seedtest.py"), pid, name, os.path.join(d, "patch.diff"),
           os.path.join(d, "demo.py"), "--needs", meta.get("needs", ""), "--tier", tier]
    if suite_missing and "suite_ok" not in meta:
        cmd.append("--suite")
    if SEED is not None:
        cmd += ["--seed", str(SEED)]
    p = subprocess.run(cmd, capture_output=True, text=True)
    if p.returncode != 0:      # seedtest itself failed (e.g. the patch no longer applies): never report a stale meta.json
        return sid, None, None, None, None, "seedtest failed: " + (p.stdout + p.stderr).strip().splitlines()[-1][:200]
    try:
        m = json.load(open(os.path.join(d, "meta.json")))
        det = m.get("detected_by") if SEED is None else m.get("by_seed", {}).get(str(SEED))
        return sid, m.get("demo_clean_exit"), m.get("demo_patched_exit"), m.get("suite_ok"), det, ""
    except Exception as e:
        return sid, None, None, None, None, (p.stdout + p.stderr)[-400:]


def main():
    ap = argparse.ArgumentParser()
    ap.add_argument("-j", type=int, default=6)
    ap.add_argument("--suite-missing", action="store_true")
    ap.add_argument("--tier", default="quick")
    ap.add_argument("--seed", default=None, help="run the checks with this VERIF_SEED and record the result under meta['by_seed'] only")
    ap.add_argument("ids", nargs="*")
    a = ap.parse_args()
    global SEED
    SEED = a.seed
    ids = a.ids or sorted(x for x in os.listdir(os.path.join(ROOT, "seeded")) if os.path.exists(os.path.join(ROOT, "seeded", x, "meta.json")))
    missed = 0
    with ThreadPoolExecutor(a.j) as ex:
        for sid, c, p, s, det, err in ex.map(lambda s: one(s, a.suite_missing, a.tier), ids):
            ok = c == 0 and p not in (0, None) and det
            missed += 0 if ok else 1
            print(f"{sid:10s} demo {c}/{p} suite={s} caught_by={det} {'' if ok else 'MISSED/BROKEN ' + err}", flush=True)
    sys.exit(1 if missed else 0)


if __name__ == "__main__":
    main()
