#!/venv/bin/python
"""Regenerates the generated tables of DESIGN.md (between <!-- BEGIN:x --> / <!-- END:x --> markers):
status (theorem counts etc. per property), findings (known_findings.json), seeded (seeded/*/meta.json)."""
import json, os, re, subprocess, sys, glob
root = os.path.dirname(os.path.dirname(os.path.abspath(__file__)))

def status():
    return subprocess.run([os.path.join(root, "tools", "status_table.py")], capture_output=True, text=True).stdout.strip()

def findings():
    k = json.load(open(os.path.join(root, "known_findings.json")))["findings"]
    out = ["| Id | Prop. | Status | Commit in /repo | What fails / failed |", "|---|---|---|---|---|"]
    seen = set()
    def key(f):
        m = re.match(r"D(\d+)", f["id"]); return (int(m.group(1)) if m else 0, f["property"])
    for f in sorted(k, key=key):
        if (f["id"], f["property"]) in seen: continue
        seen.add((f["id"], f["property"]))
        out.append(f"| {f['id']} | {f['property']} | {f['status']} | {f.get('commit') or '—'} | {f['what'][:420].replace('|','/').replace(chr(10),' ')} |")
    return "\n".join(out)

def seeded():
    out = ["| Seeded change | What it does / needs | Demo clean/patched | Suite with patch | Caught by | First failure reported by the check |", "|---|---|---|---|---|---|"]
    for path in sorted(glob.glob(os.path.join(root, "seeded", "*", "meta.json"))):
        m = json.load(open(path)); det = m.get("detected_by", []); what = ""
        for p in det: what = m["checks"][p].get("what", "")[:150].replace("|", "/").replace("\n", " ")
        needs = re.sub(r"\s+", " ", m.get("needs", ""))[:230].replace("|", "/")
        out.append(f"| {m['id']} | {needs} | {m.get('demo_clean_exit')}/{m.get('demo_patched_exit')} | {'baseline' if m.get('suite_ok') else ('not run' if 'suite_ok' not in m else 'DIFFERS')} | {', '.join(det) or 'MISSED'} | {what} |")
    return "\n".join(out)

def main():
    p = os.path.join(root, "DESIGN.md"); s = open(p).read()
    for name, fn in (("status", status), ("findings", findings), ("seeded", seeded)):
        pat = re.compile(r"(<!-- BEGIN:%s -->\n).*?(<!-- END:%s -->)" % (name, name), re.S)
        if not pat.search(s): print("marker missing:", name); continue
        body = fn()
        s = pat.sub(lambda m: m.group(1) + body + "\n" + m.group(2), s)
    open(p, "w").write(s)

if __name__ == "__main__":
    main()
