#!/venv/bin/python
"""Confirm a seeded change and run our check against it.

usage: tools/seedtest.py <PID> <name> <patch.diff> <demo.py> [--suite] [--needs "..."] [--keep]

Steps (all in a scratch worktree of /repo under /tmp/seedtest, removed afterwards):
  1. demo on the clean worktree must exit 0
  2. apply patch; demo must exit non-zero
  3. --suite: the repository's test suite must give the baseline result with the patch
  4. VERIF_REPO=<worktree> ./check <PID> (quick) -> exit status / VIOLATION line
Writes /verif/seeded/<PID>-<name>/{patch.diff, demo.py, meta.json}.
"""
import argparse
import json
import os
import re
import shutil
import subprocess
import sys
import time

VERIF = os.path.dirname(os.path.dirname(os.path.abspath(__file__)))


def run(cmd, cwd=None, env=None, timeout=3600):
    p = subprocess.run(cmd, cwd=cwd, env=env, shell=isinstance(cmd, str), capture_output=True, text=True, timeout=timeout)
    return p.returncode, (p.stdout + p.stderr)


def main():
    ap = argparse.ArgumentParser()
    ap.add_argument("pid")
    ap.add_argument("name")
    ap.add_argument("patch")
    ap.add_argument("demo")
    ap.add_argument("--suite", action="store_true")
    ap.add_argument("--needs", default="")
    ap.add_argument("--tier", default="quick")
    ap.add_argument("--checks", default="", help="comma separated extra PIDs to run as well")
    ap.add_argument("--seed", default=None, help="VERIF_SEED for the check (default 0); with a seed given only meta['by_seed'] is updated")
    a = ap.parse_args()
    sid = f"{a.pid}-{a.name}"
    wt = f"/tmp/seedtest/{sid}-{os.getpid()}"
    os.makedirs("/tmp/seedtest", exist_ok=True)
    run(["git", "-C", "/repo", "worktree", "remove", "--force", wt])
    rc, out = run(["git", "-C", "/repo", "worktree", "add", "--detach", wt, "HEAD"])
    assert rc == 0, out
    meta = dict(id=sid, property=a.pid, needs=a.needs, ran=[])
    try:
        py = "/venv/bin/python"
        env = dict(os.environ, PYTHONDONTWRITEBYTECODE="1")
        # the demo is copied into the worktree root so that the worktree's copy of the package is the one imported
        demo_wt = os.path.join(wt, "_seed_demo.py")
        shutil.copy(os.path.abspath(a.demo), demo_wt)
        rc0, out0 = run([py, demo_wt], cwd=wt, env=env)
        meta["demo_clean_exit"] = rc0
        meta["ran"].append(f"cd {wt} && {py} demo.py  (clean tree) -> exit {rc0}")
        rc, out = run(["git", "-C", wt, "apply", os.path.abspath(a.patch)])
        assert rc == 0, "patch does not apply: " + out
        rc1, out1 = run([py, demo_wt], cwd=wt, env=env)
        os.remove(demo_wt)
        meta["demo_patched_exit"] = rc1
        meta["demo_patched_tail"] = out1[-600:]
        meta["ran"].append(f"git apply patch.diff; {py} demo.py -> exit {rc1}")
        if a.suite:
            t0 = time.time()
            rc2, out2 = run(f"{py} -m pytest -q -p no:cacheprovider --timeout=900 2>&1 | tail -n 8", cwd=wt, env=env)
            m = re.search(r"(\d+) failed, (\d+) passed", out2)
            failed = re.findall(r"FAILED (\S+)", out2)
            meta["suite_tail"] = out2[-500:]
            meta["suite_ok"] = bool(m and m.group(1) == "2" and all(("test_pyvista_streamlines" in f or "test_ovf2vtk" in f) for f in failed)) or bool(re.search(r"^\d+ passed", out2, re.M) and "failed" not in out2)
            meta["ran"].append(f"test suite with the patch ({time.time() - t0:.0f}s): {out2.strip().splitlines()[-1] if out2.strip() else ''}")
        results = {}
        for pid in [a.pid] + [x for x in a.checks.split(",") if x]:
            env2 = dict(env, VERIF_REPO=wt, VERIF_NO_EVIDENCE="1")
            if a.seed is not None:
                env2["VERIF_SEED"] = str(a.seed)
            t0 = time.time()
            rc3, out3 = run([os.path.join(VERIF, "check"), pid, "--tier", a.tier], cwd=VERIF, env=env2)
            vio = [ln for ln in out3.splitlines() if ln.startswith("VIOLATION")]
            results[pid] = dict(exit=rc3, violation=vio[:1], wall=round(time.time() - t0, 1), tail=out3[-400:])
            if vio:
                m = re.search(r"replay=(\S+)", vio[0])
                if m and os.path.exists(os.path.join(VERIF, m.group(1))):
                    rp = json.load(open(os.path.join(VERIF, m.group(1))))
                    results[pid]["what"] = rp.get("what", "")[:400]
                    results[pid]["kind"] = rp.get("kind")
            meta["ran"].append(f"VERIF_REPO={wt} ./check {pid} --tier {a.tier} -> exit {rc3} {vio[:1]}")
        meta["checks"] = results
        meta["detected_by"] = [p for p, r in results.items() if r["exit"] == 1 and r["violation"]]
    finally:
        run(["git", "-C", "/repo", "worktree", "remove", "--force", wt])
    d = os.path.join(VERIF, "seeded", sid)
    os.makedirs(d, exist_ok=True)
    old = os.path.join(d, "meta.json")
    if a.seed is not None and os.path.exists(old):
        o = json.load(open(old))
        o.setdefault("by_seed", {})[str(a.seed)] = meta.get("detected_by", [])
        json.dump(o, open(old, "w"), indent=1)
        print(json.dumps({"id": sid, "seed": a.seed, "detected_by": meta.get("detected_by")}))
        return
    if os.path.exists(old) and "suite_ok" not in meta:
        o = json.load(open(old))
        for k in ("suite_ok", "suite_tail"):
            if k in o:
                meta[k] = o[k]
        meta["ran"] += [x for x in o.get("ran", []) if x.startswith("test suite")]
    for src, name in ((a.patch, "patch.diff"), (a.demo, "demo.py")):
        dst = os.path.join(d, name)
        if os.path.abspath(src) != os.path.abspath(dst):
            shutil.copy(src, dst)
    json.dump(meta, open(os.path.join(d, "meta.json"), "w"), indent=1)
    print(json.dumps({k: meta[k] for k in ("id", "demo_clean_exit", "demo_patched_exit", "detected_by")}
                     | ({"suite_ok": meta["suite_ok"]} if "suite_ok" in meta else {})
                     | {p: (r["exit"], r.get("what", r["tail"][-200:])) for p, r in meta["checks"].items()}, indent=1))


if __name__ == "__main__":
    main()
