#!/venv/bin/python
"""False-alarm test: run checks against a behaviour-preserving change of the library.

usage: tools/benigntest.py <PID> <name> <patch.diff> [--checks C01,C13] [--seeds 0,1] [--note "..."]

Applies the patch in a scratch worktree of /repo (under /tmp/seedtest, removed afterwards) and runs
`./check <PID>` (quick) for each seed with VERIF_REPO pointing at it.  Every run must exit 0 without
a VIOLATION line.  Writes /verif/benign/<PID>-<name>/{patch.diff, meta.json}."""
import argparse, json, os, shutil, subprocess, sys, time

VERIF = os.path.dirname(os.path.dirname(os.path.abspath(__file__)))


def run(cmd, cwd=None, env=None, timeout=3600):
    p = subprocess.run(cmd, cwd=cwd, env=env, capture_output=True, text=True, timeout=timeout)
    return p.returncode, p.stdout + p.stderr


def main():
    ap = argparse.ArgumentParser()
    ap.add_argument("pid"); ap.add_argument("name"); ap.add_argument("patch")
    ap.add_argument("--checks", default=""); ap.add_argument("--seeds", default="0,1"); ap.add_argument("--note", default="")
    a = ap.parse_args()
    sid = f"{a.pid}-{a.name}"
    wt = f"/tmp/seedtest/ben-{sid}-{os.getpid()}"
    os.makedirs("/tmp/seedtest", exist_ok=True)
    rc, out = run(["git", "-C", "/repo", "worktree", "add", "--detach", wt, "HEAD"])
    assert rc == 0, out
    meta = dict(id=sid, property=a.pid, note=a.note, runs=[])
    try:
        rc, out = run(["git", "-C", wt, "apply", os.path.abspath(a.patch)])
        assert rc == 0, "patch does not apply: " + out
        for pid in [a.pid] + [x for x in a.checks.split(",") if x]:
            for seed in a.seeds.split(","):
                env = dict(os.environ, VERIF_REPO=wt, VERIF_NO_EVIDENCE="1", VERIF_SEED=seed, PYTHONDONTWRITEBYTECODE="1")
                t0 = time.time()
                rc, out = run([os.path.join(VERIF, "check"), pid, "--tier", "quick"], cwd=VERIF, env=env)
                vio = [l for l in out.splitlines() if l.startswith("VIOLATION")]
                rec = dict(check=pid, seed=int(seed), exit=rc, violation=vio[:1], wall=round(time.time() - t0, 1), tail=out[-300:])
                if vio:
                    import re
                    m = re.search(r"replay=(\S+)", vio[0])
                    if m and os.path.exists(os.path.join(VERIF, m.group(1))):
                        rec["what"] = json.load(open(os.path.join(VERIF, m.group(1)))).get("what", "")[:500]
                meta["runs"].append(rec)
    finally:
        run(["git", "-C", "/repo", "worktree", "remove", "--force", wt])
    meta["false_alarm"] = any(r["exit"] != 0 or r["violation"] for r in meta["runs"])
    d = os.path.join(VERIF, "benign", sid)
    os.makedirs(d, exist_ok=True)
    if os.path.abspath(a.patch) != os.path.join(d, "patch.diff"):
        shutil.copy(a.patch, os.path.join(d, "patch.diff"))
    json.dump(meta, open(os.path.join(d, "meta.json"), "w"), indent=1)
    print(sid, "FALSE-ALARM" if meta["false_alarm"] else "quiet", [(r["check"], r["seed"], r["exit"], r.get("what", "")[:200]) for r in meta["runs"] if r["exit"] != 0 or r["violation"]])
    sys.exit(1 if meta["false_alarm"] else 0)


if __name__ == "__main__":
    main()
