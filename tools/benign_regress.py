#!/venv/bin/python
"""Re-run every behaviour-preserving change in benign/ against the checks as they are now.

usage: tools/benign_regress.py [-j N] [--seeds 0,1] [ids...]

For each benign/<id>/patch.diff: when it no longer applies to /repo's HEAD (a later `fix:` commit touched the same
lines) a 3-way merge is tried in a scratch worktree and, if it is clean, the regenerated diff replaces patch.diff
(the original is kept as patch.orig.diff); then tools/benigntest.py runs the property's quick check for the seeds.
Prints one line per entry; exit 1 if any run raises an alarm (or a patch cannot be applied any more)."""
import argparse, json, os, subprocess, sys
from concurrent.futures import ThreadPoolExecutor

ROOT = os.path.dirname(os.path.dirname(os.path.abspath(__file__)))


def run(cmd, cwd=None):
    p = subprocess.run(cmd, cwd=cwd, capture_output=True, text=True)
    return p.returncode, p.stdout + p.stderr


def rebase(d):
    patch = os.path.join(d, "patch.diff")
    if run(["git", "-C", "/repo", "apply", "--check", patch])[0] == 0:
        return True
    wt = f"/tmp/seedtest/brb-{os.path.basename(d)}-{os.getpid()}"
    os.makedirs("/tmp/seedtest", exist_ok=True)
    run(["git", "-C", "/repo", "worktree", "add", "--detach", wt, "HEAD"])
    try:
        rc, out = run(["git", "apply", "--3way", patch], cwd=wt)
        names = run(["git", "diff", "--name-only", "HEAD"], cwd=wt)[1].split()
        conflict = any("<<<<<<<" in open(os.path.join(wt, f)).read() for f in names if os.path.exists(os.path.join(wt, f)))
        if rc != 0 or conflict:
            return False
        new = run(["git", "diff", "HEAD"], cwd=wt)[1]
        if not os.path.exists(os.path.join(d, "patch.orig.diff")):
            os.rename(patch, os.path.join(d, "patch.orig.diff"))
        open(patch, "w").write(new)
        return True
    finally:
        run(["git", "-C", "/repo", "worktree", "remove", "--force", wt])


def one(bid, seeds):
    d = os.path.join(ROOT, "benign", bid)
    if not rebase(d):
        return bid, "PATCH-NO-LONGER-APPLIES"
    pid, name = bid.split("-", 1)
    note = ""
    try:
        note = json.load(open(os.path.join(d, "meta.json"))).get("note", "")
    except Exception:
        pass
    rc, out = run([os.path.join(ROOT, "tools", "benigntest.py"), pid, name, os.path.join(d, "patch.diff"), "--seeds", seeds, "--note", note])
    return bid, (out.strip().splitlines() or ["?"])[-1][:300]


def main():
    ap = argparse.ArgumentParser()
    ap.add_argument("-j", type=int, default=5)
    ap.add_argument("--seeds", default="0,1")
    ap.add_argument("ids", nargs="*")
    a = ap.parse_args()
    ids = a.ids or sorted(x for x in os.listdir(os.path.join(ROOT, "benign")) if os.path.exists(os.path.join(ROOT, "benign", x, "patch.diff")))
    bad = 0
    with ThreadPoolExecutor(a.j) as ex:
        for bid, line in ex.map(lambda b: one(b, a.seeds), ids):
            ok = " quiet " in (" " + line + " ")
            bad += 0 if ok else 1
            print(f"{bid:10s} {line}", flush=True)
    sys.exit(1 if bad else 0)


if __name__ == "__main__":
    main()
