#!/bin/bash
# usage: tools/seedbatch.sh C02 [--suite]   -> runs seedtest for patch A and B of that property from /root/scratch/mut_out
pid=$1; shift
for x in A B; do
  d=/root/scratch/mut_out/$pid
  needs=$(grep -i -m1 -A3 "Change $x" $d/notes.md 2>/dev/null | tr '\n' ' ' | cut -c1-300)
  /verif/tools/seedtest.py $pid $x $d/patch_$x.diff $d/demo_$x.py "$@" --needs "$needs" 2>&1 | tail -12
done
