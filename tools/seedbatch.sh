#!/bin/bash
# usage: tools/seedbatch.sh <dir-with-patch_A/B+demo_A/B+notes.md> <PID> <prefix e.g. R3>   -> seedtest for A and B (suite already confirmed by the author: pass --suite to re-run)
d=$1; pid=$2; pre=$3; shift 3
for x in A B; do
  needs=$(grep -i -m1 -A6 "## Change $x" $d/notes.md 2>/dev/null | tr '\n' ' ' | cut -c1-400)
  /verif/tools/seedtest.py $pid ${pre}$x $d/patch_$x.diff $d/demo_$x.py "$@" --needs "$needs" 2>&1 | tail -14
done
