#!/venv/bin/python
"""Markdown table: per claimed property, theorem count, Lean lines (model / lemmas / props), harness lines, unproved sub-claims."""
import os, re, sys, glob, importlib
root = os.path.dirname(os.path.dirname(os.path.abspath(__file__)))
sys.path.insert(0, root)
os.environ.setdefault("MPLBACKEND", "Agg")
from harness.registry import CLAIMED
from harness import core
def wc(paths): return sum(len(open(p).read().splitlines()) for p in paths if os.path.exists(p))
print("| Prop. | Theorems | Lean lines model / lemmas / props | harness lines | Unproved or oracle-only sub-claims (from the module's UNPROVED) |")
print("|---|---|---|---|---|")
tot = 0
for pid in sorted(CLAIMED):
    files = core.lean_sources(pid)
    model = [f for f in files if "/Model/" in f]; lem = [f for f in files if "/Lemmas/" in f]; props = [f for f in files if f.endswith(f"Props/{pid}.lean")]
    n = len(core.theorem_names(os.path.join(root, "lean", "DFV", "Props", f"{pid}.lean"))); tot += n
    try:
        mod = importlib.import_module(f"harness.{pid.lower()}")
        unp = "; ".join(getattr(mod, "UNPROVED", [])) or "—"
    except Exception as e:
        unp = "?"
    print(f"| {pid} | {n} | {wc(model)} / {wc(lem)} / {wc(props)} | {wc([os.path.join(root, 'harness', pid.lower() + '.py')])} | {unp[:400].replace('|', '/')} |")
print(f"\nTotal theorems: {tot}")
