#!/venv/bin/python
"""Prints the markdown table of confirmed seeded changes from seeded/*/meta.json."""
import json, glob, os
root = os.path.dirname(os.path.dirname(os.path.abspath(__file__)))
print("| Seeded change | Needs | Demo clean/patched | Suite with patch | Caught by | First failure reported |")
print("|---|---|---|---|---|---|")
for path in sorted(glob.glob(os.path.join(root, "seeded", "*", "meta.json"))):
    m = json.load(open(path))
    det = m.get("detected_by", [])
    what = ""
    for p in det:
        what = m["checks"][p].get("what", "")[:140].replace("|", "/").replace("\n", " ")
    print(f"| {m['id']} | {m.get('needs','')[:160].replace('|','/')} | {m.get('demo_clean_exit')}/{m.get('demo_patched_exit')} | "
          f"{'baseline' if m.get('suite_ok') else ('not run' if 'suite_ok' not in m else 'DIFFERS')} | {', '.join(det) or 'MISSED'} | {what} |")
