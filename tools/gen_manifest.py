#!/venv/bin/python
"""Regenerates MANIFEST.json from harness/registry.py (single source of truth)."""
import json, os, sys
sys.path.insert(0, os.path.dirname(os.path.dirname(os.path.abspath(__file__))))
from harness.registry import CLAIMED, NOT_APPLICABLE

man = {
    "version": 1,
    "setup_cmd": "cd lean && lake build",
    "hooks": {
        "guard": "UBERMAG_DISCRETISEDFIELD_VERIF",
        "enable": "no hooks exist in /repo: every check observes the public API, written files and third-party objects; checks import discretisedfield from /repo's working tree (editable install + sys.path) with UBERMAG_DISCRETISEDFIELD_VERIF=1 set",
        "baseline_off_cmd": "cd /repo && /venv/bin/python -m pytest -ra -q -p no:cacheprovider --timeout=900 --continue-on-collection-errors",
        "source_commits": [],
        "add_only": True,
    },
    "engines": [
        {"name": "lean-model", "path": "lean", "serves_properties": sorted(CLAIMED),
         "kind_free_text": "Lean 4.33 lake project: executable rational model (DFV/Model), lemmas (DFV/Lemmas, single Mathlib modules), property theorems (DFV/Props/Cxx.lean), compiled line-protocol driver (Driver.lean)"},
        {"name": "correspondence-harness", "path": "harness", "serves_properties": sorted(CLAIMED),
         "kind_free_text": "Python (/venv/bin/python, real discretisedfield imported from /repo): seeded generators, adapters, exact/tolerance/boundary comparators against the Lean driver, property oracles for the failing-input search"},
    ],
    "checks": [],
    "notes": "exit 2 = machinery failure (never a VIOLATION line). known_findings.json lists recorded defects; see DESIGN.md.",
    "not_applicable": [{"property_id": k, "reason": v} for k, v in sorted(NOT_APPLICABLE.items())],
}
for pid in sorted(CLAIMED):
    c = CLAIMED[pid]
    man["checks"].append({
        "property_id": pid,
        "quick_cmd": f"./check {pid} --tier quick",
        "thorough_cmd": f"./check {pid} --tier thorough",
        "evidence_file": f"evidence/{pid}.json",
        "replay_cmd_template": f"./check {pid} --replay {{path}}",
        "engine": "lean-model",
        "level_claimed": {"category": "proof", "text": c["text"], "design_ref": c.get("design_ref", f"DESIGN.md section 6 {pid}")},
        "level_note": c["note"],
        "technique": c.get("technique", "Lean 4 machine-checked proof over an executable rational model + differential correspondence check against the real code"),
    })
json.dump(man, open(os.path.join(os.path.dirname(os.path.dirname(os.path.abspath(__file__))), "MANIFEST.json"), "w"), indent=1)
# keep the lake default targets and the library root in step with the claimed set, so that
# `lake build` (setup_cmd) never depends on unfinished properties
import re
root = os.path.dirname(os.path.dirname(os.path.abspath(__file__)))
lf = os.path.join(root, "lean", "lakefile.toml")
t = open(lf).read()
tg = ['"DFV"'] + [f'"drv_{p.lower()}"' for p in sorted(CLAIMED)]
t = re.sub(r"defaultTargets = \[.*?\]", "defaultTargets = [" + ", ".join(tg) + "]", t)
open(lf, "w").write(t)
with open(os.path.join(root, "lean", "DFV.lean"), "w") as f:
    f.write("import DFV.Model.Basic\nimport DFV.Model.Field\nimport DFV.Json\nimport DFV.JsonField\nimport DFV.DrvLoop\n")
    for p in sorted(CLAIMED):
        f.write(f"import DFV.Drv.{p}\nimport DFV.Props.{p}\n")
print("claimed", sorted(CLAIMED), "n/a", sorted(NOT_APPLICABLE))
